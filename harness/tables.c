/* Dumps the graphs of the library's constant-table functions, evaluated on the code as compiled
   from the working tree.  tools/extract.py turns this into Lean (Sbdf/Gen/Tables.lean). */
#include <stdio.h>
#include <string.h>
#include "all.h"
#include "internals.h"

int main(void)
{
	int i;
	for (i = 0; i < 256; ++i)
	{
		sbdf_valuetype vt;
		vt.id = i;
		printf("size %d %d %d %d\n", i, sbdf_get_unpacked_size(vt), sbdf_get_packed_size(vt), sbdf_ti_is_arr(i));
	}
	for (i = -1100; i <= 10; ++i)
	{
		printf("err %d %s\n", i, sbdf_err_get_str(i));
	}
	printf("err %d %s\n", -32767, sbdf_err_get_str(-32767));
	printf("vt bool %d int %d long %d float %d double %d datetime %d date %d time %d timespan %d string %d binary %d decimal %d\n",
		sbdf_vt_bool().id, sbdf_vt_int().id, sbdf_vt_long().id, sbdf_vt_float().id, sbdf_vt_double().id,
		sbdf_vt_datetime().id, sbdf_vt_date().id, sbdf_vt_time().id, sbdf_vt_timespan().id,
		sbdf_vt_string().id, sbdf_vt_binary().id, sbdf_vt_decimal().id);
	for (i = 0; i <= 40; ++i)
	{
		printf("cap %d %d\n", i, sbdf_calculate_array_capacity(i));
	}
	return 0;
}
