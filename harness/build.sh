#!/bin/sh
# usage: build.sh <variant: asan|be|tsan|fast|rpipe|rsink> <outdir>   (compiles /repo/src fresh)
set -e
V="$1"; OUT="$2"; REPO="${SBDF_REPO:-/repo}"; H="$(cd "$(dirname "$0")" && pwd)"
mkdir -p "$OUT"
SHIM="-Dmalloc=vf_malloc -Dcalloc=vf_calloc -Drealloc=vf_realloc -Dfree=vf_free -Dfwrite=vf_fwrite"
case "$V" in
  asan) CC=clang; FL="-O1 -g -fsanitize=address,undefined -fno-sanitize-recover=all -fno-omit-frame-pointer";;
  be)   CC=clang; FL="-O1 -g -fsanitize=address,undefined -fno-sanitize-recover=all -fno-omit-frame-pointer -D__sparc";;
  tsan) CC=clang; FL="-O1 -g -fsanitize=thread"; SHIM="";;
  fast) CC=gcc;   FL="-O2";;
  rsink) CC=clang; FL="-O1 -g -fsanitize=address,undefined -fno-sanitize-recover=all -fno-omit-frame-pointer"; SHIM="";;
  rpipe) CC=clang; FL="-O1 -g -fsanitize=address,undefined -fno-sanitize-recover=all -fno-omit-frame-pointer"; SHIM="";;
  *) echo "bad variant"; exit 2;;
esac
INC="-I$REPO/include -I$REPO/src -I$H"
pids=""
for f in "$REPO"/src/*.c; do
  o="$OUT/lib_$(basename "$f" .c).o"
  $CC $FL $INC $SHIM -w -c "$f" -o "$o" &
  pids="$pids $!"
done
$CC $FL $INC -w -c "$H/shim.c" -o "$OUT/shim.o" & pids="$pids $!"
SRC="${HARNESS_MAIN:-drv.c}"
$CC $FL $INC -Wall -Wno-unused-function -c "$H/$SRC" -o "$OUT/main.o" & pids="$pids $!"
for p in $pids; do wait $p; done
$CC $FL "$OUT"/lib_*.o "$OUT/shim.o" "$OUT/main.o" -lpthread -o "$OUT/drv"
