/* realsink FILE... : every file is read with the library and written again — header, table
   metadata, every slice, end marker, then two more small writes — to REAL failing sinks through
   real stdio buffering (no fwrite shim): /dev/full and a pipe whose reader has gone (SIGPIPE
   ignored), each unbuffered, fully buffered with 64 and 4096 bytes, and line buffered.
   C13: once a call has reported a failure every later write to that stream reports one too
   (repair F27: the writers consult the stream's error indicator), and when all calls said OK
   but the sink refused bytes, the stream's error indicator must still be clear (nothing the
   library was told about was swallowed; what stdio still holds in its buffer is the caller's
   fflush/fclose to check).  One line per file and sink: SAME/DIFF and the status sequence. */
#define _GNU_SOURCE
#include <stdio.h>
#include <stdlib.h>
#include <string.h>
#include <signal.h>
#include <unistd.h>
#include "all.h"
#include "all_io.h"
#include "internals.h"

static FILE* open_sink(int kind)
{
	if (kind == 0) return fopen("/dev/full", "wb");
	else
	{
		int fd[2];
		if (pipe(fd)) return 0;
		close(fd[0]);          /* nobody will ever read */
		return fdopen(fd[1], "wb");
	}
}

int main(int argc, char** argv)
{
	int a, bad = 0;
	static char vbuf[4096];
	signal(SIGPIPE, SIG_IGN);
	for (a = 1; a < argc; ++a)
	{
		FILE* in = fopen(argv[a], "rb");
		int maj, min, st, nts = 0, i, kind, mode;
		sbdf_tablemetadata* tm = 0;
		sbdf_tableslice* ts[64];
		if (!in) { printf("DIFF cannot open %s\n", argv[a]); bad = 1; continue; }
		st = sbdf_fh_read(in, &maj, &min);
		if (!st) st = sbdf_tm_read(in, &tm);
		while (!st && nts < 64)
		{
			st = sbdf_ts_read(in, tm, 0, &ts[nts]);
			if (!st) ++nts;
		}
		fclose(in);
		if (!tm) { printf("SAME unreadable %s\n", argv[a]); continue; }
		for (kind = 0; kind < 2; ++kind)
		{
			for (mode = 0; mode < 4; ++mode)
			{
				FILE* f = open_sink(kind);
				int seq[80], n = 0, failed = 0, ok = 1, err;
				if (!f) { printf("DIFF cannot open sink %d\n", kind); bad = 1; continue; }
				if (mode == 0) setvbuf(f, 0, _IONBF, 0);
				else if (mode == 1) setvbuf(f, vbuf, _IOFBF, 64);
				else if (mode == 2) setvbuf(f, vbuf, _IOFBF, 4096);
				else setvbuf(f, vbuf, _IOLBF, 4096);
				seq[n++] = sbdf_fh_write_cur(f);
				seq[n++] = sbdf_tm_write(f, tm);
				for (i = 0; i < nts; ++i) seq[n++] = sbdf_ts_write(f, ts[i]);
				seq[n++] = sbdf_ts_write_end(f);
				seq[n++] = sbdf_write_int32(f, 7);
				seq[n++] = sbdf_sec_write(f, 5);
				err = ferror(f);
				for (i = 0; i < n; ++i)
				{
					if (failed && seq[i] == SBDF_OK) ok = 0;   /* a later write said OK */
					if (seq[i] != SBDF_OK) failed = 1;
				}
				if (!failed && err) ok = 0;                    /* refused bytes, every call said OK */
				printf("%s sink=%s/%d ferror=%d seq=", ok ? "SAME" : "DIFF", kind ? "closed-pipe" : "dev-full", mode, err);
				for (i = 0; i < n; ++i) printf("%s%d", i ? "," : "", seq[i]);
				printf(" %s\n", argv[a]);
				if (!ok) bad = 1;
				fclose(f);
			}
		}
		for (i = 0; i < nts; ++i) sbdf_ts_destroy(ts[i]);
		sbdf_tm_destroy(tm);
	}
	return bad;
}
