/* Correspondence harness: interprets scenario lines against the real library, in-process.
   One scenario per input line, one canonical output line per scenario (see protocol.md).
   Compiled WITHOUT the malloc/fwrite redirection; links the library objects compiled WITH it. */
#define _GNU_SOURCE
#include <stdio.h>
#include <stdlib.h>
#include <string.h>
#include <stdarg.h>
#include <stdint.h>
#include <unistd.h>
#include <limits.h>

#include "all.h"
#include "all_io.h"
#include "internals.h"
#include "shim.h"

/* ------------------------------------------------------------------ string builder */
typedef struct { char* p; size_t n, cap; } SB;
static void sb_need(SB* s, size_t k)
{
	if (s->n + k + 1 > s->cap)
	{
		s->cap = (s->n + k + 1) * 2 + 64;
		s->p = realloc(s->p, s->cap);
		if (!s->p) { fprintf(stderr, "harness: out of memory\n"); exit(3); }
	}
}
static void sb_put(SB* s, const char* t, size_t k) { sb_need(s, k); memcpy(s->p + s->n, t, k); s->n += k; s->p[s->n] = 0; }
static void sb_puts(SB* s, const char* t) { sb_put(s, t, strlen(t)); }
static void sb_printf(SB* s, const char* fmt, ...)
{
	char buf[256];
	va_list ap;
	int k;
	va_start(ap, fmt);
	k = vsnprintf(buf, sizeof buf, fmt, ap);
	va_end(ap);
	sb_put(s, buf, (size_t)k);
}
static uint64_t fnv(const char* p, size_t n)
{
	uint64_t h = 1469598103934665603ULL;
	size_t i;
	for (i = 0; i < n; ++i) { h ^= (unsigned char)p[i]; h *= 1099511628211ULL; }
	return h;
}
/* replace the text appended since `from` by #len:hash when longer than lim */
static __thread int g_full = 0;
static void sb_squash(SB* s, size_t from, size_t lim)
{
	size_t len = s->n - from;
	if (len > lim && !g_full)
	{
		uint64_t h = fnv(s->p + from, len);
		s->n = from;
		sb_printf(s, "#%lu:%016llx", (unsigned long)len, (unsigned long long)h);
	}
}
static void sb_hex(SB* s, const unsigned char* b, size_t n)
{
	static const char* d = "0123456789abcdef";
	size_t i;
	if (n == 0) { sb_puts(s, "-"); return; }
	sb_need(s, 2 * n);
	for (i = 0; i < n; ++i) { s->p[s->n++] = d[b[i] >> 4]; s->p[s->n++] = d[b[i] & 15]; }
	s->p[s->n] = 0;
}
static const size_t OBJ_LIM = 256, HEX_LIM = 512;
static void sb_hexq(SB* s, const unsigned char* b, size_t n) { size_t f = s->n; sb_hex(s, b, n); sb_squash(s, f, HEX_LIM); }

/* ------------------------------------------------------------------ tokens */
typedef struct { char** t; int n, i; } Toks;
static const char* nx(Toks* k) { if (k->i >= k->n) { fprintf(stderr, "harness: script truncated\n"); exit(4); } return k->t[k->i++]; }
static int has(Toks* k) { return k->i < k->n; }
static long nxl(Toks* k) { return strtol(nx(k), 0, 10); }
static int hv(char c) { return c <= '9' ? c - '0' : c - 'a' + 10; }
static unsigned char* unhex(const char* s, int* len)
{
	size_t n = strcmp(s, "-") ? strlen(s) / 2 : 0, i;
	unsigned char* b = malloc(n + 8);
	for (i = 0; i < n; ++i) b[i] = (unsigned char)(hv(s[2 * i]) * 16 + hv(s[2 * i + 1]));
	/* what follows the stated length is not part of the element: the constructors are given
	   explicit lengths and must not look further (no terminator right behind the data) */
	memcpy(b + n, "\x7e\x7f\x41\x42\x43\x44\x45", 7);
	b[n + 7] = 0;
	*len = (int)n;
	return b;
}
/* a name: bytes up to the first NUL are what the C API sees */
/* names are C strings: terminated right behind the data */
static char* nxname(Toks* k) { int l; char* b = (char*)unhex(nx(k), &l); b[l] = 0; return b; }

/* ------------------------------------------------------------------ scratch files */
static __thread FILE* g_f;   /* stream under test */
static __thread FILE* g_w;   /* side stream for dumps (sbdf_va_write of a value array) */
static void f_reset(FILE* f) { rewind(f); if (ftruncate(fileno(f), 0)) exit(5); }
static void f_load(FILE* f, const unsigned char* b, size_t n) { f_reset(f); if (n) fwrite(b, 1, n, f); fflush(f); rewind(f); }

/* `pipe` prefix: the stream under test cannot seek, like a pipe, a socket or stdin: fseek fails
   with ESPIPE, ftell still answers (so positions stay observable).  pipe=1: buffered, pipe=2: unbuffered. */
#include <errno.h>
typedef struct { const unsigned char* b; size_t n, pos; } PipeSrc;
static __thread int g_pipe;
static __thread PipeSrc g_ps;
static __thread FILE* g_ftmp;
static ssize_t ps_read(void* c, char* buf, size_t sz)
{
	PipeSrc* p = c;
	size_t k = p->n - p->pos;
	if (k > sz) k = sz;
	if (k > 4096) k = 4096; /* short reads, as pipes give */
	memcpy(buf, p->b + p->pos, k);
	p->pos += k;
	return (ssize_t)k;
}
static int ps_seek(void* c, off64_t* off, int whence)
{
	PipeSrc* p = c;
	if (whence == SEEK_CUR && *off == 0) { *off = (off64_t)p->pos; return 0; }
	errno = ESPIPE;
	return -1;
}
static void in_open(void)
{
	cookie_io_functions_t io = { ps_read, 0, ps_seek, 0 };
	if (g_f != g_ftmp) fclose(g_f);
	g_ps.pos = 0;
	g_f = fopencookie(&g_ps, "r", io);
	if (!g_f) { perror("fopencookie"); exit(5); }
	if (g_pipe == 2) setvbuf(g_f, 0, _IONBF, 0);
}
/* the bytes a reading scenario starts from / goes back to the start of */
static void in_load(const unsigned char* b, size_t n)
{
	if (!g_pipe) { f_load(g_f, b, n); return; }
	g_ps.b = b; g_ps.n = n;
	in_open();
}
static void in_rewind(void) { if (g_pipe) in_open(); else rewind(g_f); }
static unsigned char* f_slurp(FILE* f, size_t* n)
{
	long e;
	unsigned char* b;
	fflush(f);
	fseek(f, 0, SEEK_END);
	e = ftell(f);
	b = malloc((size_t)e + 1);
	rewind(f);
	*n = fread(b, 1, (size_t)e, f);
	return b;
}

/* ------------------------------------------------------------------ objects */
static int is_arr(int id) { return id == SBDF_STRINGTYPEID || id == SBDF_BINARYTYPEID; }

/* OBJ := tid count e1 .. ecount ; returns status of sbdf_obj_create_arr */
static int parse_obj(Toks* k, sbdf_object** out)
{
	sbdf_valuetype vt;
	int count, i, err;
	unsigned char** el;
	int* ln;
	vt.id = (int)nxl(k);
	count = (int)nxl(k);
	el = malloc(sizeof(void*) * (size_t)(count + 1));
	ln = malloc(sizeof(int) * (size_t)(count + 1));
	for (i = 0; i < count; ++i) el[i] = unhex(nx(k), &ln[i]);
	if (is_arr(vt.id))
	{
		err = sbdf_obj_create_arr(vt, count, el, ln, out);
	}
	else
	{
		size_t tot = 0, o = 0;
		unsigned char* flat;
		for (i = 0; i < count; ++i) tot += (size_t)ln[i];
		flat = malloc(tot + 1);
		for (i = 0; i < count; ++i) { memcpy(flat + o, el[i], (size_t)ln[i]); o += (size_t)ln[i]; }
		err = sbdf_obj_create_arr(vt, count, flat, 0, out);
		free(flat);
	}
	for (i = 0; i < count; ++i) free(el[i]);
	free(el);
	free(ln);
	return err;
}

static void dump_obj(SB* s, sbdf_object const* o)
{
	size_t from = s->n;
	int i;
	if (!o) { sb_puts(s, "-"); return; }
	sb_printf(s, "%d:%d:", o->type.id, o->count);
	if (is_arr(o->type.id))
	{
		for (i = 0; i < o->count; ++i)
		{
			unsigned char* e = ((unsigned char**)o->data)[i];
			int l = o->type.id == SBDF_STRINGTYPEID ? sbdf_str_len((char*)e) : sbdf_ba_get_len(e);
			if (i) sb_puts(s, ",");
			sb_hex(s, e, (size_t)l);
		}
	}
	else
	{
		int sz = sbdf_get_unpacked_size(o->type);
		if (sz <= 0) { sb_puts(s, "?"); return; }
		for (i = 0; i < o->count; ++i)
		{
			if (i) sb_puts(s, ",");
			sb_hex(s, (unsigned char*)o->data + (size_t)i * (size_t)sz, (size_t)sz);
		}
	}
	sb_squash(s, from, OBJ_LIM);
}

/* ------------------------------------------------------------------ value arrays */
/* rows=<n>,vals=<st>[:obj],w=<st>:<hex> */
static void dump_va(SB* s, sbdf_valuearray* va)
{
	sbdf_object* vals = (sbdf_object*)(void*)1; /* sentinel */
	int st;
	size_t n;
	unsigned char* b;
	if (!va) { sb_puts(s, "-"); return; }
	sb_printf(s, "rows=%d,vals=", sbdf_va_row_cnt(va));
	st = sbdf_va_get_values(va, &vals);
	sb_printf(s, "%d", st);
	if (st == SBDF_OK)
	{
		sb_puts(s, ":");
		dump_obj(s, vals);
		sbdf_obj_destroy(vals);
	}
	else if (vals != (sbdf_object*)(void*)1 && vals != 0)
	{
		sb_puts(s, "!OUTSET");
	}
	f_reset(g_w);
	st = sbdf_va_write(va, g_w);
	b = f_slurp(g_w, &n);
	sb_printf(s, ",w=%d:", st);
	sb_hexq(s, b, n);
	free(b);
}

/* VASPEC := enc OBJ  (enc 0 = default encoding) */
static int parse_va(Toks* k, sbdf_valuearray** out)
{
	int enc = (int)nxl(k), err;
	sbdf_object* o = 0;
	*out = 0;
	err = parse_obj(k, &o);
	if (err) return err;
	if (enc == 0) err = sbdf_va_create_dflt(o, out);
	else err = sbdf_va_create(enc, o, out);
	sbdf_obj_destroy(o);
	if (err) *out = 0; /* defensive: a failed create owns nothing */
	return err;
}

/* ------------------------------------------------------------------ metadata */
static void dump_md(SB* s, sbdf_metadata_head const* h)
{
	sbdf_metadata const* m;
	size_t from = s->n;
	if (!h) { sb_puts(s, "-"); return; }
	sb_printf(s, "m%d{", h->modifiable);
	for (m = h->first; m; m = m->next)
	{
		sb_hex(s, (unsigned char*)m->name, (size_t)sbdf_str_len(m->name));
		sb_puts(s, "=");
		dump_obj(s, m->value);
		sb_puts(s, "/");
		dump_obj(s, m->default_value);
		sb_puts(s, ";");
	}
	sb_puts(s, "}");
	sb_squash(s, from, 4096);
}

/* accessors on every entry of a metadata list: g<st>d<st> per entry, content must equal */
static void probe_md(SB* s, sbdf_metadata_head const* h)
{
	sbdf_metadata const* m;
	size_t from = s->n;
	int cnt = 0;
	sb_printf(s, "c%d[", sbdf_md_cnt(h));
	for (m = h->first; m && cnt < 64; m = m->next, ++cnt)
	{
		sbdf_object* o = (sbdf_object*)(void*)1;
		int st = sbdf_md_get(m->name, h, &o);
		sb_printf(s, "g%d", st);
		if (st == SBDF_OK) { sb_puts(s, ":"); dump_obj(s, o); sbdf_obj_destroy(o); }
		else if (o != (sbdf_object*)(void*)1 && o != 0) sb_puts(s, "!OUTSET");
		o = (sbdf_object*)(void*)1;
		st = sbdf_md_get_dflt(m->name, h, &o);
		sb_printf(s, "d%d", st);
		if (st == SBDF_OK) { sb_puts(s, ":"); dump_obj(s, o); sbdf_obj_destroy(o); }
		else if (o != (sbdf_object*)(void*)1 && o != 0) sb_puts(s, "!OUTSET");
		sb_printf(s, "e%d,", sbdf_md_exists(m->name, h));
	}
	sb_puts(s, "]");
	sb_squash(s, from, 4096);
}

static void dump_tm(SB* s, sbdf_tablemetadata const* tm, int probe)
{
	int i;
	size_t from = s->n;
	sb_puts(s, "T");
	dump_md(s, tm->table_metadata);
	if (probe) probe_md(s, tm->table_metadata);
	sb_printf(s, "N%d", tm->no_columns);
	for (i = 0; i < tm->no_columns; ++i)
	{
		sb_puts(s, "C");
		dump_md(s, tm->column_metadata[i]);
		if (probe && i < 64)
		{
			char* nm = (char*)(void*)1;
			sbdf_valuetype vt;
			int st;
			probe_md(s, tm->column_metadata[i]);
			st = sbdf_cm_get_name(tm->column_metadata[i], &nm);
			sb_printf(s, "n%d", st);
			if (st == SBDF_OK) { sb_puts(s, ":"); sb_hex(s, (unsigned char*)nm, (size_t)sbdf_str_len(nm)); sbdf_str_destroy(nm); }
			vt.id = -77;
			st = sbdf_cm_get_type(tm->column_metadata[i], &vt);
			sb_printf(s, "t%d", st);
			if (st == SBDF_OK) sb_printf(s, ":%d", vt.id);
		}
	}
	sb_squash(s, from, 16384);
}

/* MD := n (name OBJ hasd [OBJ]){n} ; builds through sbdf_md_add; first error stops */
static int parse_md(Toks* k, sbdf_metadata_head** out)
{
	int n, i, err, first = SBDF_OK;
	sbdf_metadata_head* h = 0;
	err = sbdf_md_create(&h);
	*out = h;
	if (err) first = err;   /* the tokens are consumed all the same */
	n = (int)nxl(k);
	for (i = 0; i < n; ++i)
	{
		char* name = nxname(k);
		sbdf_object* v = 0;
		sbdf_object* d = 0;
		int e1 = parse_obj(k, &v), e2 = SBDF_OK, hasd = (int)nxl(k);
		if (hasd) e2 = parse_obj(k, &d);
		if (first == SBDF_OK)
		{
			if (e1) first = e1;
			else if (e2) first = e2;
			else first = sbdf_md_add(name, v, d, h);
		}
		sbdf_obj_destroy(v);
		sbdf_obj_destroy(d);
		free(name);
	}
	return first;
}

/* ------------------------------------------------------------------ slices */
typedef struct Built
{
	sbdf_tablemetadata* tm;
	sbdf_tableslice** ts; int nts;
	sbdf_columnslice** cs; int ncs;
	sbdf_valuearray** va; int nva;
} Built;

static void built_free(Built* b)
{
	int i;
	for (i = 0; i < b->nts; ++i) sbdf_ts_destroy(b->ts[i]);
	for (i = 0; i < b->ncs; ++i) sbdf_cs_destroy(b->cs[i]);
	for (i = 0; i < b->nva; ++i) sbdf_va_destroy(b->va[i]);
	sbdf_tm_destroy(b->tm);
	free(b->ts); free(b->cs); free(b->va);
	memset(b, 0, sizeof *b);
}

static void dump_cs(SB* s, sbdf_columnslice* cs)
{
	int i;
	size_t from = s->n;
	if (!cs) { sb_puts(s, "-"); return; }
	sb_puts(s, "V(");
	dump_va(s, cs->values);
	sb_printf(s, ")r%dP%d{", sbdf_cs_row_cnt(cs), cs->prop_cnt);
	for (i = 0; i < cs->prop_cnt; ++i)
	{
		sbdf_valuearray* got = 0;
		int st;
		sb_hex(s, (unsigned char*)cs->property_names[i], (size_t)sbdf_str_len(cs->property_names[i]));
		sb_puts(s, "=(");
		dump_va(s, cs->properties[i]);
		st = sbdf_cs_get_property(cs, cs->property_names[i], &got);
		/* lookup by name returns the first property whose C-string name matches */
		sb_printf(s, ")g%d", st);
		if (st == SBDF_OK)
		{
			int j;
			for (j = 0; j < cs->prop_cnt && cs->properties[j] != got; ++j) {}
			sb_printf(s, "@%d", j);
		}
		sb_puts(s, ";");
	}
	sb_puts(s, "}");
	sb_squash(s, from, 8192);
}

static void dump_ts(SB* s, sbdf_tableslice* ts)
{
	int i;
	size_t from = s->n;
	sb_printf(s, "S%d[", ts->no_columns);
	for (i = 0; i < ts->no_columns; ++i)
	{
		if (i) sb_puts(s, "|");
		dump_cs(s, ts->columns[i]);
	}
	sb_puts(s, "]");
	sb_squash(s, from, 32768);
}

/* TABLE := MD ncols MD{ncols} nslices (ncs (VASPEC nprops (name VASPEC){nprops}){ncs}){nslices}
   Builds through the public API in this order; the first non-OK status stops the build and is
   returned (the rest of the tokens is still consumed). */
static int parse_table(Toks* k, Built* b)
{
	sbdf_metadata_head* md = 0;
	int err, first, ncols, nsl, i, j, p;
	memset(b, 0, sizeof *b);
	first = parse_md(k, &md);
	if (first == SBDF_OK) first = sbdf_tm_create(md, &b->tm);
	sbdf_md_destroy(md);
	ncols = (int)nxl(k);
	for (i = 0; i < ncols; ++i)
	{
		err = parse_md(k, &md);
		if (first == SBDF_OK) first = err;
		if (first == SBDF_OK) first = sbdf_tm_add(md, b->tm);
		sbdf_md_destroy(md);
	}
	nsl = (int)nxl(k);
	b->ts = calloc((size_t)nsl + 1, sizeof(void*));
	for (i = 0; i < nsl; ++i)
	{
		int ncs = (int)nxl(k);
		sbdf_tableslice* ts = 0;
		if (first == SBDF_OK) { first = sbdf_ts_create(b->tm, &ts); if (first == SBDF_OK) b->ts[b->nts++] = ts; }
		for (j = 0; j < ncs; ++j)
		{
			sbdf_valuearray* va = 0;
			sbdf_columnslice* cs = 0;
			int np;
			err = parse_va(k, &va);
			if (first != SBDF_OK) { sbdf_va_destroy(va); va = 0; }
			else if (err) first = err;
			b->va = realloc(b->va, sizeof(void*) * (size_t)(b->nva + 2));
			if (va) b->va[b->nva++] = va;
			if (first == SBDF_OK)
			{
				first = sbdf_cs_create(&cs, va);
				b->cs = realloc(b->cs, sizeof(void*) * (size_t)(b->ncs + 2));
				if (first == SBDF_OK) b->cs[b->ncs++] = cs;
			}
			np = (int)nxl(k);
			for (p = 0; p < np; ++p)
			{
				char* name = nxname(k);
				sbdf_valuearray* pv = 0;
				err = parse_va(k, &pv);
				if (first != SBDF_OK) { sbdf_va_destroy(pv); pv = 0; }
				else if (err) first = err;
				b->va = realloc(b->va, sizeof(void*) * (size_t)(b->nva + 2));
				if (pv) b->va[b->nva++] = pv;
				if (first == SBDF_OK) first = sbdf_cs_add_property(cs, name, pv);
				free(name);
			}
			if (first == SBDF_OK) first = sbdf_ts_add(cs, ts);
		}
	}
	return first;
}

/* write header, table metadata, slices, end marker; statuses of every call until the first
   failure.  out: "fh=0 tm=0 ts=0,0 end=0" */
static int write_table(SB* s, Built* b, FILE* f)
{
	int st, i;
	st = sbdf_fh_write_cur(f);
	sb_printf(s, "fh=%d", st);
	if (st) return st;
	st = sbdf_tm_write(f, b->tm);
	sb_printf(s, " tm=%d", st);
	if (st) return st;
	sb_puts(s, " ts=");
	for (i = 0; i < b->nts; ++i)
	{
		st = sbdf_ts_write(f, b->ts[i]);
		sb_printf(s, "%s%d", i ? "," : "", st);
		if (st) return st;
	}
	st = sbdf_ts_write_end(f);
	sb_printf(s, " end=%d", st);
	return st;
}

/* read a whole file from g_f the way a caller does; dump everything.
   subset: 0 = none, else string of '0'/'1' per column (padded with '0').
   rewrite: also write back what was read and print the bytes. */
/* decode every column / property of the slices and re-encode it with the default encoding;
   write header, metadata, re-encoded slices, end marker to g_w; print statuses and bytes */
static void reencode_dflt(SB* s, sbdf_tablemetadata* tm, sbdf_tableslice** ts, int nts)
{
	int i, j, p, st = sbdf_fh_write_cur(g_w);
	size_t n;
	unsigned char* bytes;
	sb_printf(s, " rd:fh=%d", st);
	if (!st) { st = sbdf_tm_write(g_w, tm); sb_printf(s, " tm=%d", st); }
	for (i = 0; i < nts && !st; ++i)
	{
		sbdf_tableslice* nt = 0;
		sbdf_columnslice** ncs = calloc((size_t)ts[i]->no_columns + 1, sizeof(void*));
		sbdf_valuearray** nva = 0;
		int nnva = 0;
		st = sbdf_ts_create(tm, &nt);
		for (j = 0; j < ts[i]->no_columns && !st; ++j)
		{
			sbdf_columnslice* c = ts[i]->columns[j];
			sbdf_object* o = 0;
			sbdf_valuearray* v = 0;
			st = sbdf_va_get_values(c->values, &o);
			if (!st) { st = sbdf_va_create_dflt(o, &v); sbdf_obj_destroy(o); }
			if (st) break;
			nva = realloc(nva, sizeof(void*) * (size_t)(nnva + 1)); nva[nnva++] = v;
			st = sbdf_cs_create(&ncs[j], v);
			for (p = 0; p < c->prop_cnt && !st; ++p)
			{
				o = 0; v = 0;
				st = sbdf_va_get_values(c->properties[p], &o);
				if (!st) { st = sbdf_va_create_dflt(o, &v); sbdf_obj_destroy(o); }
				if (st) break;
				nva = realloc(nva, sizeof(void*) * (size_t)(nnva + 1)); nva[nnva++] = v;
				st = sbdf_cs_add_property(ncs[j], c->property_names[p], v);
			}
			if (!st) st = sbdf_ts_add(ncs[j], nt);
		}
		if (!st) st = sbdf_ts_write(g_w, nt);
		sb_printf(s, " ts=%d", st);
		sbdf_ts_destroy(nt);
		for (j = 0; j < ts[i]->no_columns; ++j) sbdf_cs_destroy(ncs[j]);
		for (j = 0; j < nnva; ++j) sbdf_va_destroy(nva[j]);
		free(ncs); free(nva);
	}
	if (!st) { st = sbdf_ts_write_end(g_w); sb_printf(s, " end=%d", st); }
	bytes = f_slurp(g_w, &n);
	sb_puts(s, " bytes=");
	sb_hexq(s, bytes, n);
	free(bytes);
}

static void read_file(SB* s, size_t flen, const char* subset, int probe, int rewrite)
{
	int maj = -1, min = -1, st, ncalls = 0, posok = 0;
	sbdf_tablemetadata* tm = (sbdf_tablemetadata*)(void*)1;
	sbdf_tableslice** kept = 0;
	int nkept = 0, i;
	char* sub = 0;
	st = sbdf_fh_read(g_f, &maj, &min);
	sb_printf(s, "fh=%d", st);
	if (st) goto done;
	sb_printf(s, ":%d.%d", maj, min);
	st = sbdf_tm_read(g_f, &tm);
	sb_printf(s, " tm=%d", st);
	if (st)
	{
		if (tm != (sbdf_tablemetadata*)(void*)1 && tm != 0) sb_puts(s, "!OUTSET");
		tm = 0;
		goto done;
	}
	sb_puts(s, ":");
	dump_tm(s, tm, probe);
	if (subset && strcmp(subset, "-"))
	{
		size_t sl = strlen(subset), need = (size_t)(tm->no_columns > 0 ? tm->no_columns : 0) + 1;
		sub = calloc(need > sl ? need : sl + 1, 1);
		for (i = 0; (size_t)i < sl; ++i) sub[i] = subset[i] == '1';
	}
	for (;;)
	{
		sbdf_tableslice* ts = (sbdf_tableslice*)(void*)1;
		if ((size_t)ncalls++ >= flen + 8) { sb_puts(s, " ts=FUEL"); posok = 1; break; }
		st = sbdf_ts_read(g_f, tm, sub, &ts);
		sb_printf(s, " ts=%d", st);
		if (st)
		{
			if (ts != (sbdf_tableslice*)(void*)1 && ts != 0) sb_puts(s, "!OUTSET");
			posok = st == SBDF_TABLEEND;
			break;
		}
		sb_puts(s, ":");
		dump_ts(s, ts);
		kept = realloc(kept, sizeof(void*) * (size_t)(nkept + 1));
		kept[nkept++] = ts;
	}
done:
	if (posok) sb_printf(s, " pos=%ld", ftell(g_f));
	else sb_puts(s, " pos=-");
	if (rewrite && tm && tm != (sbdf_tablemetadata*)(void*)1)
	{
		Built b;
		size_t n;
		unsigned char* bytes;
		memset(&b, 0, sizeof b);
		b.tm = tm; b.ts = kept; b.nts = nkept;
		f_reset(g_w);
		sb_puts(s, " rw:");
		write_table(s, &b, g_w);
		bytes = f_slurp(g_w, &n);
		sb_puts(s, " bytes=");
		sb_hexq(s, bytes, n);
		free(bytes);
		if (rewrite == 2 && posok)
		{
			f_reset(g_w);
			reencode_dflt(s, tm, kept, nkept);
		}
	}
	for (i = 0; i < nkept; ++i) sbdf_ts_destroy(kept[i]);
	free(kept);
	if (tm && tm != (sbdf_tablemetadata*)(void*)1) sbdf_tm_destroy(tm);
	free(sub);
}

/* ------------------------------------------------------------------ scenarios */

/* memory-backed stream for the numeric digests (no system calls per value) */
static __thread FILE* g_m;
static __thread unsigned char g_mbuf[64];
static void sc_c16_one(SB* s, unsigned int n)
{
	long k;
	int v = 0x5a5a5a5a, st;
	if (!g_m) g_m = fmemopen(g_mbuf, sizeof g_mbuf, "w+");
	rewind(g_m);
	st = sbdf_write_7bitpacked_int32(g_m, (int)n);
	fflush(g_m);
	k = ftell(g_m);
	sb_printf(s, "w7=%d:", st);
	sb_hex(s, g_mbuf, (size_t)k);
	sb_printf(s, " len7=%d", sbdf_get_7bitpacked_len((int)n));
	/* a byte that is not a continuation ends the group sequence whatever follows */
	g_mbuf[k] = 0;
	rewind(g_m);
	st = sbdf_read_7bitpacked_int32(g_m, &v);
	sb_printf(s, " r7=%d:%d:%ld", st, v, ftell(g_m));
	rewind(g_m);
	st = sbdf_write_int32(g_m, (int)n);
	fflush(g_m);
	k = ftell(g_m);
	sb_printf(s, " w32=%d:", st);
	sb_hex(s, g_mbuf, (size_t)k);
	rewind(g_m);
	v = 0x5a5a5a5a;
	st = sbdf_read_int32(g_m, &v);
	sb_printf(s, " r32=%d:%d", st, v);
}

static void sc_c16(SB* s, Toks* k) { sc_c16_one(s, (unsigned int)strtoul(nx(k), 0, 10)); }

/* digest over lo, lo+step, ... < hi */
static void sc_c16d(SB* s, Toks* k)
{
	unsigned long lo = strtoul(nx(k), 0, 10), hi = strtoul(nx(k), 0, 10), step = strtoul(nx(k), 0, 10), n;
	uint64_t h = 1469598103934665603ULL;
	unsigned long cnt = 0;
	SB t = {0, 0, 0};
	for (n = lo; n < hi; n += step)
	{
		size_t i;
		t.n = 0;
		sc_c16_one(&t, (unsigned int)n);
		for (i = 0; i < t.n; ++i) { h ^= (unsigned char)t.p[i]; h *= 1099511628211ULL; }
		h ^= 10; h *= 1099511628211ULL;
		++cnt;
	}
	free(t.p);
	sb_printf(s, "n=%lu h=%016llx", cnt, (unsigned long long)h);
}

static void sc_r7(SB* s, Toks* k)
{
	int l, v = 0x5a5a5a5a, st;
	unsigned char* b = unhex(nx(k), &l);
	f_load(g_f, b, (size_t)l);
	st = sbdf_read_7bitpacked_int32(g_f, &v);
	sb_printf(s, "r7=%d", st);
	if (st == SBDF_OK) sb_printf(s, ":%d pos=%ld", v, ftell(g_f));
	free(b);
}

static int sgn(int v) { return v < 0 ? -1 : v > 0 ? 1 : 0; }

static void sc_strcmp(SB* s, Toks* k)
{
	int la, lb;
	unsigned char* a = unhex(nx(k), &la);
	unsigned char* b = unhex(nx(k), &lb);
	char* sa = sbdf_str_create_len((char*)a, la);
	char* sb_ = sbdf_str_create_len((char*)b, lb);
	unsigned char* ba = sbdf_ba_create(a, la);
	unsigned char* bb = sbdf_ba_create(b, lb);
	sb_printf(s, "str=%d ba=%d", sgn(sbdf_str_cmp(sa, sb_)), sgn(sbdf_ba_memcmp(ba, bb)));
	sbdf_str_destroy(sa); sbdf_str_destroy(sb_); sbdf_ba_destroy(ba); sbdf_ba_destroy(bb);
	free(a); free(b);
}

/* create / copy keep length and bytes; strings are NUL terminated */
static void sc_strmk(SB* s, Toks* k)
{
	int l;
	unsigned char* a = unhex(nx(k), &l);
	char* s1 = sbdf_str_create_len((char*)a, l);
	char* s2 = sbdf_str_copy(s1);
	unsigned char* b1 = sbdf_ba_create(a, l);
	char* s3 = (a[l] = 0, sbdf_str_create((char*)a));   /* the C-string constructor needs the terminator */
	sb_printf(s, "len=%d ", sbdf_str_len(s1));
	sb_hex(s, (unsigned char*)s1, (size_t)sbdf_str_len(s1) + 1);
	sb_printf(s, " copy=%d ", sbdf_str_len(s2));
	sb_hex(s, (unsigned char*)s2, (size_t)sbdf_str_len(s2) + 1);
	sb_printf(s, " cstr=%d ", sbdf_str_len(s3));
	sb_hex(s, (unsigned char*)s3, (size_t)sbdf_str_len(s3) + 1);
	sb_printf(s, " ba=%d ", sbdf_ba_get_len(b1));
	sb_hex(s, b1, (size_t)sbdf_ba_get_len(b1));
	sbdf_str_destroy(s1); sbdf_str_destroy(s2); sbdf_str_destroy(s3); sbdf_ba_destroy(b1);
	free(a);
}

static void sc_objeq(SB* s, Toks* k)
{
	sbdf_object* a = 0;
	sbdf_object* b = 0;
	sbdf_object* c = 0;
	int e1 = parse_obj(k, &a), e2 = parse_obj(k, &b);
	if (e1 || e2) { sb_printf(s, "create=%d,%d", e1, e2); }
	else
	{
		sbdf_obj_copy(a, &c);
		sb_printf(s, "eq=%d rev=%d self=%d copy=%d", !!sbdf_obj_eq(a, b), !!sbdf_obj_eq(b, a), !!sbdf_obj_eq(a, a), !!sbdf_obj_eq(a, c));
	}
	sbdf_obj_destroy(a); sbdf_obj_destroy(b); sbdf_obj_destroy(c);
}

/* charset helpers on an exactly sized heap buffer (ASan sees any read past the terminator);
   the output buffer has exactly the size the length-only call announced */
static void sc_conv(SB* s, Toks* k, int u2i)
{
	int l, size, size2;
	unsigned char* raw = unhex(nx(k), &l);
	char* inp = malloc((size_t)l + 1);
	char* out;
	memcpy(inp, raw, (size_t)l);
	inp[l] = 0;
	size = u2i ? sbdf_convert_utf8_to_iso88591(inp, 0) : sbdf_convert_iso88591_to_utf8(inp, 0);
	out = malloc((size_t)(size > 0 ? size : 1));
	memset(out, 0x55, (size_t)(size > 0 ? size : 1));
	size2 = u2i ? sbdf_convert_utf8_to_iso88591(inp, out) : sbdf_convert_iso88591_to_utf8(inp, out);
	sb_printf(s, "size=%d written=%d out=", size, size2);
	sb_hex(s, (unsigned char*)out, (size_t)(size2 > 0 ? size2 : 0));
	free(raw); free(inp); free(out);
}

static void sc_errstr(SB* s, Toks* k) { sb_puts(s, sbdf_err_get_str((int)nxl(k))); }

/* va ENC OBJ : create, dump, stream round trip, skip */
static void sc_va(SB* s, Toks* k)
{
	sbdf_valuearray* va = (sbdf_valuearray*)(void*)1;
	sbdf_valuearray* rd = (sbdf_valuearray*)(void*)1;
	sbdf_object* o = 0;
	int enc = (int)nxl(k), err, st;
	size_t n;
	unsigned char* b;
	long live0 = vf_live;
	err = parse_obj(k, &o);
	if (err) { sb_printf(s, "obj=%d", err); sbdf_obj_destroy(o); return; }
	if (enc == 0) st = sbdf_va_create_dflt(o, &va);
	else st = sbdf_va_create(enc, o, &va);
	sb_printf(s, "create=%d", st);
	if (st)
	{
		if (va != (sbdf_valuearray*)(void*)1 && va != 0) sb_puts(s, "!OUTSET");
		sbdf_obj_destroy(o);
		sb_printf(s, " live=%ld", vf_live - live0);
		return;
	}
	/* the array must be independent of its source: scribble over and release the source */
	sbdf_obj_destroy(o);
	sb_puts(s, " ");
	dump_va(s, va);
	f_reset(g_f);
	st = sbdf_va_write(va, g_f);
	if (st)
	{
		sb_printf(s, " wr=%d", st);
		sbdf_va_destroy(va);
		sb_printf(s, " live=%ld", vf_live - live0);
		return;
	}
	b = f_slurp(g_f, &n);
	/* trailing garbage: readers must stop exactly where the writer stopped */
	if (g_pipe)
	{
		b = realloc(b, n + 8);
		memcpy(b + n, "\xde\xad\xbe\xef\x01\x02\x03\x04", 8);
		in_load(b, n + 8);
	}
	else
	{
		fseek(g_f, 0, SEEK_END);
		fwrite("\xde\xad\xbe\xef\x01\x02\x03\x04", 1, 8, g_f);
		fflush(g_f);
		rewind(g_f);
	}
	st = sbdf_va_read(g_f, &rd);
	sb_printf(s, " rd=%d", st);
	if (st == SBDF_OK) { sb_printf(s, "@%ld:", ftell(g_f)); dump_va(s, rd); sbdf_va_destroy(rd); }
	in_rewind();
	st = sbdf_va_skip(g_f);
	sb_printf(s, " sk=%d", st);
	if (st == SBDF_OK) sb_printf(s, "@%ld", ftell(g_f));
	sb_printf(s, " len=%lu", (unsigned long)n);
	free(b);
	sbdf_va_destroy(va);
	sb_printf(s, " live=%ld", vf_live - live0);
}

/* varead HEX : read a value array from arbitrary bytes, then skip it */
static void sc_varead(SB* s, Toks* k)
{
	int l, st;
	unsigned char* b = unhex(nx(k), &l);
	sbdf_valuearray* rd = (sbdf_valuearray*)(void*)1;
	long live0 = vf_live;
	in_load(b, (size_t)l);
	st = sbdf_va_read(g_f, &rd);
	sb_printf(s, "rd=%d", st);
	if (st == SBDF_OK) { sb_printf(s, "@%ld:", ftell(g_f)); dump_va(s, rd); sbdf_va_destroy(rd); }
	else if (rd != (sbdf_valuearray*)(void*)1 && rd != 0) sb_puts(s, "!OUTSET");
	in_rewind();
	st = sbdf_va_skip(g_f);
	sb_printf(s, " sk=%d", st);
	if (st == SBDF_OK) sb_printf(s, "@%ld", ftell(g_f));
	sb_printf(s, " live=%ld", vf_live - live0);
	free(b);
}

/* md history: registers r0..r7; ops separated by tokens */
static void sc_md(SB* s, Toks* k)
{
	sbdf_metadata_head* r[8];
	sbdf_tablemetadata* tms[8];
	int i, ntm = 0;
	long live0 = vf_live;
	memset(r, 0, sizeof r);
	while (has(k))
	{
		const char* op = nx(k);
		if (!strcmp(op, "new")) { int a = (int)nxl(k); sbdf_md_destroy(r[a]); r[a] = 0; sb_printf(s, "%d~", sbdf_md_create(&r[a])); }
		else if (!strcmp(op, "add"))
		{
			int a = (int)nxl(k), hasd, e1, e2 = 0, st;
			char* name = nxname(k);
			sbdf_object* v = 0;
			sbdf_object* d = 0;
			e1 = parse_obj(k, &v);
			hasd = (int)nxl(k);
			if (hasd) e2 = parse_obj(k, &d);
			st = e1 ? e1 : e2 ? e2 : sbdf_md_add(name, v, d, r[a]);
			/* inputs are copied: destroy them right away */
			sbdf_obj_destroy(v); sbdf_obj_destroy(d);
			memset(name, 'Z', strlen(name));
			free(name);
			sb_printf(s, "%d~", st);
		}
		else if (!strcmp(op, "addstr"))
		{
			int a = (int)nxl(k), hasd;
			char* name = nxname(k);
			char* v = nxname(k);
			char* d = 0;
			hasd = (int)nxl(k);
			if (hasd) d = nxname(k);
			sb_printf(s, "%d~", sbdf_md_add_str(name, v, d, r[a]));
			free(name); free(v); free(d);
		}
		else if (!strcmp(op, "addint"))
		{
			int a = (int)nxl(k);
			char* name = nxname(k);
			int v = (int)nxl(k), d = (int)nxl(k);
			sb_printf(s, "%d~", sbdf_md_add_int(name, v, d, r[a]));
			free(name);
		}
		else if (!strcmp(op, "rm")) { int a = (int)nxl(k); char* name = nxname(k); sb_printf(s, "%d~", sbdf_md_remove(name, r[a])); free(name); }
		else if (!strcmp(op, "get") || !strcmp(op, "getd"))
		{
			int a = (int)nxl(k), st;
			char* name = nxname(k);
			sbdf_object* o = (sbdf_object*)(void*)1;
			st = op[3] ? sbdf_md_get_dflt(name, r[a], &o) : sbdf_md_get(name, r[a], &o);
			sb_printf(s, "%d", st);
			if (st == SBDF_OK)
			{
				sb_puts(s, ":");
				dump_obj(s, o);
				/* the copy is independent: scribble and release it */
				if (o && !is_arr(o->type.id) && o->count > 0) memset(o->data, 0xee, 1);
				sbdf_obj_destroy(o);
			}
			else if (o != (sbdf_object*)(void*)1 && o != 0) sb_puts(s, "!OUTSET");
			sb_puts(s, "~");
			free(name);
		}
		else if (!strcmp(op, "ex")) { int a = (int)nxl(k); char* name = nxname(k); sb_printf(s, "%d~", sbdf_md_exists(name, r[a])); free(name); }
		else if (!strcmp(op, "cnt")) { int a = (int)nxl(k); sb_printf(s, "%d~", sbdf_md_cnt(r[a])); }
		else if (!strcmp(op, "copy")) { int a = (int)nxl(k), b = (int)nxl(k); sb_printf(s, "%d~", sbdf_md_copy(r[a], r[b])); }
		else if (!strcmp(op, "freeze")) { int a = (int)nxl(k); sb_printf(s, "%d~", sbdf_md_set_immutable(r[a])); }
		else if (!strcmp(op, "dump")) { int a = (int)nxl(k); dump_md(s, r[a]); sb_puts(s, "~"); }
		else if (!strcmp(op, "setcm")) { int a = (int)nxl(k); char* name = nxname(k); sbdf_valuetype vt; vt.id = (int)nxl(k); sb_printf(s, "%d~", sbdf_cm_set_values(name, vt, r[a])); free(name); }
		else if (!strcmp(op, "getcm"))
		{
			int a = (int)nxl(k), st;
			char* nm = 0;
			sbdf_valuetype vt;
			vt.id = -77;
			st = sbdf_cm_get_name(r[a], &nm);
			sb_printf(s, "n%d", st);
			if (st == SBDF_OK) { sb_puts(s, ":"); sb_hex(s, (unsigned char*)nm, (size_t)sbdf_str_len(nm)); sbdf_str_destroy(nm); }
			st = sbdf_cm_get_type(r[a], &vt);
			sb_printf(s, "t%d", st);
			if (st == SBDF_OK) sb_printf(s, ":%d", vt.id);
			sb_puts(s, "~");
		}
		else if (!strcmp(op, "tm"))
		{
			/* tm a b c.. end : sbdf_tm_create(r[a]) then sbdf_tm_add(r[b]).. ; dump (frozen copies) */
			int a = (int)nxl(k), st;
			sbdf_tablemetadata* tm = 0;
			st = sbdf_tm_create(r[a], &tm);
			sb_printf(s, "%d", st);
			for (;;)
			{
				const char* t = nx(k);
				if (!strcmp(t, "end")) break;
				if (st == SBDF_OK) { int st2 = sbdf_tm_add(r[atoi(t)], tm); sb_printf(s, ",%d", st2); }
			}
			if (st == SBDF_OK)
			{
				sb_puts(s, ":");
				dump_tm(s, tm, 0);
				/* held metadata is frozen: a mutator must fail and change nothing */
				sb_printf(s, ":%d", sbdf_md_remove("x", tm->table_metadata));
				if (ntm < 8) tms[ntm++] = tm; else sbdf_tm_destroy(tm);
			}
			sb_puts(s, "~");
		}
		else { fprintf(stderr, "harness: bad md op %s\n", op); exit(4); }
	}
	/* table metadata holds copies: the sources are released first, then the copies are dumped */
	for (i = 0; i < 8; ++i) sbdf_md_destroy(r[i]);
	for (i = 0; i < ntm; ++i) { sb_puts(s, "tms:"); dump_tm(s, tms[i], 0); sb_puts(s, "~"); sbdf_tm_destroy(tms[i]); }
	sb_printf(s, "live=%ld", vf_live - live0);
}

/* cs VASPEC n (name VASPEC){n} m : column slice history.  Every addition prints status/prop_cnt;
   then every name is looked up (identity of the returned array = index of the addition that
   supplied it); the slice is written; it is added m times to a table slice. */
static void sc_cs(SB* s, Toks* k)
{
	sbdf_valuearray* values = 0;
	sbdf_valuearray** arr = 0;
	char** names = 0;
	sbdf_columnslice* cs = 0;
	sbdf_tableslice* ts = 0;
	long live0 = vf_live;
	int st = parse_va(k, &values), n, i, m;
	size_t nb;
	unsigned char* b;
	sb_printf(s, "values=%d", st);
	n = (int)nxl(k);
	arr = calloc((size_t)n + 1, sizeof(void*));
	names = calloc((size_t)n + 1, sizeof(void*));
	if (!st) { st = sbdf_cs_create(&cs, values); sb_printf(s, " create=%d", st); }
	for (i = 0; i < n; ++i)
	{
		int e;
		names[i] = nxname(k);
		e = parse_va(k, &arr[i]);
		if (st) continue;
		if (e) { sb_printf(s, " a%d=va%d", i, e); continue; }
		e = sbdf_cs_add_property(cs, names[i], arr[i]);
		sb_printf(s, " a%d=%d/%d", i, e, cs->prop_cnt);
	}
	m = (int)nxl(k);
	if (!st)
	{
		sb_printf(s, " rows=%d", sbdf_cs_row_cnt(cs));
		for (i = 0; i < n; ++i)
		{
			sbdf_valuearray* got = (sbdf_valuearray*)(void*)1;
			int e = sbdf_cs_get_property(cs, names[i], &got), j;
			sb_printf(s, " g%d=%d", i, e);
			if (!e) { for (j = 0; j < n && arr[j] != got; ++j) {} sb_printf(s, "@%d", j); }
		}
		f_reset(g_f);
		st = sbdf_cs_write(g_f, cs);
		b = f_slurp(g_f, &nb);
		sb_printf(s, " w=%d:", st);
		sb_hexq(s, b, nb);
		free(b);
		if (!st)
		{
			/* the column-slice entry points themselves: sbdf_cs_read, sbdf_cs_skip, sbdf_cs_destroy_all */
			sbdf_columnslice* rcs = (sbdf_columnslice*)(void*)1;
			int e2;
			rewind(g_f);
			e2 = sbdf_cs_read(g_f, &rcs);
			sb_printf(s, " csr=%d", e2);
			if (!e2)
			{
				int j;
				sb_printf(s, "@%ld:%d:%d", ftell(g_f), sbdf_cs_row_cnt(rcs), rcs->prop_cnt);
				for (j = 0; j < rcs->prop_cnt; ++j)
				{
					sbdf_valuearray* pv = 0;
					sb_printf(s, ",%d", sbdf_cs_get_property(rcs, rcs->property_names[j], &pv));
					if (pv != rcs->properties[j]) sb_puts(s, "!WRONGPROP");
				}
				sbdf_cs_destroy_all(rcs);
			}
			else if (rcs != (sbdf_columnslice*)(void*)1 && rcs != 0) sb_puts(s, "!OUTSET");
			rewind(g_f);
			e2 = sbdf_cs_skip(g_f);
			sb_printf(s, " css=%d", e2);
			if (!e2) sb_printf(s, "@%ld", ftell(g_f));
		}
		st = sbdf_ts_create(0, &ts);
		sb_printf(s, " ts=%d", st);
		{
			int retried = 0;
			for (i = 0; i < m && !st; ++i)
			{
				st = sbdf_ts_add(cs, ts);
				if (st)
				{
					/* C14: a failed addition leaves the slice as it was (i columns, all valid) */
					int valid = ts->no_columns == i, j;
					for (j = 0; valid && j < i; ++j) valid = ts->columns[j] == cs;
					sb_printf(s, ":add=%d:n=%d:valid=%d", st, ts->no_columns, valid);
					if (valid && !retried) { retried = 1; st = 0; --i; }   /* the caller tries again */
				}
			}
		}
		if (!st)
		{
			int ok = ts->no_columns == m;
			for (i = 0; i < ts->no_columns; ++i) ok = ok && ts->columns[i] == cs;
			sb_printf(s, ":%d:%d", ts->no_columns, ok);
			f_reset(g_f);
			st = sbdf_ts_write(g_f, ts);
			b = f_slurp(g_f, &nb);
			sb_printf(s, " tsw=%d:", st);
			sb_hexq(s, b, nb);
			free(b);
		}
	}
	/* the slice owns none of the arrays: accepted and rejected ones are still the caller's */
	sbdf_ts_destroy(ts);
	sbdf_cs_destroy(cs);
	for (i = 0; i < n; ++i) { sbdf_va_destroy(arr[i]); free(names[i]); }
	sbdf_va_destroy(values);
	free(arr); free(names);
	sb_printf(s, " live=%ld", vf_live - live0);
}

/* rt TABLE : build, write, read back (full), dump; bytes */
static void sc_rt(SB* s, Toks* k, int rewrite)
{
	Built b;
	long live0 = vf_live;
	int st = parse_table(k, &b);
	size_t n;
	unsigned char* bytes;
	sb_printf(s, "build=%d", st);
	if (st == SBDF_OK)
	{
		sb_puts(s, " ");
		long fired0 = vf_fired;
		f_reset(g_f);
		st = write_table(s, &b, g_f);
		bytes = f_slurp(g_f, &n);
		sb_puts(s, " bytes=");
		sb_hexq(s, bytes, n);
		free(bytes);
		if (st != SBDF_OK && vf_fired != fired0)
		{
			/* C14: an allocation failed inside a writer; the objects built before are as they
			   were, so the same calls now succeed and give the fault-free bytes */
			SB t2;
			memset(&t2, 0, sizeof t2);
			f_reset(g_f);
			st = write_table(&t2, &b, g_f);
			bytes = f_slurp(g_f, &n);
			sb_printf(s, " retry=%d:", st);
			sb_hexq(s, bytes, n);
			free(bytes);
			free(t2.p);
			st = -1;   /* the read-back part is skipped, as in the failed run */
		}
		built_free(&b);
		if (st == SBDF_OK)
		{
			rewind(g_f);
			sb_puts(s, " | ");
			read_file(s, n, 0, 1, rewrite);
		}
	}
	else built_free(&b);
	sb_printf(s, " live=%ld", vf_live - live0);
}

/* fr HEX SUBSET : read arbitrary bytes as a file */
static void sc_fr(SB* s, Toks* k, int rewrite)
{
	int l;
	unsigned char* b = unhex(nx(k), &l);
	const char* subset = nx(k);
	long live0 = vf_live;
	in_load(b, (size_t)l);
	read_file(s, (size_t)l, subset, 1, rewrite);
	sb_printf(s, " live=%ld", vf_live - live0);
	free(b);
}

/* oarr OBJ : the object entry points themselves (C07/C02/C15): sbdf_obj_write_arr / _read_arr /
   _skip_arr on the packed form, sbdf_obj_write / _read / _skip on the unpacked form, and
   sbdf_obj_create for a single value */
static void sc_oarr(SB* s, Toks* k)
{
	sbdf_object* o = 0;
	sbdf_object* rd;
	long live0 = vf_live;
	int err, st, pass;
	size_t n;
	unsigned char* b;
	err = parse_obj(k, &o);
	if (err) { sb_printf(s, "obj=%d", err); sbdf_obj_destroy(o); return; }
	for (pass = 0; pass < 2; ++pass)
	{
		/* pass 0: packed array form, pass 1: unpacked form */
		f_reset(g_f);
		st = pass ? sbdf_obj_write(o, g_f) : sbdf_obj_write_arr(o, g_f);
		sb_printf(s, "%sw%c=%d", pass ? " " : "", pass ? 'u' : 'a', st);
		if (st) continue;
		b = f_slurp(g_f, &n);
		sb_puts(s, ":");
		sb_hexq(s, b, n);
		free(b);
		fseek(g_f, 0, SEEK_END);
		fwrite("\xde\xad\xbe\xef", 1, 4, g_f);
		fflush(g_f);
		rewind(g_f);
		rd = (sbdf_object*)(void*)1;
		st = pass ? sbdf_obj_read(g_f, o->type, &rd) : sbdf_obj_read_arr(g_f, o->type, &rd);
		sb_printf(s, " r%c=%d", pass ? 'u' : 'a', st);
		if (!st)
		{
			sb_printf(s, "@%ld:", ftell(g_f));
			dump_obj(s, rd);
			sb_printf(s, ":eq=%d", sbdf_obj_eq(o, rd));
			sbdf_obj_destroy(rd);
		}
		else if (rd != (sbdf_object*)(void*)1 && rd != 0) sb_puts(s, "!OUTSET");
		rewind(g_f);
		st = pass ? sbdf_obj_skip(g_f, o->type) : sbdf_obj_skip_arr(g_f, o->type);
		sb_printf(s, " s%c=%d", pass ? 'u' : 'a', st);
		if (!st) sb_printf(s, "@%ld", ftell(g_f));
	}
	if (o->count == 1)
	{
		/* the single-value constructor on the same data gives an equal, independent object */
		sbdf_object* single = (sbdf_object*)(void*)1;
		if (is_arr(o->type.id))
		{
			unsigned char* e = ((unsigned char**)o->data)[0];
			int l = o->type.id == SBDF_STRINGTYPEID ? sbdf_str_len((char*)e) : sbdf_ba_get_len(e);
			void const* ptrs[1];
			ptrs[0] = e;
			st = sbdf_obj_create(o->type, ptrs, &l, &single);
		}
		else st = sbdf_obj_create(o->type, o->data, 0, &single);
		sb_printf(s, " one=%d", st);
		if (!st) { sb_puts(s, ":"); dump_obj(s, single); sb_printf(s, ":eq=%d", sbdf_obj_eq(o, single)); sbdf_obj_destroy(single); }
	}
	sbdf_obj_destroy(o);
	sb_printf(s, " live=%ld", vf_live - live0);
}

/* radd HEX K : appending to what the READERS returned (C11/C10): K columns added to the table
   metadata read from the stream (sbdf_tm_add) and written back; on the first slice, K properties
   added to its first column slice (sbdf_cs_add_property) and K new column slices appended
   (sbdf_ts_add), then the slice is written.  Reader-built slices own what is added to them. */
static void sc_radd(SB* s, Toks* k)
{
	int l, maj = -1, min = -1, st, i, K, nmine = 0;
	unsigned char* b = unhex(nx(k), &l);
	sbdf_tablemetadata* tm = 0;
	sbdf_tableslice* ts = 0;
	sbdf_valuearray* mine[64];
	long live0;
	size_t n;
	unsigned char* bytes;
	K = (int)nxl(k);
	if (K > 64) K = 64;
	live0 = vf_live;
	f_load(g_f, b, (size_t)l);
	st = sbdf_fh_read(g_f, &maj, &min);
	sb_printf(s, "fh=%d", st);
	if (!st) { st = sbdf_tm_read(g_f, &tm); sb_printf(s, " tm=%d", st); if (st) tm = 0; }
	if (!st)
	{
		st = sbdf_ts_read(g_f, tm, 0, &ts);
		sb_printf(s, " ts=%d", st);
		if (st) ts = 0;
		{
			/* a new table-metadata object made from the pieces the reader returned */
			sbdf_tablemetadata* t2 = 0;
			int e = sbdf_tm_create(tm->table_metadata, &t2);
			sb_printf(s, " cp=%d", e);
			for (i = 0; !e && i < tm->no_columns; ++i) e = sbdf_tm_add(tm->column_metadata[i], t2);
			if (t2)
			{
				sb_printf(s, ",%d:%d", e, t2->no_columns);
				f_reset(g_w);
				e = sbdf_tm_write(g_w, t2);
				bytes = f_slurp(g_w, &n);
				sb_printf(s, " cpw=%d:", e);
				sb_hexq(s, bytes, n);
				free(bytes);
				sbdf_tm_destroy(t2);
			}
		}
		sb_puts(s, " tmadd=");
		for (i = 0; i < K; ++i)
		{
			sbdf_metadata_head* cm = 0;
			char name[16];
			sbdf_valuetype vt;
			int e;
			vt.id = SBDF_INTTYPEID;
			sprintf(name, "x%d", i);
			e = sbdf_md_create(&cm);
			if (!e) e = sbdf_cm_set_values(name, vt, cm);
			if (!e) e = sbdf_tm_add(cm, tm);
			sb_printf(s, "%s%d", i ? "," : "", e);
			sbdf_md_destroy(cm);
		}
		sb_printf(s, ":%d", tm->no_columns);
		f_reset(g_w);
		st = sbdf_tm_write(g_w, tm);
		bytes = f_slurp(g_w, &n);
		sb_printf(s, " tmw=%d:", st);
		sb_hexq(s, bytes, n);
		free(bytes);
		if (ts && ts->no_columns > 0 && ts->columns[0])
		{
			sbdf_columnslice* c0 = ts->columns[0];
			int rows = sbdf_cs_row_cnt(c0);
			sb_puts(s, " padd=");
			for (i = 0; i < K; ++i)
			{
				char name[16];
				sbdf_valuetype vt;
				sbdf_object* o = 0;
				sbdf_valuearray* va = 0;
				unsigned char* zeros = calloc((size_t)(rows > 0 ? rows : 1), 4);
				int e;
				vt.id = SBDF_INTTYPEID;
				sprintf(name, "q%d", i);
				e = sbdf_obj_create_arr(vt, rows, zeros, 0, &o);
				if (!e) e = sbdf_va_create_plain(o, &va);
				if (!e) { e = sbdf_cs_add_property(c0, name, va); if (e) sbdf_va_destroy(va); }
				sb_printf(s, "%s%d", i ? "," : "", e);
				sbdf_obj_destroy(o);
				free(zeros);
			}
			sb_printf(s, ":%d", c0->prop_cnt);
		}
		if (ts)
		{
			sb_puts(s, " cadd=");
			for (i = 0; i < K; ++i)
			{
				sbdf_valuetype vt;
				sbdf_object* o = 0;
				sbdf_valuearray* va = 0;
				sbdf_columnslice* cs = 0;
				unsigned char one[4] = { 7, 0, 0, 0 };
				int e;
				vt.id = SBDF_INTTYPEID;
				one[1] = (unsigned char)i;
				e = sbdf_obj_create_arr(vt, 1, one, 0, &o);
				if (!e) e = sbdf_va_create_plain(o, &va);
				if (!e) { e = sbdf_cs_create(&cs, va); if (e) sbdf_va_destroy(va); }
				if (!e) { e = sbdf_ts_add(cs, ts); if (e) sbdf_cs_destroy_all(cs); else mine[nmine++] = va; }
				sb_printf(s, "%s%d", i ? "," : "", e);
				sbdf_obj_destroy(o);
			}
			sb_printf(s, ":%d", ts->no_columns);
			f_reset(g_w);
			st = sbdf_ts_write(g_w, ts);
			bytes = f_slurp(g_w, &n);
			sb_printf(s, " tsw=%d:", st);
			sb_hexq(s, bytes, n);
			free(bytes);
		}
	}
	if (ts) sbdf_ts_destroy(ts);
	/* the caller-built column slices added above were released as frames only: their values are ours */
	for (i = 0; i < nmine; ++i) sbdf_va_destroy(mine[i]);
	if (tm) sbdf_tm_destroy(tm);
	sb_printf(s, " live=%ld", vf_live - live0);
	free(b);
}

/* fsk HEX : header, table metadata, then sbdf_ts_skip until a non-OK status (C07) */
static void sc_fsk(SB* s, Toks* k)
{
	int l, maj = -1, min = -1, st, ncalls = 0, posok = 0;
	unsigned char* b = unhex(nx(k), &l);
	sbdf_tablemetadata* tm = 0;
	long live0 = vf_live;
	in_load(b, (size_t)l);
	st = sbdf_fh_read(g_f, &maj, &min);
	sb_printf(s, "fh=%d", st);
	if (!st)
	{
		sb_printf(s, ":%d.%d", maj, min);
		st = sbdf_tm_read(g_f, &tm);
		sb_printf(s, " tm=%d", st);
		if (st) tm = 0;
	}
	if (!st)
	{
		for (;;)
		{
			if (ncalls++ >= l + 8) { sb_puts(s, " ts=FUEL"); posok = 1; break; }
			st = sbdf_ts_skip(g_f, tm);
			sb_printf(s, " ts=%d", st);
			if (st) { posok = st == SBDF_TABLEEND; break; }
		}
	}
	if (posok) sb_printf(s, " pos=%ld", ftell(g_f));
	else sb_puts(s, " pos=-");
	if (tm) sbdf_tm_destroy(tm);
	sb_printf(s, " live=%ld", vf_live - live0);
	free(b);
}

/* oskip TID HEX : sbdf_obj_read and sbdf_obj_skip of one unpacked object of type TID (C07) */
static void sc_oskip(SB* s, Toks* k)
{
	int l, st;
	sbdf_valuetype vt;
	sbdf_object* o = (sbdf_object*)(void*)1;
	unsigned char* b;
	long live0 = vf_live;
	vt.id = (int)nxl(k);
	b = unhex(nx(k), &l);
	in_load(b, (size_t)l);
	st = sbdf_obj_read(g_f, vt, &o);
	sb_printf(s, "rd=%d", st);
	if (st == SBDF_OK) { sb_printf(s, "@%ld:", ftell(g_f)); dump_obj(s, o); sbdf_obj_destroy(o); }
	else if (o != (sbdf_object*)(void*)1 && o != 0) sb_puts(s, "!OUTSET");
	in_rewind();
	st = sbdf_obj_skip(g_f, vt);
	sb_printf(s, " sk=%d", st);
	if (st == SBDF_OK) sb_printf(s, "@%ld", ftell(g_f));
	sb_printf(s, " live=%ld", vf_live - live0);
	free(b);
}

/* fw BUDGET TABLE : the stream accepts BUDGET bytes then refuses; every call is still made */
static void sc_fw(SB* s, Toks* k)
{
	Built b;
	long budget = nxl(k);
	long live0 = vf_live;
	int st = parse_table(k, &b), i;
	size_t n;
	unsigned char* bytes;
	sb_printf(s, "build=%d", st);
	if (st == SBDF_OK)
	{
		f_reset(g_f);
		vf_write_budget = budget;
		/* unlike write_table: keep calling after a failure (later writes must fail too) */
		sb_printf(s, " fh=%d", sbdf_fh_write_cur(g_f));
		sb_printf(s, " tm=%d", sbdf_tm_write(g_f, b.tm));
		sb_puts(s, " ts=");
		for (i = 0; i < b.nts; ++i) sb_printf(s, "%s%d", i ? "," : "", sbdf_ts_write(g_f, b.ts[i]));
		sb_printf(s, " end=%d", sbdf_ts_write_end(g_f));
		vf_write_budget = -1;
		bytes = f_slurp(g_f, &n);
		sb_puts(s, " bytes=");
		sb_hexq(s, bytes, n);
		free(bytes);
		/* the objects are as they were: the same calls on a stream that accepts everything */
		f_reset(g_f);
		sb_printf(s, " again:fh=%d", sbdf_fh_write_cur(g_f));
		sb_printf(s, " tm=%d", sbdf_tm_write(g_f, b.tm));
		sb_puts(s, " ts=");
		for (i = 0; i < b.nts; ++i) sb_printf(s, "%s%d", i ? "," : "", sbdf_ts_write(g_f, b.ts[i]));
		sb_printf(s, " end=%d", sbdf_ts_write_end(g_f));
		bytes = f_slurp(g_f, &n);
		sb_puts(s, " bytes=");
		sb_hexq(s, bytes, n);
		free(bytes);
	}
	built_free(&b);
	sb_printf(s, " live=%ld", vf_live - live0);
}

/* ------------------------------------------------------------------ main loop */
static void process_line(char* line, SB* s)
{
	Toks k;
	char* p;
	char* save = 0;
	const char* kind;
	int ntok = 0, captok = 64;
	size_t len = strlen(line);
	while (len > 0 && (line[len - 1] == '\n' || line[len - 1] == '\r')) line[--len] = 0;
	if (!g_f)
	{
		g_f = g_ftmp = tmpfile();
		g_w = tmpfile();
		if (!g_f || !g_w) { perror("tmpfile"); exit(5); }
	}
	k.t = malloc(sizeof(char*) * (size_t)captok);
	for (p = strtok_r(line, " ", &save); p; p = strtok_r(0, " ", &save))
	{
		if (ntok == captok) { captok *= 2; k.t = realloc(k.t, sizeof(char*) * (size_t)captok); }
		k.t[ntok++] = p;
	}
	k.n = ntok; k.i = 0;
	s->n = 0;
	sb_puts(s, "");
	g_full = 0;
	if (ntok == 0) { free(k.t); return; }
	kind = nx(&k);
	/* optional prefixes */
	long fa = -2, allocs0 = vf_allocs, fired0 = vf_fired;
	g_pipe = 0;
	while (!strncmp(kind, "cap=", 4) || !strcmp(kind, "full") || !strncmp(kind, "fa=", 3) || !strncmp(kind, "pipe=", 5))
	{
		if (kind[0] == 'p') g_pipe = atoi(kind + 5);
		else if (kind[0] == 'c') vf_cap = (size_t)strtoul(kind + 4, 0, 10);
		else if (kind[1] == 'a') { fa = strtol(kind + 3, 0, 10); vf_fail_at = fa >= 0 ? vf_allocs + fa : -1; }
		else g_full = 1;
		kind = nx(&k);
	}
	if (!strcmp(kind, "c16")) sc_c16(s, &k);
	else if (!strcmp(kind, "c16d")) sc_c16d(s, &k);
	else if (!strcmp(kind, "r7")) sc_r7(s, &k);
	else if (!strcmp(kind, "strcmp")) sc_strcmp(s, &k);
	else if (!strcmp(kind, "strmk")) sc_strmk(s, &k);
	else if (!strcmp(kind, "objeq")) sc_objeq(s, &k);
	else if (!strcmp(kind, "u2i")) sc_conv(s, &k, 1);
	else if (!strcmp(kind, "i2u")) sc_conv(s, &k, 0);
	else if (!strcmp(kind, "errstr")) sc_errstr(s, &k);
	else if (!strcmp(kind, "va")) sc_va(s, &k);
	else if (!strcmp(kind, "varead")) sc_varead(s, &k);
	else if (!strcmp(kind, "md")) sc_md(s, &k);
	else if (!strcmp(kind, "rt")) sc_rt(s, &k, 0);
	else if (!strcmp(kind, "rtw")) sc_rt(s, &k, 1);
	else if (!strcmp(kind, "rtd")) sc_rt(s, &k, 2);
	else if (!strcmp(kind, "cs")) sc_cs(s, &k);
	else if (!strcmp(kind, "oarr")) sc_oarr(s, &k);
	else if (!strcmp(kind, "radd")) sc_radd(s, &k);
	else if (!strcmp(kind, "fsk")) sc_fsk(s, &k);
	else if (!strcmp(kind, "oskip")) sc_oskip(s, &k);
	else if (!strcmp(kind, "fr")) sc_fr(s, &k, 0);
	else if (!strcmp(kind, "frw")) sc_fr(s, &k, 1);
	else if (!strcmp(kind, "fw")) sc_fw(s, &k);
	else { fprintf(stderr, "harness: unknown scenario %s\n", kind); exit(4); }
	if (g_f != g_ftmp) { fclose(g_f); g_f = g_ftmp; }
	g_pipe = 0;
	if (fa != -2)
	{
		/* allocation-fault mode: how many allocation calls the scenario made, whether the fault fired */
		sb_printf(s, " allocs=%ld fired=%ld", vf_allocs - allocs0, vf_fired - fired0);
		vf_fail_at = -1;
	}
	free(k.t);
}

/* --threads K : all lines are read first, thread t runs lines t, t+K, ... concurrently on its
   own streams and objects; outputs are printed in input order */
#include <pthread.h>
typedef struct { char** lines; char** outs; int n, k, t; } Job;
static void* worker(void* a)
{
	Job* j = a;
	SB s = {0, 0, 0};
	int i;
	for (i = j->t; i < j->n; i += j->k)
	{
		process_line(j->lines[i], &s);
		j->outs[i] = strdup(s.p ? s.p : "");
	}
	free(s.p);
	return 0;
}

int main(int argc, char** argv)
{
	char* line = 0;
	size_t cap = 0;
	ssize_t len;
	SB s = {0, 0, 0};
	int nthreads = 0;
	if (argc >= 3 && !strcmp(argv[1], "--threads")) nthreads = atoi(argv[2]);
	if (nthreads > 0)
	{
		char** lines = 0;
		char** outs;
		int n = 0, i;
		pthread_t th[64];
		Job jobs[64];
		if (nthreads > 64) nthreads = 64;
		while ((len = getline(&line, &cap, stdin)) > 0)
		{
			lines = realloc(lines, sizeof(char*) * (size_t)(n + 1));
			lines[n++] = strdup(line);
		}
		outs = calloc((size_t)n + 1, sizeof(char*));
		for (i = 0; i < nthreads; ++i)
		{
			jobs[i].lines = lines; jobs[i].outs = outs; jobs[i].n = n; jobs[i].k = nthreads; jobs[i].t = i;
			pthread_create(&th[i], 0, worker, &jobs[i]);
		}
		for (i = 0; i < nthreads; ++i) pthread_join(th[i], 0);
		for (i = 0; i < n; ++i) { puts(outs[i] ? outs[i] : ""); free(outs[i]); free(lines[i]); }
		free(outs); free(lines); free(line);
		return 0;
	}
	while ((len = getline(&line, &cap, stdin)) > 0)
	{
		vf_cap = 16777216;
		process_line(line, &s);
		puts(s.p ? s.p : "");
		fflush(stdout);
	}
	free(line);
	free(s.p);
	return 0;
}
