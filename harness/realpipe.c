/* realpipe FILE... : every file is fed through a REAL pipe (a forked writer, 1000-byte writes) and
   read with the skip paths — sbdf_ts_skip slice by slice, and sbdf_ts_read with a column subset that
   selects the first column only — and, for comparison, skipped from the regular file.  One line
   per file: SAME / DIFF, the number of OK calls and the last status of each run.  (C07: skipping
   a well-formed stream must not depend on the stream being seekable; repair F25.) */
#define _GNU_SOURCE
#include <stdio.h>
#include <stdlib.h>
#include <string.h>
#include <unistd.h>
#include <sys/wait.h>
#include "all.h"
#include "all_io.h"

int main(int argc, char** argv)
{
	int a, bad = 0;
	for (a = 1; a < argc; ++a)
	{
		FILE* in = fopen(argv[a], "rb");
		long n;
		unsigned char* b;
		int res[3][2], mode;
		if (!in) { printf("DIFF cannot open %s\n", argv[a]); bad = 1; continue; }
		fseek(in, 0, SEEK_END); n = ftell(in); rewind(in);
		b = malloc((size_t)n + 1);
		if (fread(b, 1, (size_t)n, in) != (size_t)n) { printf("DIFF cannot read %s\n", argv[a]); bad = 1; }
		fclose(in);
		for (mode = 0; mode < 3; ++mode)
		{
			FILE* f;
			pid_t pid = 0;
			int maj, min, st, cnt = 0, calls = 0;
			sbdf_tablemetadata* tm = 0;
			if (mode == 2) f = fopen(argv[a], "rb");
			else
			{
				int fd[2];
				if (pipe(fd)) { perror("pipe"); return 5; }
				fflush(stdout);
				pid = fork();
				if (!pid)
				{
					long off = 0;
					close(fd[0]);
					while (off < n)
					{
						ssize_t k = write(fd[1], b + off, (size_t)((n - off) > 1000 ? 1000 : n - off));
						if (k <= 0) break;
						off += k;
					}
					close(fd[1]);
					_exit(0);
				}
				close(fd[1]);
				f = fdopen(fd[0], "rb");
			}
			st = sbdf_fh_read(f, &maj, &min);
			if (!st) st = sbdf_tm_read(f, &tm);
			while (!st && calls++ < n + 8)
			{
				if (mode != 1) st = sbdf_ts_skip(f, tm);
				else
				{
					sbdf_tableslice* ts = 0;
					char* sub = calloc((size_t)tm->no_columns + 1, 1);
					if (tm->no_columns) sub[0] = 1;
					st = sbdf_ts_read(f, tm, sub, &ts);
					free(sub);
					if (!st) sbdf_ts_destroy(ts);
				}
				if (!st) ++cnt;
			}
			res[mode][0] = cnt; res[mode][1] = st;
			if (tm) sbdf_tm_destroy(tm);
			fclose(f);
			if (pid) waitpid(pid, 0, 0);
		}
		free(b);
		{
			int ok = res[0][0] == res[2][0] && res[1][0] == res[2][0] && res[0][1] == res[2][1] && res[1][1] == res[2][1];
			printf("%s pipe-skip=%d/%d pipe-subset=%d/%d file-skip=%d/%d %s\n", ok ? "SAME" : "DIFF",
				res[0][0], res[0][1], res[1][0], res[1][1], res[2][0], res[2][1], argv[a]);
			if (!ok) bad = 1;
		}
	}
	return bad;
}
