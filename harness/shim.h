#ifndef VF_SHIM_H
#define VF_SHIM_H
#include <stddef.h>
#include <stdio.h>
extern long vf_live, vf_allocs, vf_fail_at, vf_fired, vf_cap_refusals, vf_write_budget, vf_write_fired;
extern size_t vf_cap;
void* vf_malloc(size_t);
void* vf_calloc(size_t, size_t);
void* vf_realloc(void*, size_t);
void vf_free(void*);
size_t vf_fwrite(const void*, size_t, size_t, FILE*);
#endif
