/* Allocation and fwrite shims.  The library sources are compiled with
   -Dmalloc=vf_malloc -Dcalloc=vf_calloc -Drealloc=vf_realloc -Dfree=vf_free -Dfwrite=vf_fwrite
   (from /verif, on the compiler command line; nothing in the repository is changed).
   This file is compiled WITHOUT those defines. */
#include <stdio.h>
#include <stdlib.h>
#include <string.h>
#include "shim.h"

long vf_live = 0;          /* live blocks handed to the library */
long vf_allocs = 0;        /* allocation calls since vf_reset_count() */
long vf_fail_at = -1;      /* fail the k-th allocation call (0-based), once; -1 = never */
long vf_fired = 0;         /* how many injected failures fired */
size_t vf_cap = 16777216;  /* single requests above this are refused */
long vf_cap_refusals = 0;
long vf_write_budget = -1; /* bytes the stream still accepts; -1 = unlimited */
long vf_write_fired = 0;

static int should_fail(size_t n)
{
	long k = vf_allocs++;
	if (k == vf_fail_at)
	{
		vf_fail_at = -1;
		++vf_fired;
		return 1;
	}
	if (n > vf_cap)
	{
		++vf_cap_refusals;
		return 1;
	}
	return 0;
}

void* vf_malloc(size_t n)
{
	void* p;
	if (should_fail(n)) return 0;
	p = malloc(n);
	if (p) ++vf_live;
	return p;
}

void* vf_calloc(size_t a, size_t b)
{
	void* p;
	size_t n;
	if (b && a > (size_t)-1 / b)
	{
		++vf_allocs;
		++vf_cap_refusals;
		return 0;
	}
	n = a * b;
	if (should_fail(n)) return 0;
	p = calloc(a, b);
	if (p) ++vf_live;
	return p;
}

void* vf_realloc(void* q, size_t n)
{
	void* p;
	if (should_fail(n)) return 0;
	p = realloc(q, n);
	if (p && !q) ++vf_live;
	return p;
}

void vf_free(void* p)
{
	if (p) --vf_live;
	free(p);
}

size_t vf_fwrite(const void* ptr, size_t size, size_t nmemb, FILE* f)
{
	size_t total = size * nmemb;
	if (vf_write_budget < 0 || total == 0)
	{
		return fwrite(ptr, size, nmemb, f);
	}
	if ((size_t)vf_write_budget >= total)
	{
		vf_write_budget -= (long)total;
		return fwrite(ptr, size, nmemb, f);
	}
	else
	{
		/* the stream starts refusing bytes inside this call: accept what fits */
		size_t part = (size_t)vf_write_budget;
		++vf_write_fired;
		if (part) fwrite(ptr, 1, part, f);
		vf_write_budget = 0;
		return size ? part / size : 0;
	}
}
