"""Common machinery for the checks: builds, driver runs, comparison, evidence, reporting."""
import fcntl
import hashlib
import json
import os
import re
import subprocess
import sys
import time
from concurrent.futures import ThreadPoolExecutor

ROOT = os.path.dirname(os.path.dirname(os.path.abspath(__file__)))
REPO = os.environ.get("SBDF_REPO", "/repo")
LEAN = os.path.join(ROOT, "lean")
CACHE = os.path.join(ROOT, ".cache")
EVID = os.environ.get("VERIF_EVIDENCE_DIR") or os.path.join(ROOT, "evidence")   # seed/mutant runs redirect this
REPLAY = os.path.join(ROOT, ".cache", "replay")
NCPU = min(16, os.cpu_count() or 4)

ENV = dict(os.environ)
ENV["ASAN_OPTIONS"] = "allocator_may_return_null=1:detect_leaks=0:abort_on_error=0:symbolize=1"
ENV["UBSAN_OPTIONS"] = "print_stacktrace=1:halt_on_error=1"
ENV["TSAN_OPTIONS"] = "halt_on_error=0:report_signal_unsafe=0"


def log(*a):
    print(*a, file=sys.stderr, flush=True)


def sh(cmd, **kw):
    return subprocess.run(cmd, stdout=subprocess.PIPE, stderr=subprocess.PIPE, text=True, **kw)


def clean(s):
    return "\n".join(l for l in s.splitlines() if "conda.cli.condarc" not in l)


# ----------------------------------------------------------------------------- builds

def repo_fingerprint(extra=""):
    h = hashlib.sha256()
    for d in ("src", "include"):
        p = os.path.join(REPO, d)
        for fn in sorted(os.listdir(p)):
            with open(os.path.join(p, fn), "rb") as f:
                h.update(fn.encode())
                h.update(f.read())
    for fn in sorted(os.listdir(os.path.join(ROOT, "harness"))):
        with open(os.path.join(ROOT, "harness", fn), "rb") as f:
            h.update(fn.encode())
            h.update(f.read())
    h.update(extra.encode())
    return h.hexdigest()[:16]


class Lock:
    def __init__(self, name):
        os.makedirs(CACHE, exist_ok=True)
        self.path = os.path.join(CACHE, name + ".lock")

    def __enter__(self):
        self.f = open(self.path, "w")
        fcntl.flock(self.f, fcntl.LOCK_EX)
        return self

    def __exit__(self, *a):
        fcntl.flock(self.f, fcntl.LOCK_UN)
        self.f.close()


def build_harness(variant, main="drv.c"):
    """Compile /repo/src/*.c (current working tree) + harness into .cache/<variant>-<hash>/drv."""
    fp = repo_fingerprint(variant + main)
    out = os.path.join(CACHE, "h-%s-%s" % (variant, fp))
    exe = os.path.join(out, "drv")
    with Lock("harness-" + variant):
        if os.path.exists(exe):
            return exe
        # drop stale builds of this variant
        if os.path.isdir(CACHE):
            for d in os.listdir(CACHE):
                if d.startswith("h-%s-" % variant) and d != os.path.basename(out):
                    subprocess.run(["rm", "-rf", os.path.join(CACHE, d)])
        env = dict(ENV)
        env["SBDF_REPO"] = REPO
        env["HARNESS_MAIN"] = main
        r = sh([os.path.join(ROOT, "harness", "build.sh"), variant, out], env=env)
        if r.returncode != 0 or not os.path.exists(exe):
            raise BuildError("harness build (%s) failed:\n%s" % (variant, clean(r.stderr)[-4000:]))
    return exe


class BuildError(Exception):
    pass


def lake_build(targets=("Sbdf", "sbdf_drv")):
    """Incremental `lake build`; returns (ok, output)."""
    with Lock("lake"):
        r = sh(["lake", "build"] + list(targets), cwd=LEAN)
    out = clean(r.stdout + r.stderr)
    return r.returncode == 0, out


def model_exe():
    return os.path.join(LEAN, ".lake", "build", "bin", "sbdf_drv")


# ----------------------------------------------------------------------------- running drivers

def _run_chunk(exe, lines, args=(), timeout=600):
    """Run a driver over lines; survive crashes: a crashed line yields 'CRASH <summary>'."""
    outs = []
    i = 0
    n = len(lines)
    while i < n:
        inp = "\n".join(lines[i:]) + "\n"
        try:
            r = subprocess.run([exe] + list(args), input=inp, stdout=subprocess.PIPE,
                               stderr=subprocess.PIPE, text=True, env=ENV, timeout=timeout)
            got = r.stdout.split("\n")
            if got and got[-1] == "":
                got.pop()
            err = r.stderr
            rc = r.returncode
        except subprocess.TimeoutExpired as e:
            got = (e.stdout or b"").decode(errors="replace").split("\n") if isinstance(e.stdout, bytes) else (e.stdout or "").split("\n")
            if got and got[-1] == "":
                got.pop()
            # last line may be partial
            err = "TIMEOUT"
            rc = -99
        if len(got) >= n - i and rc == 0:
            outs.extend(got[: n - i])
            break
        # crashed (or timed out) on line i+len(got)
        k = len(got)
        if k > n - i:
            k = n - i
        outs.extend(got[:k])
        if i + k >= n:
            break
        outs.append("CRASH " + crash_summary(err, rc))
        i = i + k + 1
    return outs


def crash_summary(err, rc):
    err = clean(err)
    m = re.search(r"SUMMARY: (.*)", err)
    if m:
        return "rc=%d %s" % (rc, m.group(1).strip())
    m = re.search(r"runtime error: (.*)", err)
    if m:
        return "rc=%d UBSan %s" % (rc, m.group(1).strip())
    if err.strip() == "TIMEOUT":
        return "rc=%d TIMEOUT" % rc
    tail = err.strip().splitlines()[-1:] or [""]
    return "rc=%d %s" % (rc, tail[0][:200])


def run_driver(exe, lines, args=(), jobs=NCPU, timeout=900):
    if not lines:
        return []
    rec = os.environ.get("VERIF_RECORD")
    if rec and os.path.basename(exe) == "drv" and not args:
        # tools/coverage.py: remember every scenario given to the implementation
        with Lock("record"):
            with open(rec, "a") as f:
                f.write("\n".join(lines) + "\n")
    jobs = max(1, min(jobs, (len(lines) + 7) // 8))
    size = (len(lines) + jobs - 1) // jobs
    chunks = [lines[i:i + size] for i in range(0, len(lines), size)]
    with ThreadPoolExecutor(max_workers=jobs) as ex:
        res = list(ex.map(lambda c: _run_chunk(exe, c, args, timeout), chunks))
    out = []
    for r in res:
        out.extend(r)
    return out


# ----------------------------------------------------------------------------- fnv / squash (same as both drivers)

def fnv64(b):
    h = 1469598103934665603
    for x in b:
        h ^= x
        h = (h * 1099511628211) & 0xFFFFFFFFFFFFFFFF
    return h


def squash(s, lim, full=False):
    if len(s) > lim and not full:
        return "#%d:%016x" % (len(s), fnv64(s.encode()))
    return s


def hexs(b):
    return b.hex() if len(b) else "-"


# ----------------------------------------------------------------------------- known findings

def load_known():
    p = os.path.join(ROOT, "known_findings.json")
    if not os.path.exists(p):
        return []
    return json.load(open(p)).get("findings", [])


# ----------------------------------------------------------------------------- result / evidence

class Result:
    def __init__(self, pid, tier, seed, level):
        self.pid = pid
        self.tier = tier
        self.seed = seed
        self.level = level
        self.t0 = time.time()
        self.violations = []      # (replay_path, with_input: bool, text)
        self.known = []
        self.cov = {"evaluations": 0, "distinct_nontrivial": 0, "rule": "", "samples": []}
        self.assumptions = []
        self.notes = []

    def add_cases(self, lines, nontrivial=lambda l: True, rule=None, sample=3):
        seen = set()
        nt = 0
        for l in lines:
            hsh = hashlib.md5(l.encode()).digest()
            if hsh in seen:
                continue
            seen.add(hsh)
            if nontrivial(l):
                nt += 1
        self.cov["evaluations"] += len(lines)
        self.cov["distinct_nontrivial"] += nt
        if rule:
            self.cov["rule"] = (self.cov["rule"] + " | " if self.cov["rule"] else "") + rule
        for l in lines[:sample]:
            self.cov["samples"].append(l if len(l) < 600 else l[:600] + "...")

    def violation(self, text, script_lines=None, found_input=True, extra=None):
        os.makedirs(REPLAY, exist_ok=True)
        k = len(self.violations)
        path = os.path.join(REPLAY, "%s-%s-%d-%d.txt" % (self.pid, self.tier, self.seed, k))
        with open(path, "w") as f:
            f.write("# property %s\n# %s\n" % (self.pid, text.replace("\n", "\n# ")))
            if extra:
                for e in extra:
                    f.write("# " + e.replace("\n", "\n# ") + "\n")
            if script_lines:
                for l in script_lines:
                    f.write(l + "\n")
        self.violations.append((path, found_input, text))

    def finish(self):
        os.makedirs(EVID, exist_ok=True)
        ev = {
            "property_id": self.pid,
            "tier": self.tier,
            "seed": self.seed,
            "level": self.level,
            "coverage": self.cov,
            "assumptions": self.assumptions,
            "wall_s": round(time.time() - self.t0, 2),
            "violations": len(self.violations),
        }
        if not self.cov.get("samples"):
            self.cov["samples"] = ["(none)"]
        if self.notes:
            self.cov["notes"] = self.notes
        with open(os.path.join(EVID, self.pid + ".json"), "w") as f:
            json.dump(ev, f, indent=1)
        for k in self.known:
            print("KNOWN-FINDING: property=%s %s" % (self.pid, k))
        for path, found, text in self.violations[:5]:
            log("violation: " + text[:2000])
            if found:
                print("VIOLATION property=%s replay=%s" % (self.pid, path))
            else:
                print("VIOLATION property=%s replay=%s no-failing-input-found" % (self.pid, path))
        sys.stdout.flush()
        return 1 if self.violations else 0
