"""What MANIFEST.json claims, per property."""
HOOK_COMMITS = []
NOTE = ("Trusted: Lean 4.33 kernel (propext, Classical.choice, Quot.sound only); the hand-written model is tied to "
        "/repo/src by the sampled correspondence (harness vs compiled model, rebuilt from the working tree each run), "
        "not by proof; libc/FILE semantics, 32-bit int, LE host assumed.")
CHECKS = {
    "C16": dict(category="proof", design_ref="DESIGN.md §6.16",
                technique="Lean 4 theorems (induction over the group loop) + digest correspondence over numeric ranges",
                text="Theorems for all 32-bit values: 7-bit read(write n)=n consuming exactly the groups, length = sbdf_get_7bitpacked_len for 0<=n<2^31 (1..5), group layout, reader never shifts out of range and refuses a continuation bit on the fifth byte, int32 write/read round trip and byte order, byte-size header = sum(len7 l + l). Model tied to the code by hashing the canonical output of every value in whole ranges (quick: all n < 2^22 + neighbourhoods of every power of two + strided samples; thorough: all 2^32).",
                note=NOTE),
}
_ALL = ["C%02d" % i for i in range(1, 21)]
NOT_APPLICABLE = [{"property_id": p, "reason": "check under construction in this session (model exists; theorems and tie not yet registered)"}
                  for p in _ALL if p not in CHECKS]
