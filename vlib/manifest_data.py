"""What MANIFEST.json claims, per property."""
HOOK_COMMITS = []
NOTE = ("Trusted: Lean 4.33 kernel (propext, Classical.choice, Quot.sound only; audited with #print axioms on every run); "
        "the hand-written model (lean/Sbdf/*.lean) is tied to /repo/src by the sampled correspondence (ASan/UBSan harness vs "
        "compiled model, both rebuilt from the working tree each run), not by proof; generated tables come from the translator; "
        "libc/FILE semantics, 32-bit int, 64-bit size_t, little-endian host, allocator cap assumed.")
RUNTIME = (" Runtime part not in the model (heap blocks, free, aliasing, real interleavings) is observed with sanitizers and "
           "allocator accounting while the correspondence runs; it is sampled, not proved.")

CHECKS = {
    "C01": dict(category="proof", design_ref="DESIGN.md §6.1",
                technique="Lean 4 round-trip theorems (Reads composition) + correspondence + independent Python reference oracle",
                text="Theorems: every reader of the model reads back exactly what the model writer produced, layer by layer (int32, 7-bit, strings, objects packed/unpacked, value arrays of all encodings, column slices, table slices), consuming exactly those bytes in any context; column-metadata folding keeps/refuses exactly the consistent tables. Tie: random tables built through the real API are written and read back by the real library; bytes, statuses and the full dump are compared with the model and with an independent Python reference.",
                note=NOTE),
    "C02": dict(category="proof", design_ref="DESIGN.md §6.2",
                technique="Lean 4 induction over the run-length encoder loop and the bit packer + correspondence",
                text="Theorems for all arrays: rleExpand(rleEncode es)=es via the loop invariant (runs 1..256 stored as length-1), getValues(createRle o)=o and row count, plain lossless, bit packing = zero/non-zero per element with unpack(pack bs)=bs for every length, default choice, unknown encoding refused. Tie: arrays of all 12 types with steered run structure through sbdf_va_create*/get_values/row_cnt and write+read.",
                note=NOTE),
    "C05": dict(category="other", design_ref="DESIGN.md §6.5",
                technique="Lean 4 NoUB/totality theorems over the model + ASan/UBSan/accounting differential run on hostile corpora",
                text="PARTIAL. Proved for every byte string: all readers/skippers/decoders are total; no ghost check fails (no shift >= 32, no overflowing sz*count, v*sizeof(void*), run-length expansion fills exactly the row count, bit decode stays inside the packed buffer); only documented statuses. Observed, not proved: heap discipline of the C error paths (double free, use after free, leaks, output arguments), on field-aware mutations and unstructured bytes under ASan/UBSan with live-block accounting." ,
                note=NOTE + RUNTIME),
    "C06": dict(category="proof", design_ref="DESIGN.md §6.6",
                technique="Lean 4: Stable predicate for every reader (closed under bind) => prefix theorem; correspondence on every cut offset",
                text="Theorem truncated_never_complete: for every file whose full read reaches end-of-table at its end and every strict prefix, any column subset: the prefix run ends in an error, never reports end-of-table, and the metadata/slices returned before are those of the full file. From Stable (success on a truncated stream implies the same success on the full stream) proved for all 30 readers. Tie: every byte offset of generated and sample files through the real readers.",
                note=NOTE),
    "C10": dict(category="proof", design_ref="DESIGN.md §6.10",
                technique="Lean 4 invariants + algebraic laws over the metadata model, all histories by induction + correspondence on histories",
                text="Theorems: check order and statuses of add; add appends (insertion order), get/get_dflt/exists/cnt after add, frame for other names; remove gone/idempotent; copy all-or-none and clash status; invariant (unique C-string names, singleton values, default of same type) preserved by every history; frozen collections reject every mutator and stay unchanged; table metadata and reader output frozen. Tie: random and exhaustive-small histories through the real API.",
                note=NOTE),
    "C11": dict(category="proof", design_ref="DESIGN.md §6.11",
                technique="Lean 4 invariants over column-slice histories + ghost arithmetic of the capacity growth + correspondence",
                text="Theorems: addition accepted iff row counts agree and name new; accepted => appended and retrievable at the slot it filled (identity), earlier slots unchanged; rejected => status, nothing changes; invariant for all histories; slices read from a stream have exactly the metadata's column count; capacity_safe: realloc-when-full pattern keeps allocated = calcCap(count) so index count is in bounds (calcCap tied to the compiled function by a regenerated table). Tie: histories up to 300 additions, pointer identity via sbdf_cs_get_property.",
                note=NOTE),
    "C13": dict(category="proof", design_ref="DESIGN.md §6.13",
                technique="Lean 4 generic emit lemmas instantiated on every writer entry point + fault injection at every byte offset",
                text="Theorems: every fwrite call site of every model writer reports a short write (Sound); OK => all bytes accepted; budget < bytes => non-OK; accepted bytes are a prefix; table_write_faults: for every representable table and every offset below its length the call in progress and every later call (header, metadata, slices, end marker) fail. Leak clause observed only. Tie: fwrite shim refusing bytes from every offset of generated tables.",
                note=NOTE + RUNTIME),
    "C15": dict(category="proof", design_ref="DESIGN.md §6.15",
                technique="Lean 4 list induction (lexicographic order laws, equality iff) + exhaustive small-alphabet correspondence",
                text="Theorems: sbdf_str_cmp/sbdf_ba_memcmp = lexicographic unsigned byte order with proper prefix first; zero iff equal; antisymmetric; transitive; sbdf_obj_eq true iff equal on well-formed objects, hence reflexive/symmetric/transitive; C-string view facts. Tie: all pairs over {00,01,7f,80,ff} up to the bound + random, objects of all types.",
                note=NOTE),
    "C16": dict(category="proof", design_ref="DESIGN.md §6.16",
                technique="Lean 4 theorems (induction over the group loop) + digest correspondence over numeric ranges",
                text="Theorems for all 32-bit values: 7-bit read(write n)=n consuming exactly the groups, length = sbdf_get_7bitpacked_len for 0<=n<2^31 (1..5), group layout, reader never shifts out of range and refuses a continuation bit on the fifth byte, int32 write/read round trip and byte order, byte-size header = sum(len7 l + l). Tie: hash of the canonical output of every value in whole ranges (quick: all n < 2^22 + neighbourhoods + strided samples; thorough: all 2^32).",
                note=NOTE),
    "C18": dict(category="other", design_ref="DESIGN.md §6.18",
                technique="Lean 4 non-interference theorem + decide over regenerated global-access/symbol tables; ThreadSanitizer runs",
                text="PARTIAL. Proved: threads over immutable shared data and private state get their sequential results under every schedule; decided on the regenerated tables: every reference to every static-storage variable is a read or const-argument, no static locals, data symbols accounted for, externals re-entrant. Observed: 8 threads x mixed workloads under TSan with per-line results equal to the sequential model. Data-race freedom of the C code itself is not proved.",
                note=NOTE + RUNTIME),
    "C19": dict(category="proof", design_ref="DESIGN.md §6.19",
                technique="Lean 4 list induction + decide over all 256 byte values + exhaustive short-string correspondence under ASan",
                text="Theorems: size-only result = bytes written (both converters, all inputs); neither converter reads past the terminator on any byte string (malformed/truncated included) and both terminate; ISO-8859-1 -> UTF-8 -> ISO-8859-1 is the identity on NUL-free strings; intermediate UTF-8 well formed; undecodable combinations give 0x1A. Tie: all strings of length 1-2 over 1..255, random long ones biased to trailing lead bytes, exactly-sized heap buffers under ASan.",
                note=NOTE),
    "C20": dict(category="proof", design_ref="DESIGN.md §6.20",
                technique="Lean 4 decide over the external symbol surface regenerated from the working tree (nm, asm scan, clang AST)",
                text="Theorems re-proved on every run over the regenerated surface: every undefined external symbol of every object is in the passive family (memory/string helpers, argument-stream I/O), no inline asm, no indirect calls by the library; trace theorem: any call trace over the surface only has heap/argument-memory/argument-stream effects. Decided for the whole library at once, as the property's quantifier says.",
                note=NOTE),
}
LATER = {k: CHECKS.pop(k) for k in ["C01"]}
_ALL = ["C%02d" % i for i in range(1, 21)]
_PENDING = {
    "C01": "theorems under construction (Reads composition for the whole file); correspondence check exists and passes",
    "C03": "theorems under construction (model writer = declarative spec); correspondence check exists and passes",
    "C04": "theorems under construction (reader decodes every reference layout); correspondence check exists and passes",
    "C07": "theorems under construction (Reads for skip and subset); correspondence check exists and passes",
    "C08": "theorems under construction (rewrite identity); correspondence check exists and passes",
    "C09": "theorems under construction (decision theorems per validation site); correspondence check exists and passes",
    "C12": "theorems under construction (ownership protocol); correspondence check exists and passes",
    "C14": "theorems under construction (frame under allocation faults); fault enumeration exists and passes",
    "C17": "theorems under construction (byte-order mirror); correspondence check exists and passes",
}
NOT_APPLICABLE = [{"property_id": p, "reason": "not claimed yet: " + _PENDING[p]} for p in _ALL if p not in CHECKS]
