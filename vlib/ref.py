"""Independent reference encoder for SBDF 1.0 (Python), with a field map, plus the canonical
text dump both drivers print.  Used as the oracle of C01/C03/C04/C08, as the source of physical
streams (C04), of field-aware corruption (C09, C05) and of the script form of tables."""
from .core import squash, hexs

SIZES = {1: 1, 2: 4, 3: 8, 4: 4, 5: 8, 6: 8, 7: 8, 8: 8, 9: 8, 13: 16, 0xFE: 1}
FIXED_TIDS = [1, 2, 3, 4, 5, 6, 7, 8, 9, 13]
ALL_TIDS = FIXED_TIDS + [10, 12]


def is_arr(t):
    return t in (10, 12)


def cstr(b):
    i = b.find(b"\0")
    return b if i < 0 else b[:i]


class Obj:
    __slots__ = ("tid", "elems")

    def __init__(self, tid, elems):
        self.tid = tid
        self.elems = list(elems)

    def script(self):
        return "%d %d" % (self.tid, len(self.elems)) + "".join(" " + hexs(e) for e in self.elems)

    def __eq__(self, o):
        return o is not None and self.tid == o.tid and self.elems == o.elems


def dump_obj(o, full=False):
    if o is None:
        return "-"
    return squash("%d:%d:" % (o.tid, len(o.elems)) + ",".join(hexs(e) for e in o.elems), 256, full)


# ------------------------------------------------------------------ physical value arrays

class VA:
    """kind: 'plain' (obj) | 'rle' (rows, runs: bytes, vals: Obj) | 'bit' (vt, rows, bits)"""

    def __init__(self, kind, **kw):
        self.kind = kind
        self.__dict__.update(kw)

    def rows_(self):
        return len(self.obj.elems) if self.kind == "plain" else self.rows

    def values(self):
        if self.kind == "plain":
            return self.obj
        if self.kind == "rle":
            out = []
            for r, v in zip(self.runs, self.vals.elems):
                out.extend([v] * (r + 1))
            return Obj(self.vals.tid, out)
        out = []
        for i in range(self.rows):
            out.append(bytes([(self.bits[i // 8] >> (7 - i % 8)) & 1]))
        return Obj(1, out)


def pack_bits(bools):
    out = bytearray()
    for i in range(0, len(bools), 8):
        g = bools[i:i + 8]
        v = 0
        for b in g:
            v = (v << 1) | (1 if b else 0)
        v <<= 8 - len(g)
        out.append(v)
    return bytes(out)


def canon_runs(elems):
    """maximal equal runs, split into chunks of at most 256, stored as (len-1, value)"""
    runs = bytearray()
    vals = []
    i = 0
    n = len(elems)
    while i < n:
        j = i
        while j < n and elems[j] == elems[i]:
            j += 1
        ln = j - i
        while ln > 0:
            c = min(ln, 256)
            runs.append(c - 1)
            vals.append(elems[i])
            ln -= c
        i = j
    return bytes(runs), vals


def nonzero(tid, e):
    return True if is_arr(tid) else any(e)


def lib_va(enc, obj):
    """the physical array the library's constructors build for (enc, obj); enc 0 = default"""
    if enc == 0:
        enc = 3 if obj.tid == 1 else 1
    if enc == 1:
        return VA("plain", obj=obj)
    if enc == 2:
        runs, vals = canon_runs(obj.elems)
        return VA("rle", rows=len(obj.elems), runs=runs, vals=Obj(obj.tid, vals))
    return VA("bit", vt=1, rows=len(obj.elems), bits=pack_bits([nonzero(obj.tid, e) for e in obj.elems]))


# ------------------------------------------------------------------ encoder with field map

class Enc:
    def __init__(self, be=False):
        self.b = bytearray()
        self.f = []
        self.be = be

    def fld(self, kind, n, **kw):
        d = dict(off=len(self.b), len=n, kind=kind)
        d.update(kw)
        self.f.append(d)

    def i8(self, v, kind=None, **kw):
        if kind:
            self.fld(kind, 1, **kw)
        self.b.append(v & 0xFF)

    def i32(self, v, kind=None, **kw):
        if kind:
            self.fld(kind, 4, **kw)
        self.b += (v & 0xFFFFFFFF).to_bytes(4, "big" if self.be else "little")

    def p7(self, v, kind=None, **kw):
        out = bytearray()
        while True:
            if v > 0x7F:
                out.append((v & 0x7F) | 0x80)
                v >>= 7
            else:
                out.append(v)
                break
        if kind:
            self.fld(kind, len(out), **kw)
        self.b += out

    def string(self, s, kind="strlen", **kw):
        self.i32(len(s), kind, **kw)
        self.b += s

    def sec(self, sid, pos=""):
        self.i8(0xDF, "magic0")
        self.i8(0x5B, "magic1")
        self.i8(sid, "secid", expect=sid, pos=pos)

    def fixed(self, tid, elems):
        for e in elems:
            self.b += e[::-1] if self.be else e

    def obj_unpacked(self, o, present=True):
        if is_arr(o.tid):
            for e in o.elems:
                self.i32(len(e), "len32", present=present)
                self.b += e
        else:
            self.fixed(o.tid, o.elems)

    def obj_arr(self, o, ctx=""):
        self.i32(len(o.elems), "elemcount", ctx=ctx)
        if is_arr(o.tid):
            total = sum(len7(len(e)) + len(e) for e in o.elems)
            self.i32(total, "bytesize")
            for e in o.elems:
                self.p7(len(e), "len7")
                self.b += e
        else:
            self.fixed(o.tid, o.elems)

    def va(self, va):
        if va.kind == "plain":
            self.i8(1, "enc")
            self.i8(va.obj.tid, "tid", where="plain")
            self.obj_arr(va.obj, "plain")
        elif va.kind == "rle":
            self.i8(2, "enc")
            self.i8(va.vals.tid, "tid", where="rle")
            self.i32(va.rows, "rows_rle")
            self.obj_arr(Obj(0xFE, [bytes([r]) for r in va.runs]), "runs")
            self.obj_arr(va.vals, "rlevals")
        else:
            self.i8(3, "enc")
            self.i8(va.vt, "tid", where="bit")
            self.i32(va.rows, "rows_bit")
            self.b += va.bits

    def cs(self, values, props):
        self.sec(4, "cs")
        self.va(values)
        self.i32(len(props), "propcnt")
        for name, va in props:
            self.string(name, "strlen", what="propname")
            self.va(va)

    def ts(self, cols):
        self.sec(3, "ts")
        self.i32(len(cols), "slicecols")
        for values, props in cols:
            self.cs(values, props)

    def optobj(self, o, kind):
        if o is None:
            self.i8(0, kind)
        else:
            self.i8(1, kind)
            self.obj_unpacked(o)

    def tm(self, tmd, names, cols):
        """tmd: [(name, Obj, dflt)], names: [(name, tid, dflt)], cols: [ {name: Obj} ]"""
        self.sec(2, "tm")
        self.i32(len(tmd), "tmdcount")
        for name, v, d in tmd:
            self.string(name, "strlen", what="tmdname")
            self.i8(v.tid, "tid", where="tmd")
            self.optobj(v, "flag_tmd_value")
            self.optobj(d, "flag_tmd_dflt")
        self.i32(len(cols), "colcount")
        self.i32(len(names), "namecount")
        for name, tid, d in names:
            self.string(name, "strlen", what="colname")
            self.i8(tid, "tid", where="namelist", hasd=d is not None)
            self.optobj(d, "flag_name_dflt")
        for col in cols:
            for j, (name, tid, d) in enumerate(names):
                self.optobj(colval(col, name, j), "flag_col")

    def header(self):
        self.sec(1, "fh")
        self.i8(1, "major")
        self.i8(0, "minor")

    def end(self):
        self.sec(5, "end")


def colval(col, name, j):
    """value a column holds for name-list row j: columns are dicts name -> Obj; when the name list
    repeats a name (foreign layouts), the column says which row it means with a key (name, j)"""
    if (name, j) in col:
        return col[(name, j)]
    if any(isinstance(k, tuple) and k[0] == name for k in col):
        return None
    return col.get(name)


def len7(v):
    return 1 if v < 128 else 2 if v < 16384 else 3 if v < 2097152 else 4 if v < 268435456 else 5


# ------------------------------------------------------------------ tables

class Phys:
    """physical table: tmd, names (file-wide list), cols (dict per column), slices of
    [(VA, [(name, VA)])]"""

    def __init__(self, tmd, names, cols, slices):
        self.tmd, self.names, self.cols, self.slices = tmd, names, cols, slices

    def encode(self, be=False):
        e = Enc(be)
        e.header()
        e.tm(self.tmd, self.names, self.cols)
        for s in self.slices:
            e.ts(s)
        e.end()
        return e


class Table:
    """logical table as built through the API: tmd [(name,Obj,dflt)], cols [[(name,Obj,dflt)]],
    slices [[((enc,Obj), [(pname,(enc,Obj))])]]"""

    def __init__(self, tmd, cols, slices):
        self.tmd, self.cols, self.slices = tmd, cols, slices

    def script(self):
        def md(m):
            return "%d" % len(m) + "".join(
                " %s %s %s" % (hexs(n), v.script(), ("1 " + d.script()) if d is not None else "0") for n, v, d in m)

        def vas(v):
            return "%d %s" % (v[0], v[1].script())
        s = md(self.tmd) + " %d" % len(self.cols)
        for c in self.cols:
            s += " " + md(c)
        s += " %d" % len(self.slices)
        for sl in self.slices:
            s += " %d" % len(sl)
            for vals, props in sl:
                s += " " + vas(vals) + " %d" % len(props)
                for pn, pv in props:
                    s += " " + hexs(pn) + " " + vas(pv)
        return s

    def consistent(self):
        seen = {}
        for c in self.cols:
            for n, v, d in c:
                if n in seen:
                    t0, d0 = seen[n]
                    if t0 != v.tid or not ((d0 is None and d is None) or (d0 is not None and d == d0)):
                        return False
                seen[n] = (v.tid, d)
        return True

    def canon(self):
        """the physical table the library's writer produces"""
        names = []
        seen = set()
        for c in self.cols:
            for n, v, d in c:
                if n not in seen:
                    seen.add(n)
                    names.append((n, v.tid, d))
        cols = [{n: v for n, v, d in c} for c in self.cols]
        slices = [[(lib_va(*vals), [(pn, lib_va(*pv)) for pn, pv in props]) for vals, props in sl]
                  for sl in self.slices]
        return Phys(self.tmd, names, cols, slices)


# ------------------------------------------------------------------ expected dumps

def va_bytes(va, be=False):
    e = Enc(be)
    e.va(va)
    return bytes(e.b)


def dump_va(va, be=False, full=False):
    return "rows=%d,vals=0:%s,w=0:%s" % (va.rows_(), dump_obj(va.values(), full), squash(hexs(va_bytes(va, be)), 512, full))


def dump_md(entries, modifiable, full=False):
    return squash("m%d{" % modifiable + "".join(
        "%s=%s/%s;" % (hexs(n), dump_obj(v, full), dump_obj(d, full)) for n, v, d in entries) + "}", 4096, full)


def probe_md(entries, full=False):
    s = "c%d[" % len(entries)
    for n, v, d in entries[:64]:
        s += "g0:%s" % dump_obj(v, full) + "d0:%s" % dump_obj(d, full) + "e1,"
    return squash(s + "]", 4096, full)


def probe_cm(entries):
    s = ""
    nm = [e for e in entries if e[0] == b"Name"]
    if not nm:
        s += "n-7"
    elif nm[0][1].tid != 10:
        s += "n-9"
    else:
        s += "n0:" + hexs(nm[0][1].elems[0])
    dt = [e for e in entries if e[0] == b"DataType"]
    if not dt:
        s += "t-7"
    else:
        o = dt[0][1]
        if o.tid != 12 or len(o.elems) != 1 or len(o.elems[0]) not in (1, 3):
            s += "t-9"
        else:
            s += "t0:%d" % o.elems[0][0]
    return s


def dump_tm(p, probe=True, full=False):
    s = "T" + dump_md(p.tmd, 0, full) + (probe_md(p.tmd, full) if probe else "") + "N%d" % len(p.cols)
    for i, col in enumerate(p.cols):
        entries = [(n, colval(col, n, j), d) for j, (n, t, d) in enumerate(p.names) if colval(col, n, j) is not None]
        s += "C" + dump_md(entries, 0, full)
        if probe and i < 64:
            s += probe_md(entries, full) + probe_cm(entries)
    return squash(s, 16384, full)


def dump_cs(cs, be=False, full=False):
    if cs is None:
        return "-"
    values, props = cs
    s = "V(" + dump_va(values, be, full) + ")r%dP%d{" % (values.rows_(), len(props))
    for i, (n, va) in enumerate(props):
        first = [j for j, (m, _) in enumerate(props) if cstr(m) == cstr(n)][0]
        s += hexs(n) + "=(" + dump_va(va, be, full) + ")g0@%d;" % first
    return squash(s + "}", 8192, full)


def dump_ts(cols, be=False, full=False):
    return squash("S%d[" % len(cols) + "|".join(dump_cs(c, be, full) for c in cols) + "]", 32768, full)


def dump_file(p, nbytes, subset=None, be=False, full=False, probe=True):
    """what both drivers print for a full successful read of the encoding of p"""
    s = "fh=0:1.0 tm=0:" + dump_tm(p, probe, full)
    for sl in p.slices:
        cols = [c if (subset is None or (i < len(subset) and subset[i])) else None for i, c in enumerate(sl)]
        s += " ts=0:" + dump_ts(cols, be, full)
    return s + " ts=-1000 pos=%d" % nbytes
