"""Scenario generators.  All randomness comes from the random.Random instance passed in."""
import struct
from .ref import Obj, VA, Phys, Table, SIZES, FIXED_TIDS, ALL_TIDS, is_arr, pack_bits, canon_runs, hexs

NAMES = [b"Name", b"DataType", b"a", b"b", b"ab", b"Unit", b"\xc3\xa9t\xc3\xa9", b"x" * 130, b""]
PROPS = [b"IsInvalid", b"ErrorCode", b"HasReplacedValue", b"p", b"q"]
EDGE_LENS = [0, 1, 2, 7, 127, 128, 129, 255, 256, 300, 383]
BIG_LENS = [16383, 16384, 16385]
ROWS = [0, 1, 2, 7, 8, 9, 15, 16, 17, 255, 256, 257, 511, 512, 513, 600]


def rbytes(r, n):
    return bytes(r.getrandbits(8) for _ in range(n))


def rstr(r, big=False):
    k = r.random()
    if k < 0.25:
        return r.choice([b"", b"a", b"ab", b"abc", b"abd", b"ab\0c", b"ab\0d", b"\0", b"abc\0"])
    if k < 0.5:
        return rbytes(r, r.randrange(0, 6))
    if k < 0.9:
        return rbytes(r, r.choice(EDGE_LENS))
    return rbytes(r, r.choice(BIG_LENS if big else EDGE_LENS))


SPECIAL8 = [struct.pack("<d", 0.0), struct.pack("<d", -0.0), bytes.fromhex("010000000000f87f"),
            bytes.fromhex("020000000000f87f"), bytes.fromhex("000000000000f0ff"), b"\xff" * 8, b"\0" * 8]
SPECIAL4 = [struct.pack("<f", 0.0), struct.pack("<f", -0.0), bytes.fromhex("0100c07f"), bytes.fromhex("0200c07f"),
            b"\xff" * 4, b"\0" * 4, struct.pack("<i", 1), struct.pack("<i", -1)]


def relem(r, tid, big=False):
    if tid == 10:
        s = rstr(r, big)
        return s
    if tid == 12:
        return rstr(r, big)
    sz = SIZES[tid]
    if tid == 1:
        return bytes([r.choice([0, 1, 1, 0, 2, 255]) if r.random() < 0.1 else r.randrange(2)])
    k = r.random()
    if k < 0.3 and sz == 8:
        return r.choice(SPECIAL8)
    if k < 0.3 and sz == 4:
        return r.choice(SPECIAL4)
    if k < 0.5:
        return bytes([r.randrange(3)]) + b"\0" * (sz - 1)
    if k < 0.6 and sz >= 4:
        # zero in the low half, something in the high half (and the other way round)
        half = sz // 2
        return (b"\0" * half + rbytes(r, sz - half)) if r.random() < 0.5 else (rbytes(r, half) + b"\0" * (sz - half))
    return rbytes(r, sz)


def robj(r, tid=None, n=None, big=False, runs=True):
    """array with steered run structure"""
    if tid is None:
        tid = r.choice(ALL_TIDS)
    if n is None:
        n = r.choice(ROWS) if r.random() < 0.5 else r.randrange(0, 40)
    if is_arr(tid) and n > 64 and not big:
        n = r.randrange(0, 64)
    mode = r.randrange(5) if runs else 1
    elems = []
    if mode == 0:      # all equal
        e = relem(r, tid, big)
        elems = [e] * n
    elif mode == 1:    # independent
        elems = [relem(r, tid, big) for _ in range(n)]
    elif mode == 2:    # alternating
        a, b = relem(r, tid), relem(r, tid)
        elems = [a if i % 2 == 0 else b for i in range(n)]
    else:              # runs of random lengths incl. > 256
        while len(elems) < n:
            e = relem(r, tid)
            k = r.choice([1, 2, 3, 255, 256, 257, 512, 600, r.randrange(1, 20)])
            elems.extend([e] * k)
        elems = elems[:n]
    return Obj(tid, elems)


def rsingle(r, tid=None, big=False):
    if tid is None:
        tid = r.choice(ALL_TIDS)
    return Obj(tid, [relem(r, tid, big)])


def rmd(r, names, maxn=4, big=False, typemap=None):
    """metadata entries with unique C-string names"""
    k = r.randrange(0, maxn + 1)
    out = []
    used = set()
    for _ in range(k):
        n = r.choice(names)
        if n in used or b"\0" in n:
            continue
        used.add(n)
        if typemap is not None and n in typemap:
            tid, d = typemap[n]
        else:
            tid = r.choice(ALL_TIDS)
            d = rsingle(r, tid) if r.random() < 0.4 else None
            if typemap is not None:
                typemap[n] = (tid, d)
        out.append((n, rsingle(r, tid, big), d))
    return out


def rtable(r, consistent=True, maxcols=4, maxslices=3, big=False, small=False):
    tmd = rmd(r, NAMES, 3, big)
    ncols = r.randrange(0, maxcols + 1)
    typemap = {} if consistent else None
    cols = []
    coltypes = []
    for i in range(ncols):
        entries = []
        tid = r.choice(ALL_TIDS)
        coltypes.append(tid)
        if r.random() < 0.8:
            entries.append((b"Name", Obj(10, [b"col%d" % i]), None))
            entries.append((b"DataType", Obj(12, [bytes([tid])]), None))
        extra = rmd(r, [b"a", b"b", b"ab", b"Unit", b"x" * 130], 3, big, typemap)
        if not consistent and r.random() < 0.5 and extra:
            pass
        entries.extend(e for e in extra if e[0] not in (b"Name", b"DataType"))
        r.shuffle(entries) if r.random() < 0.3 else None
        cols.append(entries)
    nsl = r.randrange(0, maxslices + 1)
    slices = []
    for _ in range(nsl):
        rows = r.choice(ROWS[:9] if small else ROWS) if r.random() < 0.6 else r.randrange(0, 30)
        sl = []
        for tid in coltypes:
            o = robj(r, tid, rows if not is_arr(tid) else min(rows, 40), big)
            rows_c = len(o.elems)
            # bit arrays of non-boolean fixed-size columns are legal ("is non-zero" per row)
            enc = r.choice([0, 1, 2, 2, 3] if tid == 1 else ([0, 1, 2, 2] + ([3, 3] if not is_arr(tid) and r.random() < 0.15 else [])))
            props = []
            used = set()
            for _ in range(r.randrange(0, 3)):
                pn = r.choice(PROPS)
                if pn in used:
                    continue
                used.add(pn)
                ptid = 1 if pn in (b"IsInvalid", b"HasReplacedValue") else r.choice([10, 2, 1])
                po = robj(r, ptid, rows_c)
                po = Obj(ptid, (po.elems + [relem(r, ptid)] * rows_c)[:rows_c])
                penc = r.choice([0, 1, 2, 3] if ptid == 1 else [0, 1, 2])
                props.append((pn, (penc, po)))
            sl.append(((enc, o), props))
        slices.append(sl)
    return Table(tmd, cols, slices)


def rphys_va(r, tid, rows):
    """any valid physical layout of a random array of `rows` values of type tid"""
    if tid == 1 and r.random() < 0.4:
        bools = [r.randrange(2) for _ in range(rows)]
        return VA("bit", vt=r.choice([1, 1, 1, 2, 10, 0, 0xFE, 99]), rows=rows, bits=pack_bits(bools))
    o = robj(r, tid, rows if not is_arr(tid) else min(rows, 40))
    if r.random() < 0.4:
        return VA("plain", obj=o)
    # run-length with non-canonical layout: split runs at random
    runs = bytearray()
    vals = []
    i = 0
    n = len(o.elems)
    while i < n:
        j = i
        while j < n and o.elems[j] == o.elems[i] and j - i < 256:
            j += 1
        ln = j - i
        if r.random() < 0.5:
            ln = r.randrange(1, ln + 1)
        runs.append(ln - 1)
        vals.append(o.elems[i])
        i += ln
    return VA("rle", rows=n, runs=bytes(runs), vals=Obj(tid, vals))


def rphys_invalid(r):
    """structurally parseable but semantically invalid tables: duplicate names in the file-wide
    name list (also via embedded NULs), duplicate table-level names, duplicate property names —
    the reader's error paths inside sbdf_md_add / sbdf_cs_read"""
    p = rphys(r, maxcols=3, maxslices=2)
    k = r.randrange(4)
    if k == 0 or not p.names:
        base = r.choice([b"dup", b"Name", b"a"])
        tid = r.choice(ALL_TIDS)
        extra = [(base, tid, rsingle(r, tid) if r.random() < 0.5 else None),
                 (base + (b"\0x" if r.random() < 0.5 else b""), tid, None)]
        pos = r.randrange(len(p.names) + 1)
        p.names[pos:pos] = extra
        for col in p.cols:
            if r.random() < 0.8:
                col[extra[0][0]] = rsingle(r, tid)
                col[extra[1][0]] = rsingle(r, tid)
        if not p.cols:
            p.cols.append({extra[0][0]: rsingle(r, tid), extra[1][0]: rsingle(r, tid)})
            for sl in p.slices:
                sl.append((rphys_va(r, 2, sl[0][0].rows_() if sl else 0), []))
    elif k == 1:
        n, v, d = (p.tmd[0] if p.tmd else (b"t", rsingle(r, 2), None))
        if not p.tmd:
            p.tmd.append((n, v, d))
        # the twin right behind, or some entries apart; with the same bytes or differing behind a NUL
        for _ in range(r.choice([0, 0, 1, 2])):
            t2 = r.choice(ALL_TIDS)
            p.tmd.append((b"sep%d" % len(p.tmd), rsingle(r, t2), None))
        shape = r.randrange(3)
        if shape != 1:
            p.tmd.append((n, rsingle(r, v.tid), d))
        if shape != 0:
            p.tmd.append((n + b"\0", rsingle(r, v.tid), None))
        if r.random() < 0.3:
            p.tmd.append((b"tail", rsingle(r, 2), None))
    elif k == 2 and p.slices and p.slices[0]:
        sl = r.choice(p.slices)
        i = r.randrange(len(sl))
        v, props = sl[i]
        pv = rphys_va(r, 1, v.rows_())
        sl[i] = (v, props + [(b"dupprop", pv), (b"dupprop", pv)])
    else:
        # a name row whose default has another type than the row says cannot be expressed by the
        # encoder (the type byte is shared); instead: empty names and very long names
        p.names.insert(0, (b"", 2, None))
        p.names.append((b"n" * 300, 10, rsingle(r, 10)))
        for col in p.cols:
            col[b""] = rsingle(r, 2)
    return p


def rphys(r, maxcols=4, maxslices=3):
    """reference-encoder table with layouts the library never emits"""
    tmd = []
    used = set()
    for _ in range(r.randrange(0, 4)):
        n = r.choice(NAMES + [b"t1", b"t2"])
        if n in used or b"\0" in n:
            continue
        used.add(n)
        tid = r.choice(ALL_TIDS)
        tmd.append((n, rsingle(r, tid), rsingle(r, tid) if r.random() < 0.4 else None))
    ncols = r.randrange(0, maxcols + 1)
    pool = [b"Name", b"DataType", b"zeta", b"alpha", b"Unit", b"mid", b"unused1", b"unused2"]
    r.shuffle(pool)
    names = []
    for n in pool[:r.randrange(0, len(pool) + 1)]:
        if n == b"Name":
            names.append((n, 10, None))
        elif n == b"DataType":
            names.append((n, 12, None))
        else:
            tid = r.choice(ALL_TIDS)
            names.append((n, tid, rsingle(r, tid) if r.random() < 0.5 else None))
    coltypes = [r.choice(ALL_TIDS) for _ in range(ncols)]
    cols = []
    for i in range(ncols):
        col = {}
        for n, tid, d in names:
            if n.startswith(b"unused"):
                continue
            if r.random() < 0.7:
                if n == b"Name":
                    col[n] = Obj(10, [b"c%d" % i])
                elif n == b"DataType":
                    col[n] = Obj(12, [bytes([coltypes[i]]) + (b"\0\0" if r.random() < 0.3 else b"")])
                else:
                    col[n] = rsingle(r, tid)
        cols.append(col)
    # a foreign name list may repeat a name (same type; the default present in one row, absent in
    # the other): each column then refers to one of the two rows
    cand = [j for j, (n, t, d) in enumerate(names) if n not in (b"Name", b"DataType") and not n.startswith(b"unused")]
    if cand and r.random() < 0.15:
        j = r.choice(cand)
        n, t, d = names[j]
        d2 = None if d is not None else rsingle(r, t)
        if r.random() < 0.3:
            d2 = d     # identical rows
        j2 = r.randrange(j + 1, len(names) + 1)
        names.insert(j2, (n, t, d2))
        for col in cols:
            if n in col:
                v = col.pop(n)
                col[(n, r.choice([j, j2]))] = v
    slices = []
    for _ in range(r.randrange(0, maxslices + 1)):
        rows = r.choice(ROWS) if r.random() < 0.5 else r.randrange(0, 30)
        sl = []
        for tid in coltypes:
            v = rphys_va(r, tid, rows)
            rc = v.rows_()
            props = []
            usedp = set()
            for _ in range(r.randrange(0, 4)):
                pn = r.choice(PROPS + [b"custom prop", b"\xff\xfe", b""])
                if pn in usedp:
                    continue
                usedp.add(pn)
                ptid = r.choice([1, 2, 10, 12, 5])
                pv = rphys_va(r, ptid, rc)
                if pv.rows_() != rc:
                    continue
                props.append((pn, pv))
            sl.append((v, props))
        slices.append(sl)
    return Phys(tmd, names, cols, slices)


# ------------------------------------------------------------------ metadata histories

def rhistory(r, length, small=False, as_ops=False):
    names = [b"a", b"b", b"c"] if small else [b"a", b"b", b"Name", b"DataType", b"a\0x", b"", b"long" * 40]
    toks = ["md", "new 0", "new 1"]
    regs = [0, 1, 2]
    toks.append("new 2")

    def val(tid=None):
        if small:
            tid = tid or r.choice([2, 10])
            return Obj(tid, [r.choice([b"\1\0\0\0", b"\2\0\0\0"]) if tid == 2 else r.choice([b"u", b"v"])])
        return rsingle(r, tid)
    for _ in range(length):
        k = r.random()
        a = r.choice(regs)
        n = hexs(r.choice(names))
        if k < 0.30:
            v = val()
            if r.random() < 0.1:
                v = Obj(v.tid, v.elems * r.choice([0, 2]))
            if r.random() < 0.5:
                d = val(v.tid if r.random() < 0.85 else None)
                if r.random() < 0.05:
                    d = Obj(d.tid, d.elems * 2)
                toks.append("add %d %s %s 1 %s" % (a, n, v.script(), d.script()))
            else:
                toks.append("add %d %s %s 0" % (a, n, v.script()))
        elif k < 0.36:
            toks.append("addstr %d %s %s %s" % (a, n, hexs(r.choice([b"v", b"", b"w\0z"])),
                                                 "1 " + hexs(r.choice([b"d", b""])) if r.random() < 0.5 else "0"))
        elif k < 0.42:
            toks.append("addint %d %s %d %d" % (a, n, r.choice([0, 1, -1, 2 ** 31 - 1, -2 ** 31]), r.randrange(-5, 5)))
        elif k < 0.55:
            toks.append("rm %d %s" % (a, n))
        elif k < 0.65:
            toks.append("get %d %s" % (a, n))
        elif k < 0.72:
            toks.append("getd %d %s" % (a, n))
        elif k < 0.78:
            toks.append("ex %d %s" % (a, n))
        elif k < 0.82:
            toks.append("cnt %d" % a)
        elif k < 0.90:
            toks.append("copy %d %d" % (a, r.choice(regs)))
        elif k < 0.93:
            toks.append("freeze %d" % a)
        elif k < 0.95:
            toks.append("new %d" % a)
        elif k < 0.97:
            toks.append("setcm %d %s %d" % (a, hexs(r.choice([b"col", b""])), r.choice(ALL_TIDS)))
        elif k < 0.98:
            toks.append("getcm %d" % a)
        else:
            toks.append("tm %d %d %d end" % (a, r.choice(regs), r.choice(regs)))
        if r.random() < 0.15:
            toks.append("dump %d" % r.choice(regs))
    for a in regs:
        toks.append("dump %d" % a)
    if as_ops:
        return toks
    return " ".join(toks)


# ------------------------------------------------------------------ hostile streams

BAD32 = [-1, -2, -2 ** 31, 2 ** 31 - 1, 2 ** 28 + 1, 0x20000001, 0x10000001, 0x7FFFFFF0, 65536, 255, 256, 1, 0, 2, 3,
         # the last count an `> INT_MAX / size` guard lets through, and the first it refuses, per element size
         (2 ** 31 - 1) // 2, (2 ** 31 - 1) // 2 + 1, (2 ** 31 - 1) // 4, (2 ** 31 - 1) // 4 + 1,
         (2 ** 31 - 1) // 8, (2 ** 31 - 1) // 8 + 1, (2 ** 31 - 1) // 16, (2 ** 31 - 1) // 16 + 1]


def mutate_field(r, data, f, be=False):
    """field-aware mutation of one field; returns (bytes, description)"""
    b = bytearray(data)
    off, ln = f["off"], f["len"]
    kind = f["kind"]
    if ln == 4:
        v = r.choice(BAD32)
        b[off:off + 4] = (v & 0xFFFFFFFF).to_bytes(4, "big" if be else "little")
        return bytes(b), "%s@%d:=%d" % (kind, off, v)
    if ln == 1:
        v = r.choice([0, 1, 2, 3, 4, 5, 6, 0x0A, 0x0B, 0x0C, 0x0D, 0x0E, 0x7F, 0x80, 0xFE, 0xFF, 0xDF, 0x5B])
        b[off] = v
        return bytes(b), "%s@%d:=%d" % (kind, off, v)
    # 7-bit group sequence
    v = r.choice([b"\xff\xff\xff\xff\x0f", b"\xff\xff\xff\xff\x07", b"\x80\x80\x80\x80\x80\x01", b"\xff\xff\xff\xff\xff\xff\x01",
                  b"\x80", b"\xff\x7f", b"\x00"])
    b[off:off + ln] = v
    return bytes(b), "%s@%d:=%s" % (kind, off, v.hex())


def mutate_random(r, data):
    b = bytearray(data)
    k = r.randrange(6)
    if k == 0 and b:
        for _ in range(r.randrange(1, 4)):
            b[r.randrange(len(b))] = r.getrandbits(8)
        return bytes(b), "flip"
    if k == 1 and b:
        return bytes(b[:r.randrange(len(b))]), "trunc"
    if k == 2 and len(b) > 8:
        i = r.randrange(len(b) - 4)
        j = r.randrange(len(b) - 4)
        n = r.randrange(1, min(64, len(b) - max(i, j)))
        b[i:i + n] = b[j:j + n]
        return bytes(b), "splice"
    if k == 3 and b:
        i = r.randrange(len(b))
        del b[i:i + r.randrange(1, 8)]
        return bytes(b), "delete"
    if k == 4:
        i = r.randrange(len(b) + 1)
        b[i:i] = bytes(r.getrandbits(8) for _ in range(r.randrange(1, 8)))
        return bytes(b), "insert"
    if len(b) >= 4:
        i = r.randrange(len(b) - 3)
        b[i:i + 4] = (r.choice(BAD32) & 0xFFFFFFFF).to_bytes(4, "little")
    return bytes(b), "int32"
