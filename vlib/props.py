"""Per-property checks."""
import json
import os
import random
import re
import struct
import subprocess
import time

from . import core, gen, ref
from .core import Result, log, sh, clean, LEAN, ROOT, CACHE

ALLOWED_AXIOMS = {"propext", "Classical.choice", "Quot.sound"}
FORBIDDEN = [r"\bsorry\b", r"\badmit\b", r"^\s*axiom\s", r"\bnative_decide\b", r"\bbv_decide\b", r"implemented_by",
             r"\bunsafe\s", r"@\[extern", r"maxHeartbeats\s+0\b"]

TRUSTED = [
    "Lean 4.33.0 kernel (axioms: propext, Classical.choice, Quot.sound only; audited by #print axioms on every run)",
    "Lean compiler/runtime for the compiled model driver (sbdf_drv)",
    "translator tools/extract.py (tables dumped from the freshly compiled code, gcc -E -dM, nm, clang AST)",
    "correspondence harness harness/drv.c + vlib/*.py (generators, canonicalisation), clang ASan/UBSan, glibc FILE semantics",
    "hand-written model lean/Sbdf/*.lean tied to /repo/src by the correspondence (sampled, not proved)",
]


class Ctx:
    def __init__(self, pid, tier, seed):
        self.pid, self.tier, self.seed = pid, tier, seed
        self.rng = random.Random((seed << 8) ^ int(pid[1:]))
        self.broken = []          # broken proof obligations (strings)
        self.harness = {}
        self.model = core.model_exe()
        self.found_input = False
        self.model_is_spec = False

    def h(self, variant="asan"):
        if variant not in self.harness:
            self.harness[variant] = core.build_harness(variant)
        return self.harness[variant]


# ----------------------------------------------------------------------------- proof stage

def forbidden_tokens():
    hits = []
    for base in ("Sbdf", "Driver"):
        for dp, dn, fn in os.walk(os.path.join(LEAN, base)):
            for f in fn:
                if not f.endswith(".lean"):
                    continue
                p = os.path.join(dp, f)
                txt = open(p).read()
                # strip comments
                txt = re.sub(r"/-.*?-/", lambda m: "\n" * m.group(0).count("\n"), txt, flags=re.S)
                txt = re.sub(r"--.*", "", txt)
                for i, line in enumerate(txt.split("\n")):
                    for pat in FORBIDDEN:
                        if re.search(pat, line):
                            hits.append("%s:%d: %s" % (os.path.relpath(p, LEAN), i + 1, line.strip()[:100]))
    root = os.path.join(LEAN, "Sbdf.lean")
    return hits


def theorems_of(pid):
    p = os.path.join(LEAN, "Sbdf", "Props", pid + ".lean")
    if not os.path.exists(p):
        return []
    txt = open(p).read()
    txt = re.sub(r"/-.*?-/", "", txt, flags=re.S)
    return re.findall(r"^theorem\s+([\w.']+)", txt, re.M)


def proof_stage(res, ctx):
    """translator + lake build + audit.  Fills res.cov obligations; records broken obligations."""
    pid = ctx.pid
    t0 = time.time()
    r = sh(["python3", os.path.join(ROOT, "tools", "extract.py")])
    if r.returncode != 0:
        ctx.broken.append("translator failed: " + clean(r.stdout + r.stderr)[-1500:])
    thms = theorems_of(pid)
    ok, out = core.lake_build(["Sbdf.Props." + pid, "sbdf_drv"])
    discharged = 0
    if not ok:
        errs = [l for l in out.splitlines() if "error" in l][:12]
        ctx.broken.append("lake build of Sbdf.Props.%s failed:\n%s" % (pid, "\n".join(errs) or out[-1500:]))
        # the driver may still be buildable on its own
        ok2, out2 = core.lake_build(["sbdf_drv"])
        if not ok2:
            ctx.broken.append("model driver does not build: " + out2[-800:])
    else:
        os.makedirs(os.path.join(CACHE, "audit"), exist_ok=True)
        ap = os.path.join(CACHE, "audit", pid + ".lean")
        with open(ap, "w") as f:
            f.write("import Sbdf.Props.%s\n" % pid)
            for t in thms:
                f.write("#print axioms Sbdf.%s.%s\n" % (pid, t))
        with core.Lock("lake"):
            a = sh(["lake", "env", "lean", ap], cwd=LEAN)
        txt = clean(a.stdout + a.stderr)
        for t in thms:
            m = re.search(r"'Sbdf\.%s\.%s' (does not depend on any axioms|depends on axioms: \[([^\]]*)\])" %
                          (pid, re.escape(t)), txt.replace("\n", " "))
            if not m:
                ctx.broken.append("audit: theorem %s.%s not found (%s)" % (pid, t, txt[-300:]))
                continue
            axs = set(x.strip() for x in (m.group(2) or "").split(",") if x.strip())
            bad = axs - ALLOWED_AXIOMS
            if bad:
                ctx.broken.append("audit: theorem %s.%s depends on %s" % (pid, t, sorted(bad)))
            else:
                discharged += 1
    hits = forbidden_tokens()
    if hits:
        ctx.broken.append("forbidden tokens in Lean sources: " + "; ".join(hits[:5]))
    res.cov["obligations"] = len(thms)
    res.cov["discharged"] = discharged if not hits else 0
    res.cov["checker_cmd"] = "cd /verif/lean && lake build Sbdf.Props.%s && lake env lean .cache/audit/%s.lean  (#print axioms)" % (pid, pid)
    res.cov["trusted_base"] = TRUSTED
    res.cov["theorems"] = thms
    res.cov["proof_stage_s"] = round(time.time() - t0, 1)
    return not ctx.broken


def thorough_recheck(res, ctx):
    """leanchecker on the property module (independent re-check of the compiled proofs)."""
    with core.Lock("lake"):
        r = sh(["lake", "env", "leanchecker", "Sbdf.Props." + ctx.pid], cwd=LEAN)
    out = clean(r.stdout + r.stderr)
    res.cov["leanchecker"] = "ok" if r.returncode == 0 else out[-500:]
    if r.returncode != 0:
        ctx.broken.append("leanchecker rejected Sbdf.Props.%s: %s" % (ctx.pid, out[-500:]))


# ----------------------------------------------------------------------------- correspondence

def compare(res, ctx, lines, label, project=None, oracle=None, variant="asan", margs=(), nontrivial=None,
            rule=None, max_report=3, model_is_spec=False):
    """Run harness and model on the same scenario lines; diff (after projection); evaluate the
    property oracle on the implementation's output for every line."""
    if not lines:
        return [], []
    hx = ctx.h(variant)
    hout = core.run_driver(hx, lines)
    mout = core.run_driver(ctx.model, lines, args=margs)
    res.add_cases(lines, nontrivial or (lambda l: True), rule or label)
    res.cov.setdefault("traces_validated_against_impl", 0)
    res.cov["traces_validated_against_impl"] += len(lines)
    crashes = 0
    pending = []
    for i, l in enumerate(lines):
        h = hout[i] if i < len(hout) else "MISSING"
        m = mout[i] if i < len(mout) else "MISSING"
        bad = None
        found = False
        if h.startswith("CRASH") or h == "MISSING":
            bad = "%s: implementation crashed: %s" % (label, h)
            found = True
            crashes += 1
        else:
            why = oracle(l, h) if oracle else None
            if not why and " ts=FUEL" in h:
                why = ("the reading loop does not terminate: sbdf_ts_read / sbdf_ts_skip returned OK more often than the "
                       "input has bytes (the stream is not moving forward)")
            if why:
                bad = "%s: property fails on the implementation: %s" % (label, why)
                found = True
            else:
                ph, pm = (project(h), project(m)) if project else (h, m)
                if ph != pm and model_is_spec:
                    # the compared observables are exactly the API results the property speaks of, and
                    # the model is proved to be the specification of those results
                    bad = "%s: observable results differ from those of the specification the model is proved to implement" % label
                    found = True
                elif ph != pm:
                    bad = "%s: correspondence model/implementation differs (no property oracle failed on this input)" % label
        if bad:
            if found:
                ctx.found_input = True
            pending.append((not found, len(l), i, bad, found, l, h, m))
    # report the smallest failing inputs first (those with a failing property oracle before mere
    # model/implementation differences): the replay is the shortest scenario that failed
    pending.sort()
    res.cov.setdefault("failing_inputs_seen", 0)
    res.cov["failing_inputs_seen"] += len(pending)
    for _, _, _, bad, found, l, h, m in pending[:max_report]:
        res.violation(bad, [l], found_input=found,
                      extra=["implementation: " + h[:3000], "model:          " + m[:3000]])
    return hout, mout


def run_corpus(res, ctx):
    """minimised past failures (the replays of the repaired defects) run first"""
    path = os.path.join(ROOT, "corpus", ctx.pid + ".txt")
    if not os.path.exists(path):
        return
    lines = [l.rstrip("\n") for l in open(path) if l.strip() and not l.startswith("#")]
    project = status_class if ctx.pid in ("C05",) else None
    known = [k for k in core.load_known() if k.get("kind") == "known" and k.get("property") == ctx.pid]
    hout, mout = compare(res, ctx, lines, "regression corpus (replays of repaired defects)", project=project,
                         rule="corpus/%s.txt: the inputs on which the defects listed in known_findings.json were found" % ctx.pid)
    res.cov["corpus_lines"] = len(lines)
    for k in known:
        res.known.append(k.get("what", ""))


def finish_broken(res, ctx):
    """a broken proof obligation with no failing input found is still a violation"""
    if ctx.broken and not ctx.found_input:
        res.violation("proof obligation no longer checks: " + " || ".join(ctx.broken)[:3000], None, found_input=False,
                      extra=ctx.broken)
    elif ctx.broken:
        res.notes.append("broken obligations: " + " || ".join(ctx.broken)[:2000])


# ----------------------------------------------------------------------------- C16

def enc7(n):
    out = bytearray()
    while True:
        if n > 0x7F:
            out.append((n & 0x7F) | 0x80)
            n >>= 7
        else:
            out.append(n)
            return bytes(out)


def s32(n):
    return n - (1 << 32) if n >= (1 << 31) else n


def oracle_c16(line, h):
    t = line.split()
    if t[0] != "c16":
        return None
    n = int(t[1])
    m = re.match(r"w7=0:(\w+) len7=(\d+) r7=0:(-?\d+):(\d+) w32=0:(\w+) r32=0:(-?\d+)$", h)
    if not m:
        return "unexpected output " + h
    w7, l7, r7, p7, w32, r32 = m.groups()
    if w7 != enc7(n).hex():
        return "7-bit groups of %d are %s, expected %s" % (n, w7, enc7(n).hex())
    if n < (1 << 31) and int(l7) != len(enc7(n)):
        return "sbdf_get_7bitpacked_len(%d)=%s but the writer emits %d bytes" % (n, l7, len(enc7(n)))
    if int(r7) != s32(n) or int(p7) != len(enc7(n)):
        return "7-bit read back %s (pos %s) for %d" % (r7, p7, n)
    if w32 != n.to_bytes(4, "little").hex() or int(r32) != s32(n):
        return "int32 %d written as %s read back %s" % (n, w32, r32)
    return None


def check_c16(res, ctx):
    r = ctx.rng
    vals = set()
    for k in range(33):
        for d in range(-64, 65):
            v = (1 << k) + d
            if 0 <= v < (1 << 32):
                vals.add(v)
    for _ in range(3000 if ctx.tier == "quick" else 50000):
        vals.add(r.getrandbits(r.choice([7, 8, 14, 15, 21, 22, 28, 29, 31, 32])))
    lines = ["c16 %d" % v for v in sorted(vals)]
    compare(res, ctx, lines, "c16 single values", oracle=oracle_c16,
            rule="every power-of-two neighbourhood (±64) and random 32-bit values; all distinct values count")
    # hostile group sequences
    hs = []
    for _ in range(400):
        n = r.randrange(1, 9)
        b = bytes((r.getrandbits(8) | (0x80 if r.random() < 0.7 else 0)) for _ in range(n))
        hs.append("r7 " + b.hex())
    hs += ["r7 ffffffffff01", "r7 8080808080", "r7 ffffffff7f", "r7 80808080800000", "r7 -", "r7 80"]
    # the fifth group: its low four bits are the last bits of a 32-bit value, anything above is out of range
    for g5 in list(range(0, 0x20)) + [0x3f, 0x40, 0x70, 0x7f]:
        for pre in ("80808080", "ffffffff", "83808080", "85a0c0f0"):
            hs.append("r7 %s%02x" % (pre, g5))

    def oracle_r7(line, h):
        b = bytes.fromhex(line.split()[1]) if line.split()[1] != "-" else b""
        # over-long (continuation on the fifth byte) must be refused
        if len(b) == 5 and all(x & 0x80 for x in b[:4]) and 0x10 <= b[4] < 0x80 and not h.startswith("r7=-21"):
            return "a fifth group carrying bits beyond the 32nd was not refused with invalid-size: " + h
        if len(b) >= 5 and all(x & 0x80 for x in b[:5]) and h.startswith("r7=0"):
            return "over-long group sequence %s accepted: %s" % (b.hex(), h)
        return None
    compare(res, ctx, hs, "c16 reader on arbitrary group sequences", oracle=oracle_r7)
    # digest mode over whole ranges
    if ctx.tier == "quick":
        hi, parts = 1 << 22, 32
        ranges = [(i * (hi // parts), (i + 1) * (hi // parts), 1) for i in range(parts)]
        ranges += [(r.randrange(1 << 32), 1 << 32, 1 << 14) for _ in range(4)]
    else:
        parts = 256
        step = (1 << 32) // parts
        ranges = [(i * step, (i + 1) * step, 1) for i in range(parts)]
    dl = ["c16d %d %d %d" % x for x in ranges]
    t0 = time.time()
    hout = core.run_driver(ctx.h(), dl, jobs=core.NCPU, timeout=7200)
    mout = core.run_driver(ctx.model, dl, jobs=core.NCPU, timeout=7200)
    total = 0
    for l, h, m in zip(dl, hout, mout):
        mm = re.match(r"n=(\d+) ", h)
        total += int(mm.group(1)) if mm else 0
        if h != m:
            # bisect to a single value
            lo, hi_, st = [int(x) for x in l.split()[1:]]
            while (hi_ - lo + st - 1) // st > 1:
                cnt = (hi_ - lo + st - 1) // st
                mid = lo + (cnt // 2) * st
                q = "c16d %d %d %d" % (lo, mid, st)
                a = core.run_driver(ctx.h(), [q])[0]
                b = core.run_driver(ctx.model, [q])[0]
                if a != b:
                    hi_ = mid
                else:
                    lo = mid
            q = "c16 %d" % lo
            a = core.run_driver(ctx.h(), [q])[0]
            b = core.run_driver(ctx.model, [q])[0]
            why = oracle_c16(q, a) if not a.startswith("CRASH") else a
            ctx.found_input = ctx.found_input or bool(why)
            res.violation("digest range %s differs; bisected to %s: %s" % (l, q, why or "model/implementation differ"),
                          [q], found_input=bool(why), extra=["implementation: " + a, "model: " + b])
    res.cov["evaluations"] += total
    res.cov["digest_values"] = total
    res.cov["digest_ranges"] = dl[:3] + ["..."]
    res.cov["exhaustive"] = ctx.tier != "quick"
    res.cov["rule"] += " | digest mode: 64-bit hash of the canonical output of every value in a range, model vs code (%s)" % (
        "all values below 2^22 + strided samples" if ctx.tier == "quick" else "the complete 2^32 domain")


# ----------------------------------------------------------------------------- C15

def oracle_c15(line, h):
    t = line.split()
    if t[0] == "strcmp":
        a = bytes.fromhex(t[1]) if t[1] != "-" else b""
        b = bytes.fromhex(t[2]) if t[2] != "-" else b""
        exp = (a > b) - (a < b)
        if h != "str=%d ba=%d" % (exp, exp):
            return "compare(%s,%s) gives '%s', lexicographic byte order says %d" % (t[1], t[2], h, exp)
    elif t[0] == "strmk":
        a = bytes.fromhex(t[1]) if t[1] != "-" else b""
        c = ref.cstr(a)
        exp = "len=%d %s copy=%d %s cstr=%d %s ba=%d %s" % (len(a), (a + b"\0").hex(), len(a), (a + b"\0").hex(),
                                                          len(c), (c + b"\0").hex(), len(a), core.hexs(a))
        if h != exp:
            return "create/copy of %s gives '%s' expected '%s'" % (t[1], h, exp)
    elif t[0] == "objeq":
        # objeq OBJ OBJ
        def obj(i):
            tid, n = int(t[i]), int(t[i + 1])
            return (tid, tuple(t[i + 2:i + 2 + n])), i + 2 + n
        a, j = obj(1)
        b, _ = obj(j)
        exp = "eq=%d rev=%d self=1 copy=1" % (a == b, a == b)
        if h != exp:
            return "sbdf_obj_eq gives '%s', content equality says '%s'" % (h, exp)
    return None


def check_c15(res, ctx):
    r = ctx.rng
    alpha = [0, 1, 0x7F, 0x80, 0xFF]
    L = 3 if ctx.tier == "quick" else 4
    strs = [b""]
    cur = [b""]
    for _ in range(L):
        cur = [c + bytes([x]) for c in cur for x in alpha]
        strs += cur
    lines = []
    if ctx.tier == "quick":
        pairs = [(a, b) for a in strs for b in strs if len(a) + len(b) <= 5]
    else:
        pairs = [(a, b) for a in strs for b in strs if len(a) + len(b) <= 7]
    for a, b in pairs:
        lines.append("strcmp %s %s" % (core.hexs(a), core.hexs(b)))
    for _ in range(2000):
        a = gen.rstr(r)
        b = a if r.random() < 0.2 else (a[:r.randrange(len(a) + 1)] + gen.rbytes(r, r.randrange(3)))
        lines.append("strcmp %s %s" % (core.hexs(a), core.hexs(b)))
    for a in strs[:200]:
        lines.append("strmk " + core.hexs(a))
    for _ in range(300):
        lines.append("strmk " + core.hexs(gen.rstr(r, big=True)))
    compare(res, ctx, lines, "c15 string/bytearray helpers", oracle=oracle_c15,
            rule="all pairs of byte strings over {00,01,7f,80,ff} up to the length bound (exhaustive) + random long strings; create/copy of every string",
            nontrivial=lambda l: l.split()[1] != l.split()[-1])
    ol = []
    for _ in range(3000 if ctx.tier == "quick" else 150000):
        a = gen.robj(r, n=r.choice([0, 1, 2, 3, 5, 9]), runs=False)
        k = r.random()
        b = ref.Obj(a.tid, list(a.elems))
        if k < 0.3:
            pass
        elif k < 0.6 and b.elems:
            i = r.randrange(len(b.elems))
            e = bytearray(b.elems[i])
            if e and (r.random() < 0.7 or not ref.is_arr(a.tid)):
                e[r.randrange(len(e))] ^= 1 << r.randrange(8)
            elif ref.is_arr(a.tid):
                e = e + b"\0" if r.random() < 0.5 else e[:-1]
            b.elems[i] = bytes(e)
        elif k < 0.75:
            b = gen.robj(r, tid=a.tid, n=len(a.elems), runs=False)
        elif k < 0.85:
            b.elems = b.elems[:-1] if b.elems and r.random() < 0.5 else b.elems + [gen.relem(r, a.tid)]
        else:
            t2 = r.choice([t for t in ref.ALL_TIDS if ref.SIZES.get(t) == ref.SIZES.get(a.tid) and t != a.tid] or [a.tid])
            b = ref.Obj(t2, list(a.elems))
        ol.append("objeq %s %s" % (a.script(), b.script()))
    compare(res, ctx, ol, "c15 object equality", oracle=oracle_c15,
            rule="pairs of objects of all types: identical, one element/bit/length changed, other type of the same size, other count")
    # "keep their stated length and all bytes through create and copy": string/binary objects built
    # from buffers that continue past the stated length (empty elements, embedded NULs), dumped,
    # written and read back
    cl = []
    for _ in range(400 if ctx.tier == "quick" else 6000):
        tid = r.choice([10, 12])
        n = r.choice([1, 1, 2, 3, 5])
        els = [r.choice([b"", b"", b"a", b"ab\0c", b"\0", b"\0\0", gen.rstr(r)]) for _ in range(n)]
        cl.append("oarr " + ref.Obj(tid, els).script())

    def oracle_keep(l, h):
        t = l.split()
        tid, n = int(t[1]), int(t[2])
        want = ",".join(t[3:3 + n])
        m = re.search(r" ra=0@\d+:%d:%d:([0-9a-f,\-]*):eq=(-?\d+)" % (tid, n), h)
        if not m:
            return None     # squashed or failed: left to the model comparison
        if m.group(1) != want:
            return "an object created from elements of stated lengths does not hold exactly those bytes: got %s" % m.group(1)[:120]
        return None
    compare(res, ctx, cl, "c15 create keeps stated length and bytes", oracle=oracle_keep,
            rule="string/binary objects of 1..5 elements (empty, embedded NUL, random) created from buffers that continue past each stated length; content after create, write and read",
            nontrivial=lambda l: " - " in l + " ", model_is_spec=True)


# ----------------------------------------------------------------------------- C19

def oracle_c19(line, h):
    t = line.split()
    s = bytes.fromhex(t[1]) if t[1] != "-" else b""
    m = re.match(r"size=(-?\d+) written=(-?\d+) out=(\S+)$", h)
    if not m:
        return "unexpected output " + h
    size, written, out = int(m.group(1)), int(m.group(2)), (bytes.fromhex(m.group(3)) if m.group(3) != "-" else b"")
    if size != written:
        return "length-only call returned %d, converting call wrote %d" % (size, written)
    if not out.endswith(b"\0"):
        return "output not terminated"
    body = out[:-1]
    s = ref.cstr(s)
    if t[0] == "i2u":
        try:
            if body.decode("utf-8").encode("latin-1") != s:
                return "ISO-8859-1 -> UTF-8 of %s gives %s" % (s.hex(), body.hex())
        except Exception as e:
            return "ISO-8859-1 -> UTF-8 of %s is not well-formed UTF-8: %s" % (s.hex(), body.hex())
    else:
        try:
            u = s.decode("utf-8")
            exp = bytes((ord(c) if ord(c) < 256 else 0x1A) for c in u)
            if body != exp:
                return "UTF-8 -> ISO-8859-1 of well-formed %s gives %s expected %s" % (s.hex(), body.hex(), exp.hex())
        except UnicodeDecodeError:
            pass
    return None


def check_c19(res, ctx):
    r = ctx.rng
    lines = []
    for a in range(1, 256):
        lines.append("u2i %02x" % a)
        lines.append("i2u %02x" % a)
    if ctx.tier == "quick":
        seconds = list(range(1, 256))
        firsts = list(range(1, 256))
    else:
        seconds = firsts = list(range(1, 256))
    for a in firsts:
        for b in seconds:
            lines.append("u2i %02x%02x" % (a, b))
    for a in firsts:
        for b in seconds[::3] if ctx.tier == "quick" else seconds:
            lines.append("i2u %02x%02x" % (a, b))
    # round trip through the real code: latin1 -> utf8 -> latin1
    special = [0xC0, 0xC2, 0xC3, 0xDE, 0xDF, 0xE0, 0xEF, 0xF0, 0xF4, 0xFF, 0x80, 0xBF, 0x41, 0x7F, 0x1A]
    for _ in range(4000 if ctx.tier == "quick" else 200000):
        n = r.randrange(0, 12)
        b = bytearray(r.choice(special) if r.random() < 0.6 else r.randrange(1, 256) for _ in range(n))
        lines.append("u2i " + core.hexs(bytes(b)))
        lines.append("i2u " + core.hexs(bytes(b)))
        # well-formed UTF-8 with code points around 0x7f/0x80/0xff/0x100/0x7ff/0x800
        u = "".join(chr(r.choice([0x41, 0x7F, 0x80, 0xA0, 0xFF, 0x100, 0x7FF, 0x800, 0xFFFF, 0x10000, r.randrange(1, 0x300)])) for _ in range(r.randrange(1, 6)))
        lines.append("u2i " + u.encode("utf-8").hex())
    # longer, mostly-ASCII strings with a few special bytes (block-wise fast paths, boundaries)
    for _ in range(3000 if ctx.tier == "quick" else 150000):
        n = r.choice([7, 8, 9, 15, 16, 17, 24, 33, 64])
        b = bytearray(r.choice(b"abcxyz019 \x01\x7f") for _ in range(n))
        for _ in range(r.choice([1, 1, 2, 3])):
            b[r.randrange(n)] = r.choice([0x80, 0x81, 0xBF, 0xC2, 0xC3, 0xE9, 0xFF, 0xC0, 0xDF, 0xE0])
        lines.append("u2i " + bytes(b).hex())
        lines.append("i2u " + bytes(b).hex())
    if ctx.tier != "quick":
        for a in [0xC2, 0xC3, 0xDE, 0xDF, 0xE0, 0x41, 0x80]:
            for b in range(1, 256):
                for c in range(1, 256):
                    lines.append("u2i %02x%02x%02x" % (a, b, c))
    compare(res, ctx, lines, "c19 charset helpers", oracle=oracle_c19, model_is_spec=True,
            rule="all strings over 1..255 of length 1 and 2 (exhaustive for UTF-8->Latin-1), random strings biased to lead/continuation bytes at the end, longer mostly-ASCII strings (7..64 bytes) with sprinkled lead/continuation/Latin-1 bytes, well-formed UTF-8 around the code-point boundaries; each on an exactly-sized heap buffer under ASan")
    res.cov["exhaustive"] = False


# ----------------------------------------------------------------------------- generated-table witnesses (C18, C20, C09)

def parse_gen_pairs(fname, defname):
    txt = open(os.path.join(LEAN, "Sbdf", "Gen", fname)).read()
    m = re.search(r"def %s\b[^\n]*:=\s*\[(.*?)\n?\]" % defname, txt, re.S)
    if not m:
        return []
    return re.findall(r'\("((?:[^"\\]|\\.)*)",\s*"((?:[^"\\]|\\.)*)"', m.group(1))


def c20_allowed():
    txt = open(os.path.join(LEAN, "Sbdf", "Props", "C20.lean")).read()
    m = re.search(r"def allowed : List String :=\s*\[(.*?)\]", txt, re.S)
    return set(re.findall(r'"([^"]+)"', m.group(1)))


def check_c20(res, ctx):
    syms = parse_gen_pairs("Surface.lean", "undefinedSyms")
    allowed = c20_allowed()
    bad = [(o, s) for o, s in syms if s not in allowed]
    res.add_cases(["%s:%s" % x for x in syms], rule="every (object, undefined external symbol) pair of the library as compiled from the working tree (complete surface, not a sample)")
    res.cov["exhaustive"] = True
    res.cov["surface"] = sorted(set(s for _, s in syms))
    for o, s in bad:
        ctx.found_input = True
        res.violation("object %s refers to external symbol '%s', which is outside the passive family (process, std stream, file system, environment, clock, locale or random access)" % (o, s),
                      ["# witness: nm -u of %s compiled from /repo/src lists %s" % (o, s)], found_input=True)
    asm = parse_gen_pairs("Surface.lean", "asmUses")
    for f, k in asm:
        ctx.found_input = True
        res.violation("inline assembly (%s) in %s" % (k, f), ["# witness: %s in %s" % (k, f)], found_input=True)
    traps = parse_gen_pairs("Surface.lean", "trapInsns")
    res.cov["trap_instructions"] = len(traps)
    if traps:
        # the theorem no_trap_instructions no longer holds: look for an input that reaches one
        # (the process is then killed by a signal the library raised itself)
        r = ctx.rng
        lines = []
        for _ in range(1500 if ctx.tier == "quick" else 20000):
            b = bytes(gen.rphys(r).encode().b)
            if r.random() < 0.5:
                b = gen.mutate_random(r, b)[0]
            lines.append("frw %s -" % b.hex())
        for _ in range(500):
            lines.append("full va %d %s" % (r.choice([0, 1, 2, 3]), gen.robj(r).script()))
        hout = core.run_driver(ctx.h(), lines)
        hit = [(l, h) for l, h in zip(lines, hout) if h.startswith("CRASH") and re.search(r"ILL|TRAP|Illegal|rc=-4\b|rc=-5\b|rc=132|rc=133", h)]
        if hit:
            ctx.found_input = True
            l, h = min(hit, key=lambda x: len(x[0]))
            res.violation("the library stops the process by itself (%s in %s) on this input: %s" % (traps[0][1], traps[0][0], h[:200]),
                          [l], found_input=True)


def check_c18(res, ctx):
    txt = open(os.path.join(LEAN, "Sbdf", "Gen", "Globals.lean")).read()
    rows = re.findall(r'\("([^"]+)", "([^"]+)", "([^"]+)", (true|false), \[(.*?)\]\)', txt)
    cases = []
    for f, name, storage, const, refs in rows:
        for fn, kind in re.findall(r'\("([^"]+)", "([^"]+)"\)', refs):
            cases.append("%s:%s (%s) referenced in %s as %s" % (f, name, storage, fn, kind))
            if kind not in ("read", "constarg", "unevaluated") and const != "true":
                ctx.found_input = True
                res.violation("variable %s in %s (%s) is accessed in %s with access kind '%s': mutable shared state" % (name, f, storage, fn, kind),
                              ["# witness: clang AST of %s: reference to %s in %s is neither a read nor an address passed to a const parameter" % (f, name, fn)],
                              found_input=True)
        if storage != "file-scope" and const != "true":
            ctx.found_input = True
            res.violation("function-local static variable %s in %s" % (name, f), ["# witness: %s:%s" % (f, name)], found_input=True)
    res.add_cases(cases or ["(no static-storage variables)"], rule="every reference to every static-storage variable of src/*.c (complete, from the clang AST)")
    # runtime part: real interleavings under ThreadSanitizer, outputs equal to the sequential model
    r = ctx.rng
    lines = []
    n = 160 if ctx.tier == "quick" else 1200
    for i in range(n):
        k = i % 4
        if k == 0:
            lines.append("rt " + gen.rtable(r, small=True).script())
        elif k == 1:
            lines.append("va %d %s" % (r.choice([0, 1, 2, 3]), gen.robj(r).script()))
        elif k == 2:
            lines.append(gen.rhistory(r, 20))
        else:
            lines.append("frw %s -" % gen.rphys(r).encode().b.hex())
    hx = ctx.h("tsan")
    mout = core.run_driver(ctx.model, lines)
    nthreads = 8
    reports = 0
    rounds = 2 if ctx.tier == "quick" else 6
    for rd in range(rounds):
        p = subprocess.run([hx, "--threads", str(nthreads)], input="\n".join(lines) + "\n", stdout=subprocess.PIPE,
                           stderr=subprocess.PIPE, text=True, env=core.ENV, timeout=1800)
        hout = p.stdout.split("\n")
        err = clean(p.stderr)
        if "ThreadSanitizer" in err:
            reports += 1
            m = re.search(r"WARNING: ThreadSanitizer: (.*?)\n(.*?)(?:\n\n|$)", err, re.S)
            in_src = "/src/" in err
            ctx.found_input = True
            res.violation("ThreadSanitizer report while %d threads ran independent workloads%s: %s" % (
                nthreads, " (frame in the library)" if in_src else "", (m.group(0) if m else err)[:1500]), lines[:nthreads * 2], found_input=True)
            break
        bad = [i for i in range(len(lines)) if i >= len(hout) or hout[i] != mout[i]]
        if bad or p.returncode != 0:
            i = bad[0] if bad else 0
            ctx.found_input = True
            res.violation("a thread obtained a result different from the sequential run (rc=%d)" % p.returncode, [lines[i]], found_input=True,
                          extra=["concurrent: " + (hout[i] if i < len(hout) else "MISSING")[:2000], "sequential model: " + mout[i][:2000]])
            break
    res.add_cases(lines, rule="%d rounds x %d threads x mixed workloads (table round trips, value arrays, metadata histories, foreign-stream reads) under ThreadSanitizer; per-line outputs equal to the sequential model" % (rounds, nthreads))
    res.cov["tsan_rounds"] = rounds
    res.cov["tsan_reports"] = reports
    res.cov["explanation"] = ("Lean: non-interference theorem for threads with disjoint private state over immutable shared data + decide over the "
                              "regenerated table of static-storage variable accesses and the external symbol surface. Runtime part (real interleavings) "
                              "sampled under ThreadSanitizer; data-race freedom of the C code itself is not proved.")


# ----------------------------------------------------------------------------- C02

def strip_bytes(x):
    x = re.sub(r",w=-?\d+:[^ ,)]*", "", x)
    x = re.sub(r"@\d+", "", x)
    x = re.sub(r" len=\d+", "", x)
    return x


def parse_va_dump(txt):
    """rows=N,vals=ST[:tid:count:e,e,..]  -> (rows, st, tid, [elems]) from a `full` dump"""
    m = re.match(r"rows=(-?\d+),vals=(-?\d+)(?::(\d+):(\d+):([^, ]*(?:,[^, =]*)*))?", txt)
    if not m:
        return None
    rows, st = int(m.group(1)), int(m.group(2))
    if st != 0:
        return rows, st, None, None
    tid, cnt = int(m.group(3)), int(m.group(4))
    body = m.group(5)
    # elements are comma separated up to ",w="
    body = body.split(",w=")[0]
    elems = body.split(",") if cnt > 0 else []
    return rows, st, tid, elems[:cnt]


def oracle_c02(line, h):
    t = line.split()
    t = [x for x in t if x != "full"]
    enc = int(t[1])
    tid, n = int(t[2]), int(t[3])
    elems = t[4:4 + n]
    if tid not in ref.ALL_TIDS:
        if h != "obj=-3":
            return "unknown type id %d: '%s' (expected the unknown-typeid status and no object)" % (tid, h)
        return None
    if enc not in (0, 1, 2, 3):
        if h != "create=-5 live=0":
            return "unknown encoding id %d: '%s' (expected the unknown-encoding status and no array)" % (enc, h)
        return None
    m = re.match(r"create=0 (\S+) rd=0\S*?:(\S+) sk=(\S+) len=\d+ live=(-?\d+)$", h)
    if not m:
        return "unexpected output: " + h[:300]
    bit = enc == 3 or (enc == 0 and tid == 1)
    exp = elems
    etid = tid
    if bit:
        etid = 1
        exp = [("01" if (ref.is_arr(tid) or any(c != "0" for c in e.replace("-", ""))) else "00") for e in elems]
    for what, d in (("decoded", m.group(1)), ("decoded after write+read", m.group(2))):
        pv = parse_va_dump(d)
        if pv is None:
            return "cannot parse " + d[:200]
        rows, st, gt, ge = pv
        if rows != n:
            return "%s: row count %d for %d values" % (what, rows, n)
        if st != 0:
            return "%s: sbdf_va_get_values failed with %d" % (what, st)
        if gt != etid or ge != exp:
            k = next((i for i in range(min(len(ge), len(exp))) if ge[i] != exp[i]), min(len(ge), len(exp)))
            return "%s: values differ from the input at index %d (got %d values of type %d)" % (what, k, len(ge), gt)
    if m.group(4) != "0":
        return "leak: live=" + m.group(4)
    return None


def check_c02(res, ctx):
    r = ctx.rng
    lines = []
    nq = 2500 if ctx.tier == "quick" else 120000
    for _ in range(nq):
        o = gen.robj(r, big=r.random() < 0.03)
        enc = r.choice([0, 1, 2, 2, 3] if not ref.is_arr(o.tid) else [0, 1, 2, 2, 3])
        lines.append("full va %d %s" % (enc, o.script()))
    # run lengths 1..600 of every type class, lengths 0,1,7,8,9
    for tid in [1, 2, 3, 13, 10, 12]:
        for ln in list(range(0, 20)) + [255, 256, 257, 511, 512, 513, 600]:
            e = gen.relem(r, tid)
            lines.append("full va 2 %s" % ref.Obj(tid, [e] * ln).script())
            lines.append("full va 3 %s" % ref.Obj(tid, [e] * ln).script())
            f = gen.relem(r, tid)
            lines.append("full va 2 %s" % ref.Obj(tid, [e] * ln + [f] + [e] * (ln % 7)).script())
    for enc in [4, 7, -1, 255, 256, 99999]:
        lines.append("full va %d %s" % (enc, gen.robj(r, n=3).script()))
    # type ids the library does not know: the object constructors refuse them (UNKNOWN_TYPEID)
    for tid in [0, 11, 14, 99, 253, 255, 256, -1]:
        for enc in (0, 1, 2, 3):
            lines.append("full va %d %d 2 0102 0304" % (enc, tid))
    if ctx.tier != "quick":
        # exhaustive small scope: all arrays of length <= 7 over a 3-symbol alphabet per type class x encodings
        import itertools
        for tid, alpha in [(1, ["00", "01", "02"]), (2, ["00000000", "01000000", "00000080"]), (10, ["-", "61", "6100"]),
                           (12, ["-", "00", "0000"]), (13, ["00" * 16, "01" + "00" * 15, "00" * 15 + "80"])]:
            for ln in range(0, 8):
                for combo in itertools.product(alpha, repeat=ln):
                    for enc in (1, 2, 3):
                        lines.append("full va %d %d %d %s" % (enc, tid, ln, " ".join(combo)))
    # long arrays (beyond any internal staging size one might introduce: 16384, 65536 elements),
    # all values distinct / long runs, every fixed-size width; compared through the digests
    longl = []
    for tid in (2, 3, 13, 1, 254 if 254 in ref.ALL_TIDS else 4):
        sz = ref.SIZES[tid]
        for n in ([16385, 66000] if ctx.tier == "quick" else [16384, 16385, 32769, 65537, 100001, 1048577]):
            for enc in (1, 2):
                if tid == 1:
                    els = ["%02x" % ((i * 7 // 3) % 2) for i in range(n)]
                else:
                    els = [((i * 2654435761) % (1 << (8 * min(sz, 8)))).to_bytes(min(sz, 8), "little").hex() + "00" * (sz - min(sz, 8))
                           for i in range(n)]
                # (above the default allocation cap of the shim and the model: raise both)
                longl.append("%sva %d %d %d %s" % ("cap=200000000 " if n * sz > 8000000 else "", enc, tid, n, " ".join(els)))
    for tid in ref.ALL_TIDS:
        if ref.is_arr(tid):
            continue
        sz = ref.SIZES[tid]
        base = gen.rbytes(r, sz) if tid != 1 else b"\1"
        for pos in range(sz):
            for bit in (1, 0x80):
                other = bytearray(base)
                other[pos] ^= bit
                other = bytes(other)
                for enc in (1, 2, 3):
                    lines.append("full va %d %s" % (enc, ref.Obj(tid, [base, base, other, other, base, other]).script()))
        # values with exactly one non-zero byte (zero test of the bit packer, width by width)
        zero = b"\0" * sz
        for pos in range(sz):
            e = bytearray(zero)
            e[pos] = r.choice([1, 0x80, 0xff])
            e = bytes(e)
            for enc in (1, 2, 3):
                lines.append("full va %d %s" % (enc, ref.Obj(tid, [zero, e, e, zero, e]).script()))
    compare(res, ctx, longl, "c02 long arrays",
            oracle=lambda l, h: None if re.search(r" live=0$", h) and " rd=0" in h else "long array did not round-trip: " + h[:200],
            rule="arrays of 16385..100001 distinct fixed-size values (1/4/8/16-byte types), plain and run-length: create, decode, write, read, decode; digests of model and implementation compared",
            nontrivial=lambda l: True)
    compare(res, ctx, lines, "c02 value-array encodings", project=strip_bytes, oracle=oracle_c02,
            rule="arrays of all 12 types with steered run structure (all-equal, independent, alternating, runs 1..600), lengths 0/1/7/8/9/255..257/511..513/600, every encoding incl. unknown ids; thorough adds all arrays of length<=7 over 3-symbol alphabets",
            nontrivial=lambda l: int(l.split()[4]) > 1)


# ----------------------------------------------------------------------------- C10 / C11 / C12 (histories)

def check_c10(res, ctx):
    r = ctx.rng
    lines = []
    nq = 4000 if ctx.tier == "quick" else 80000
    for i in range(nq):
        lines.append(gen.rhistory(r, r.choice([5, 10, 30, 80, 200]) if i % 7 else 200, small=(i % 3 == 0)))
    if ctx.tier != "quick":
        import itertools
        ops = []
        for nm in ["61", "62"]:
            for v in ["2 1 01000000", "10 1 75"]:
                ops.append("add 0 %s %s 0" % (nm, v))
                ops.append("add 0 %s %s 1 %s" % (nm, v, v))
            ops += ["rm 0 %s" % nm, "get 0 %s" % nm, "getd 0 %s" % nm, "ex 0 %s" % nm]
        ops += ["cnt 0", "freeze 0", "copy 0 1", "copy 1 0", "add 1 61 2 1 02000000 0"]
        for depth in range(1, 5):
            for combo in itertools.product(ops, repeat=depth):
                lines.append("md new 0 new 1 " + " ".join(combo) + " dump 0 dump 1")
    compare(res, ctx, lines, "c10 metadata histories (observable results vs the insertion-ordered map the model is proved to be)",
            oracle=lambda l, h: ("leak or double accounting: " + h[-20:]) if not h.endswith("live=0") else None,
            rule="random operation sequences over 3 registers (create/add/add_str/add_int/remove/get/get_dflt/exists/cnt/copy/freeze/table-metadata creation), small and full alphabets, lengths 5..200; thorough adds all sequences to depth 4 over a 17-op alphabet",
            nontrivial=lambda l: l.count(" add") >= 2, model_is_spec=True)
    ctx.model_is_spec = True
    # metadata RETURNED BY THE READER is the same map: every name it lists is found by
    # sbdf_md_exists / sbdf_md_get / sbdf_md_get_dflt (the dump carries these probes), for
    # table-level and column metadata alike
    fl = []
    for _ in range(200 if ctx.tier == "quick" else 4000):
        t = gen.rtable(r, consistent=True, small=True, maxslices=1)
        if not t.tmd and r.random() < 0.8:
            t.tmd = gen.rmd(r, gen.NAMES, 3) or [(b"k", ref.Obj(2, [b"\1\0\0\0"]), None)]
        fl.append("fr %s -" % bytes(t.canon().encode().b).hex())

    def oracle_fr(l, h):
        # every probe of a listed name must succeed: gN (value) 0, eN (exists) 1
        if " tm=0:" not in h:
            return None
        for sec in re.findall(r"c\d+\[([^\]]*)\]", h):
            for item in sec.split(","):
                if item and not item.startswith("#") and not re.match(r"^g0:.*d(0|-\d+).*e1$", item):
                    return "a name listed by metadata the reader returned is not found by name (probe '%s')" % item[:80]
        return None
    # copying what the reader returned (table-level names may repeat there, entries may lack a value):
    # all entries or none
    cpl = []
    for _ in range(200 if ctx.tier == "quick" else 3000):
        p = gen.rphys_invalid(r) if r.random() < 0.7 else gen.rphys(r)
        cpl.append("radd %s 1" % bytes(p.encode().b).hex())
    compare(res, ctx, cpl, "c10 copies of metadata returned by the reader",
            oracle=lambda l, h: ("leak or double release: " + h[-20:]) if not h.endswith("live=0") else None,
            rule="foreign streams (repeated table-level and column names, names differing after an embedded NUL, unused names) read; sbdf_tm_create / sbdf_tm_add from the returned collections, written",
            nontrivial=lambda l: True, model_is_spec=True)
    compare(res, ctx, fl, "c10 lookups on metadata returned by the reader", oracle=oracle_fr,
            rule="files with table-level and column metadata read back; every listed name probed with sbdf_md_get / sbdf_md_get_dflt / sbdf_md_exists",
            nontrivial=lambda l: len(l) > 60, model_is_spec=True)


def rcs_line(r, nadds):
    tid = r.choice(ref.ALL_TIDS)
    rows = r.choice([0, 1, 3, 8])
    base = gen.robj(r, tid, rows)
    rows = len(base.elems)
    s = "cs %d %s %d" % (r.choice([0, 1, 2]), base.script(), nadds)
    names = [b"p%d" % i for i in range(max(2, nadds // 2))] + [b"IsInvalid", b"", b"p1\0x"]
    for i in range(nadds):
        n = r.choice(names) if r.random() < 0.4 else b"u%d" % i
        ptid = r.choice([1, 2, 10])
        prow = rows if r.random() < 0.85 else r.choice([rows + 1, max(0, rows - 1), 0, 9])
        po = gen.robj(r, ptid, prow, runs=False)
        po = ref.Obj(ptid, (po.elems + [gen.relem(r, ptid)] * prow)[:prow])
        s += " %s %d %s" % (core.hexs(n), r.choice([0, 1, 2, 3] if ptid == 1 else [0, 1, 2]), po.script())
    return s + " %d" % r.choice([0, 1, 2, 5, 12])


def check_c11(res, ctx):
    r = ctx.rng
    lines = [rcs_line(r, r.choice([0, 1, 2, 3, 5, 8, 12, 20, 40])) for _ in range(2500 if ctx.tier == "quick" else 40000)]
    lines += [rcs_line(r, 300) for _ in range(3 if ctx.tier == "quick" else 30)]
    compare(res, ctx, lines, "c11 column-slice histories",
            oracle=lambda l, h: ("leak: " + h[-20:]) if not h.endswith("live=0") else None,
            rule="sequences of property additions (matching/mismatching row counts, fresh/duplicate/NUL-truncated names, up to 300 additions crossing several capacity growth steps), lookups by name with identity of the returned array, table-slice appends",
            nontrivial=lambda l: " 9 " in l or True, model_is_spec=True)
    # appending to what the readers returned (their arrays are sized exactly, not by the capacity
    # rule): table metadata gets K more columns, the first column slice K more properties, the
    # slice K more column slices; then everything is written again
    rl = []
    for _ in range(150 if ctx.tier == "quick" else 3000):
        p = gen.rtable(r, consistent=True, maxcols=9, small=True).canon() if r.random() < 0.7 else gen.rphys(r, maxcols=9)
        rl.append("radd %s %d" % (bytes(p.encode().b).hex(), r.choice([1, 2, 3, 5, 9, 20])))
    compare(res, ctx, rl, "c11 appending to reader-built metadata and slices",
            oracle=lambda l, h: ("leak or double release: " + h[-20:]) if not h.endswith("live=0") else None,
            rule="files with 0..9 columns and 0..3 properties per column read back, then 1..20 columns / properties / column slices appended to the structures the readers returned (every count at and between the capacity steps), written again",
            nontrivial=lambda l: True, model_is_spec=True)
    # streams whose slice column count equals / differs from the metadata
    sl = []
    for _ in range(300 if ctx.tier == "quick" else 3000):
        p = gen.rphys(r)
        e = p.encode()
        f = [x for x in e.f if x["kind"] == "slicecols"]
        data = bytes(e.b)
        if f and r.random() < 0.7:
            fld = r.choice(f)
            b = bytearray(data)
            v = r.choice([0, 1, 2, 3, len(p.cols) + 1, max(0, len(p.cols) - 1), -1, 255])
            b[fld["off"]:fld["off"] + 4] = (v & 0xFFFFFFFF).to_bytes(4, "little")
            data = bytes(b)
        sl.append("fr %s -" % data.hex())

    def oracle_cols(l, h):
        m = re.search(r"tm=0:.*?N(\d+)", h)
        if not m:
            return None
        n = m.group(1)
        for mm in re.finditer(r" ts=0:S(\d+)\[", h):
            if mm.group(1) != n:
                return "a slice with %s columns was returned against metadata with %s columns" % (mm.group(1), n)
        return None
    compare(res, ctx, sl, "c11 slice column count vs metadata", oracle=oracle_cols,
            rule="reference-encoded streams with the slice column-count field kept or replaced")


# ----------------------------------------------------------------------------- tables: C01 C03 C04 C17 C08

def table_lines(ctx, n, kind="rt", prefix="", small=False, incons=0.08):
    r = ctx.rng
    out = []
    for i in range(n):
        t = gen.rtable(r, consistent=(r.random() >= incons), big=(i % 40 == 0), small=small)
        out.append((t, "%s%s %s" % (prefix, kind, t.script())))
    # column metadata the writer cannot fold, one table per way two columns can disagree on a shared
    # name (default present in one column only — either way round —, different defaults, different
    # types; the columns adjacent or one apart): must be refused with INCORRECT_METADATA
    nm = (b"Name", ref.Obj(10, [b"c"]), None)
    i1, i2 = ref.Obj(2, [b"\1\0\0\0"]), ref.Obj(2, [b"\2\0\0\0"])
    s1 = ref.Obj(10, [b"x"])
    for a, b in ([((b"Unit", i1, i1), (b"Unit", i1, None)), ((b"Unit", i1, None), (b"Unit", i1, i2)),
                  ((b"Unit", i1, i1), (b"Unit", i2, i2)), ((b"Unit", i1, None), (b"Unit", s1, None)),
                  ((b"Unit", s1, s1), (b"Unit", s1, None))] if incons > 0 else []):
        for mid in ([], [[nm]]):
            t = ref.Table([], [[nm, a]] + mid + [[nm, b]], [])
            out.append((t, "%s%s %s" % (prefix, kind, t.script())))
    if not small:
        # elements whose packed length crosses the 2-, 3- (and, thorough, 4-) group thresholds, in a
        # string or binary column of every encoding: byte-size header, length prefixes, skip distance
        lens = [16384, 16400, 32768 + 100, 2097152, 2097160] if ctx.tier == "quick" else \
               [16383, 16384, 16400, 16511, 16512, 32768 + 100, 2097151, 2097152, 2097160, 4194304 + 3, 16777216 + 5]
        for ln in lens:
            tid = r.choice([10, 12])
            big = (gen.rbytes(r, 61) * (ln // 61 + 1))[:ln]
            o = ref.Obj(tid, [big, b"x", big] if ln < 3000000 else [big])
            t = ref.Table([], [[(b"Name", ref.Obj(10, [b"c0"]), None)]], [[((r.choice([0, 1, 2]), o), [])]])
            out.append((t, "cap=100000000 %s%s %s" % (prefix, kind, t.script())))
        # a long column (more rows than any staging buffer): distinct values, plain and run-length
        for tid, n in ((2, 66000), (13, 17000)) if ctx.tier == "quick" else ((2, 70000), (3, 140000), (13, 33000), (2, 1100000)):
            sz = ref.SIZES[tid]
            o = ref.Obj(tid, [((i * 2654435761) % (1 << 32)).to_bytes(4, "little") + b"\0" * (sz - 4) for i in range(n)])
            t = ref.Table([], [[(b"Name", ref.Obj(10, [b"c0"]), None)], [(b"Name", ref.Obj(10, [b"c1"]), None)]],
                          [[((1, o), []), ((2, o), [])]])
            out.append((t, "%s%s %s" % (prefix, kind, t.script())))
    return out


def expected_rt(t, be=False, full=False, tail=""):
    """expected output of `rt TABLE` from the Python reference encoder alone"""
    if not t.consistent():
        return None
    p = t.canon()
    e = p.encode(be)
    b = bytes(e.b)
    s = "build=0 fh=0 tm=0 ts=%s end=0 bytes=%s | " % (",".join("0" for _ in p.slices), core.squash(core.hexs(b), 512, full))
    s += ref.dump_file(p, len(b), None, be, full)
    return s, b


def oracle_rt(tables, be=False, want="both"):
    def f(line, h):
        t = tables[line]
        exp = expected_rt(t, be)
        if exp is None:
            if not re.match(r"build=0 fh=0 tm=-9 bytes=\S+ live=0$", h):
                return "same-named column metadata disagree in type or default but the writer did not refuse with INCORRECT_METADATA: " + h[:200]
            return None
        es, eb = exp
        if " | " not in h:
            return "writer failed on a representable table: " + h[:300]
        hw, hr = h.split(" | ", 1)
        ew, er = es.split(" | ", 1)
        hr = re.sub(r" live=-?\d+$", "", hr)
        hr0 = hr.split(" rw:")[0]
        if want in ("both", "bytes") and hw != ew:
            return "bytes written differ from the reference SBDF 1.0 encoding (%s vs %s)" % (hw[-60:], ew[-60:])
        if want == "content":
            hr0, er = logical_view_md(hr0), logical_view_md(er)
        if want in ("both", "content") and hr0 != er:
            k = next((i for i in range(min(len(hr0), len(er))) if hr0[i] != er[i]), min(len(hr0), len(er)))
            return "content read back differs from what was written at dump offset %d: ...%s vs expected ...%s" % (k, hr0[max(0, k - 40):k + 60], er[max(0, k - 40):k + 60])
        if not h.endswith("live=0"):
            return "leak: " + h[-20:]
        return None
    return f


def check_c01(res, ctx, be=False, label="c01"):
    n = 1200 if ctx.tier == "quick" else 20000
    tl = table_lines(ctx, n)
    tables = {l: t for t, l in tl}
    lines = [l for _, l in tl]
    compare(res, ctx, lines, label + " write-then-read round trip", oracle=oracle_rt(tables, be, "content"),
            project=lambda x: logical_view_md(re.sub(r"bytes=\S+", "bytes=*", x)),
            variant="be" if be else "asan", margs=("--be",) if be else (),
            rule="random tables through the public API: 0..4 columns, 0..3 slices, row counts incl. 0/1/7..9/255..257/511..513/600, all 12 types, strings crossing 127/128 and 16383/16384 with embedded NULs, NaN payloads, ±0, every encoding per column and property, shared/sparse column metadata, ~8% with conflicting column metadata (error branch)",
            nontrivial=lambda l: len(l) > 200)
    # what the writer cannot represent: a slice that has fewer or more column slices than the table
    # metadata has columns could not be read back, so sbdf_ts_write has to refuse it (defect F26)
    r = ctx.rng
    ml = []
    where = {}
    for _ in range(150 if ctx.tier == "quick" else 3000):
        t = gen.rtable(r, consistent=True, maxslices=3, small=True)
        if not t.slices:
            continue
        j = r.randrange(len(t.slices))
        sl = t.slices[j]
        if sl and r.random() < 0.5:
            sl.pop(r.randrange(len(sl)))
        else:
            extra = sl[r.randrange(len(sl))] if sl else ((1, ref.Obj(2, [b"\1\0\0\0"])), [])
            for _ in range(r.choice([1, 1, 2])):
                sl.append(extra)
        l = "rt " + t.script()
        ml.append(l)
        where[l] = j

    def oracle_mismatch(l, h):
        j = where[l]
        if not re.match(r"build=0 fh=0 tm=0 ts=%s-19 bytes=\S+ live=0$" % ("0," * j), h):
            return "slice %d does not have the column count of the table metadata, but sbdf_ts_write did not refuse it with COLUMN_COUNT_MISMATCH: %s" % (j, re.sub(r"bytes=\S+", "bytes=*", h)[:200])
        return None
    compare(res, ctx, ml, label + " slices the writer cannot represent", oracle=oracle_mismatch,
            project=lambda x: re.sub(r"bytes=\S+", "bytes=*", x),
            variant="be" if be else "asan", margs=("--be",) if be else (),
            rule="tables one of whose slices has fewer or more column slices than the table metadata has columns: the write of that slice is refused with COLUMN_COUNT_MISMATCH, the slices before it are written",
            nontrivial=lambda l: True)


def check_c03(res, ctx):
    n = 1200 if ctx.tier == "quick" else 20000
    tl = table_lines(ctx, n)
    tables = {l: t for t, l in tl}
    lines = [l for _, l in tl]
    compare(res, ctx, lines, "c03 bytes vs reference encoder", oracle=oracle_rt(tables, False, "bytes"),
            project=lambda x: x.split(" | ")[0],
            rule="random tables as in C01; the bytes of every writer call are compared with the independent Python reference encoder and with the model",
            nontrivial=lambda l: len(l) > 200)
    # purity: the same table written after unrelated heap history gives the same bytes:
    # shuffle the scenario order and compare outputs per line
    sub = lines[:200]
    perm = list(sub)
    ctx.rng.shuffle(perm)
    a = dict(zip(sub, core.run_driver(ctx.h(), sub, jobs=1)))
    b = dict(zip(perm, core.run_driver(ctx.h(), perm, jobs=1)))
    for l in sub:
        if a[l] != b[l]:
            ctx.found_input = True
            res.violation("output depends on history: the same table gives different results in a different call order", [l], True,
                          extra=[a[l][:2000], b[l][:2000]])
            break
    res.cov["history_independence_pairs"] = len(sub)
    spec_selftest(res, ctx)


def spec_selftest(res, ctx):
    """the reference encoder regenerates the Spotfire-produced sample files byte for byte, and the
    model/implementation read them identically (a test of the reference, labelled as a test)"""
    import glob
    files = sorted(glob.glob(os.path.join(core.REPO, "tests", "samples", "*.sbdf")) + glob.glob(os.path.join(core.REPO, "tests", "*.sbdf")))
    lines = []
    small = []
    for f in files:
        b = open(f, "rb").read()
        if len(b) <= 200000:
            lines.append("frw %s -" % b.hex())
            small.append((f, b))
    hout = core.run_driver(ctx.h(), lines)
    mout = core.run_driver(ctx.model, lines)
    same = 0
    for (f, b), l, h, m in zip(small, lines, hout, mout):
        if h != m:
            res.violation("sample file %s: model and implementation read it differently" % os.path.basename(f), [l], False,
                          extra=[h[:1500], m[:1500]])
        else:
            same += 1
    res.cov["sample_files_read_identically"] = "%d/%d" % (same, len(small))


def check_c04(res, ctx, be=False):
    r = ctx.rng
    n = 1200 if ctx.tier == "quick" else 20000
    lines = []
    exp = {}
    for _ in range(n):
        p = gen.rphys(r)
        e = p.encode(be)
        b = bytes(e.b)
        l = "fr %s -" % b.hex()
        lines.append(l)
        exp[l] = ref.dump_file(p, len(b), None, be) + " live=0"

    for ln in ([128, 16384, 16400, 32768 + 100, 2097152, 2097160] if ctx.tier == "quick" else
               [128, 16383, 16384, 16400, 16511, 16512, 32768 + 100, 2097151, 2097152, 2097160, 4194304 + 3, 16777216 + 5]):
        tid = r.choice([10, 12])
        big = (gen.rbytes(r, 61) * (ln // 61 + 1))[:ln]
        va = ref.VA("plain", obj=ref.Obj(tid, [big, b"x"])) if r.random() < 0.5 else \
            ref.VA("rle", rows=3, runs=bytes([1, 0]), vals=ref.Obj(tid, [big, b"x"]))
        p = ref.Phys([], [(b"Name", 10, None)], [{b"Name": ref.Obj(10, [b"c0"])}], [[(va, [])]])
        e = p.encode(be)
        b = bytes(e.b)
        l = "cap=100000000 fr %s -" % b.hex()
        lines.append(l)
        exp[l] = ref.dump_file(p, len(b), None, be) + " live=0"

    def oracle(l, h):
        if h != exp[l]:
            er = exp[l]
            k = next((i for i in range(min(len(h), len(er))) if h[i] != er[i]), min(len(h), len(er)))
            return "decoded content differs from what the reference encoder encoded at dump offset %d: ...%s vs expected ...%s" % (
                k, h[max(0, k - 40):k + 60], er[max(0, k - 40):k + 60])
        return None
    compare(res, ctx, lines, "c04 reference-encoded streams", oracle=oracle, variant="be" if be else "asan",
            margs=("--be",) if be else (),
            rule="physical tables from the independent reference encoder: non-maximal and 256-runs, RLE/plain/bit booleans with any stored type byte, RLE strings/binaries, arbitrary property names and counts, name lists in any order with unused names, entries with and without defaults, DataType of length 1 or 3, several slices with different encodings",
            nontrivial=lambda l: len(l) > 120)


def check_c17(res, ctx):
    check_c01(res, ctx, be=True, label="c17(be)")
    check_c04(res, ctx, be=True)
    # "exactly once in each direction" also after a failed write: the objects are converted on the
    # way out and must still be in host order afterwards (a second write gives the same bytes)
    write_fault_stage(res, ctx, 12 if ctx.tier == "quick" else 120, 1200 if ctx.tier == "quick" else 8000, be=True)
    # the BE stream is the field-wise mirror of the LE one: same field map, numeric fields reversed
    r = ctx.rng
    mism = 0
    for _ in range(300):
        p = gen.rphys(r)
        le, be_ = p.encode(False), p.encode(True)
        if len(le.b) != len(be_.b) or [(f["off"], f["len"], f["kind"]) for f in le.f] != [(f["off"], f["len"], f["kind"]) for f in be_.f]:
            mism += 1
    res.cov["reference_mirror_checks"] = 300
    if mism:
        res.violation("reference encoder: BE and LE field maps differ", None, False)


def check_c08(res, ctx):
    n = 700 if ctx.tier == "quick" else 40000
    tl = table_lines(ctx, n, kind="rtw", incons=0.0)
    lines = [l for _, l in tl]

    def oracle_rw(l, h):
        m = re.match(r"build=0 fh=0 tm=0 ts=\S* ?end=0 bytes=(\S+) \| .* rw:fh=0 tm=0 ts=\S* ?end=0 bytes=(\S+) live=0$", h)
        if not m:
            return "read+rewrite did not complete: " + h[-200:]
        if m.group(1) != m.group(2):
            return "re-serialising what was read gives different bytes (%s vs %s)" % (m.group(1)[:40], m.group(2)[:40])
        return None
    compare(res, ctx, lines, "c08 rewrite of library-written files", oracle=oracle_rw,
            rule="random library-written tables (any encodings/metadata/slices): read, write back unchanged, compare bytes",
            nontrivial=lambda l: len(l) > 200)
    # default-encoded files: decode + default re-encode reproduces the file
    r = ctx.rng
    dl = []
    for _ in range(n // 2):
        t = gen.rtable(r, consistent=True)
        t.slices = [[((0, o), [(pn, (0, po)) for pn, (pe, po) in props]) for (e, o), props in sl] for sl in t.slices]
        dl.append("rtd " + t.script())

    def oracle_rd(l, h):
        m = re.match(r"build=0 fh=0 tm=0 ts=\S* ?end=0 bytes=(\S+) \| .* rd:fh=0 tm=0(?: ts=0)* end=0 bytes=(\S+) live=0$", h)
        if not m:
            return "decode + default re-encode did not complete: " + h[-200:]
        if m.group(1) != m.group(2):
            return "decode + default re-encode of a default-encoded file gives different bytes"
        return None
    compare(res, ctx, dl, "c08 decode and default re-encode", oracle=oracle_rd,
            rule="tables written with default encodings only: read, decode every column/property, re-encode with the default encoding, compare bytes")
    # foreign streams: rewrite fails or reads back to the same logical content
    fl = []
    for _ in range(n // 2):
        p = gen.rphys(r)
        fl.append("full frw %s -" % p.encode().b.hex())
    hout, mout = compare(res, ctx, fl, "c08 foreign streams: read, write", rule="reference-encoded foreign streams (layouts the writer never emits)")
    second = []
    firsts = []
    for l, h in zip(fl, hout):
        m = re.search(r" rw:fh=0 tm=0 ts=\S* ?end=0 bytes=(\S+) live=", h)
        if m and m.group(1) != "-":
            second.append("full fr %s -" % m.group(1))
            firsts.append((l, h))
    h2 = core.run_driver(ctx.h(), second)
    for (l, h), l2, hh in zip(firsts, second, h2):
        a = logical_view(h.split(" rw:")[0])
        b = logical_view(hh)
        if a != b:
            ctx.found_input = True
            res.violation("foreign stream: what was read is not stable under serialisation (second read differs in logical content)", [l, l2], True,
                          extra=[a[:1500], b[:1500]])
            break
    res.cov["foreign_second_reads"] = len(second)


def logical_view_md(h):
    """metadata entries of every list as a name-keyed set (sorted), accessor probes dropped"""
    h = re.sub(r"c\d+\[[^\]]*\]", "", h)

    def sortmd(m):
        items = [x for x in m.group(2).split(";") if x]
        return "m%s{%s}" % (m.group(1), ";".join(sorted(items)))
    return re.sub(r"m(\d)\{([^}]*)\}", sortmd, h)


def logical_view(h):
    """logical content of a read dump: drop positions, write-bytes of arrays (layout), probes;
    per-column metadata as a name-keyed set"""
    h = re.sub(r",w=-?\d+:[^ ,)]*", "", h)
    h = re.sub(r" pos=\S+", "", h)
    h = re.sub(r" live=-?\d+", "", h)
    h = re.sub(r"c\d+\[[^\]]*\]", "", h)

    def sortmd(m):
        items = [x for x in m.group(2).split(";") if x]
        return "m%s{%s}" % (m.group(1), ";".join(sorted(items)))
    h = re.sub(r"m(\d)\{([^}]*)\}", sortmd, h)
    return h


# ----------------------------------------------------------------------------- C06 truncation

def some_files(ctx, n, maxlen=None):
    """(bytes) of generated valid files: library-style canonical encodings and reference layouts"""
    r = ctx.rng
    out = []
    while len(out) < n:
        if r.random() < 0.5:
            t = gen.rtable(r, consistent=True, small=True)
            b = bytes(t.canon().encode().b)
        else:
            b = bytes(gen.rphys(r).encode().b)
        if maxlen and len(b) > maxlen:
            continue
        out.append(b)
    return out


def slices_of(h):
    return re.findall(r" ts=0:(\S+)", h)


def last_status(h):
    m = re.findall(r" (?:ts|tm)=(-?\d+|FUEL)", h)
    if m:
        return m[-1]
    m = re.match(r"fh=(-?\d+)", h)
    return m.group(1) if m else "?"


def check_c06(res, ctx):
    r = ctx.rng
    files = some_files(ctx, 60 if ctx.tier == "quick" else 400, maxlen=2000 if ctx.tier == "quick" else 20000)
    import glob
    samples = sorted(glob.glob(os.path.join(core.REPO, "tests", "samples", "*.sbdf")))
    for f in samples:
        b = open(f, "rb").read()
        if len(b) <= (3000 if ctx.tier == "quick" else 100000):
            files.append(b)
    lines = []
    groups = []
    for b in files:
        if len(b) <= 2000 or ctx.tier != "quick":
            cuts = list(range(len(b))) if len(b) <= 20000 else sorted(r.sample(range(len(b)), 256))
        else:
            cuts = sorted(r.sample(range(len(b)), 64))
        for sub in ("-",):
            start = len(lines)
            lines.append("fr %s %s" % (b.hex(), sub))
            for k in cuts:
                lines.append("fr %s %s" % (core.hexs(b[:k]), sub))
            groups.append((start, len(lines)))
    # a few with column subsets (skips may seek beyond the truncation point)
    for b in files[:20]:
        sub = "".join(r.choice("01") for _ in range(6))
        start = len(lines)
        lines.append("fr %s %s" % (b.hex(), sub))
        for k in sorted(r.sample(range(len(b)), min(len(b), 48))):
            lines.append("fr %s %s" % (core.hexs(b[:k]), sub))
        groups.append((start, len(lines)))
    # ... and on a stream that cannot seek, where a skip reads and drops (and fails at the cut itself)
    for b in files[:20 if ctx.tier == "quick" else 100]:
        sub = r.choice(["-", "".join(r.choice("01") for _ in range(6)), "000000"])
        pre = "pipe=%d " % r.choice([1, 2])
        start = len(lines)
        lines.append("%sfr %s %s" % (pre, b.hex(), sub))
        for k in sorted(r.sample(range(len(b)), min(len(b), 48))):
            lines.append("%sfr %s %s" % (pre, core.hexs(b[:k]), sub))
        groups.append((start, len(lines)))
    full_of = {}
    for a, z in groups:
        for i in range(a + 1, z):
            full_of[i] = a
    idx = {}
    hold = {}

    def oracle(l, h):
        return None
    hout, mout = compare(res, ctx, lines, "c06 truncated files",
                         rule="every byte offset of generated files (library-style and reference layouts) up to the size bound and of the Spotfire sample files, 64..256 random offsets of larger ones; plus column-subset reads, also through a FILE* that cannot seek (pipe=1|2)",
                         nontrivial=lambda l: len(l) > 40)
    bad = 0
    for i, a in full_of.items():
        h, hf = hout[i], hout[a]
        if h.startswith("CRASH") or hf.startswith("CRASH"):
            continue
        why = None
        if " ts=-1000" in h:
            why = "a strict prefix reached end-of-table"
        elif not last_status(h).startswith("-"):
            why = "a strict prefix did not end in an error (last status %s)" % last_status(h)
        else:
            sp, sf = slices_of(h), slices_of(hf)
            if sp != sf[:len(sp)]:
                why = "a slice returned before the error differs from the slice of the full file"
        if why and bad < 3:
            bad += 1
            ctx.found_input = True
            res.violation("c06: " + why, [lines[i], lines[a]], True, extra=[h[:1500]])
    res.cov["prefix_reads"] = len(full_of)


# ----------------------------------------------------------------------------- C07 skip / subset

def check_c07(res, ctx):
    r = ctx.rng
    lines = []
    for _ in range(1500 if ctx.tier == "quick" else 20000):
        o = gen.robj(r, big=r.random() < 0.03)
        lines.append("va %d %s" % (r.choice([0, 1, 2, 2, 3]), o.script()))

    for ln in ([16383, 16384, 2097151, 2097152, 2097160] if ctx.tier == "quick" else
               [16383, 16384, 2097151, 2097152, 2097160, 16777216, 33554432]):
        big = gen.rbytes(r, 64) * (ln // 64) + gen.rbytes(r, ln % 64)
        lines.append("cap=100000000 va 1 %d 3 61 %s 62" % (r.choice([10, 12]), big.hex()))

    def oracle_va(l, h):
        m = re.search(r" rd=0@(\d+):.* sk=(-?\d+)(?:@(\d+))? len=(\d+)", h)
        if not m:
            return None if "create=-" in h or h.startswith("obj=") else "unexpected: " + h[:200]
        if m.group(2) != "0":
            return "skip of a well-formed value array failed with " + m.group(2)
        if not (m.group(1) == m.group(3) == m.group(4)):
            return "full read ends at %s, skip at %s, the writer produced %s bytes (8 trailing bytes follow)" % (m.group(1), m.group(3), m.group(4))
        return None
    compare(res, ctx, lines, "c07 value-array skip vs read", oracle=oracle_va,
            rule="value arrays of every type and encoding followed by 8 trailing garbage bytes: end offset of read, of skip, and written length",
            nontrivial=lambda l: int(l.split()[3]) > 1)
    # column subsets
    sl = []
    exp = {}
    for _ in range(500 if ctx.tier == "quick" else 6000):
        p = gen.rphys(r, maxcols=6) if r.random() < 0.6 else gen.rtable(r, consistent=True, maxcols=6).canon()
        b = bytes(p.encode().b)
        n = len(p.cols)
        subs = [[bool((k >> i) & 1) for i in range(n)] for k in (range(1 << n) if n <= (3 if ctx.tier == "quick" else 6) else
                                                                 [r.getrandbits(n) for _ in range(6)])]
        for sub in subs:
            ss = "".join("1" if x else "0" for x in sub) or "0"
            l = "fr %s %s" % (b.hex(), ss)
            sl.append(l)
            exp[l] = ref.dump_file(p, len(b), sub) + " live=0"

    def oracle_sub(l, h):
        if h != exp[l]:
            er = exp[l]
            k = next((i for i in range(min(len(h), len(er))) if h[i] != er[i]), min(len(h), len(er)))
            return "subset read differs from the full read restricted to the subset (or ends elsewhere) at dump offset %d: ...%s vs ...%s" % (
                k, h[max(0, k - 30):k + 50], er[max(0, k - 30):k + 50])
        return None
    # sbdf_ts_skip over whole files, and sbdf_obj_skip of single unpacked objects
    fl = []
    fexp = {}
    seen = set()
    for l in sl:
        hx = l.split()[1]
        if hx in seen:
            continue
        seen.add(hx)
        k = "fsk " + hx
        fl.append(k)
    # expected: as many OK skips as the full read returns slices, then end-of-table at the same offset
    full = {}
    for l in sl:
        hx, ss = l.split()[1], l.split()[2]
        m = re.search(r" pos=(\d+) live=0$", exp[l])
        full[hx] = (exp[l].count(" ts=0:"), m.group(1) if m else None)

    def oracle_fsk(l, h):
        n, pos = full[l.split()[1]]
        want = "fh=0:1.0 tm=0" + " ts=0" * n + " ts=-1000 pos=%s live=0" % pos
        if h != want:
            return "sbdf_ts_skip over the file does not behave like the full read (%d slices, end at %s): %s" % (n, pos, h[:200])
        return None
    compare(res, ctx, fl, "c07 sbdf_ts_skip", oracle=oracle_fsk,
            rule="every file of the subset stage skipped slice by slice with sbdf_ts_skip until end-of-table",
            nontrivial=lambda l: len(l) > 100)
    ol = []
    for _ in range(600 if ctx.tier == "quick" else 8000):
        tid = r.choice(ref.ALL_TIDS + [0, 11, 14, 99, 255]) if r.random() < 0.9 else r.randrange(256)
        if ref.is_arr(tid):
            e = gen.rstr(r, big=r.random() < 0.05)
            body = struct.pack("<i", len(e)) + e
            if r.random() < 0.3:
                body = struct.pack("<i", r.choice([-1, -2, -3, -4, -5, -8, -129, -65536, -2147483648, 2147483647, len(e) + 1, 1 << 24])) + e
        else:
            body = gen.rbytes(r, ref.SIZES.get(tid, r.randrange(0, 9)))
        if r.random() < 0.15 and body:
            body = body[:r.randrange(len(body))]
        ol.append("oskip %d %s" % (tid, core.hexs(body + gen.rbytes(r, r.choice([0, 0, 3])))))

    def oracle_oskip(l, h):
        m = re.match(r"rd=0@(\d+):.* sk=(-?\d+)(?:@(\d+))? live=0$", h)
        if m and (m.group(2) != "0" or m.group(3) != m.group(1)):
            return "sbdf_obj_skip does not end where sbdf_obj_read ends: " + h[:200]
        if not h.endswith("live=0"):
            return "leak: " + h[-30:]
        return None
    al = []
    for _ in range(800 if ctx.tier == "quick" else 10000):
        o = gen.robj(r, n=r.choice([0, 1, 1, 2, 3, 9, 40]), big=r.random() < 0.03)
        al.append("oarr " + o.script())

    def oracle_oarr(l, h):
        for tag in ("a", "u"):
            m = re.search(r" r%s=0@(\d+):\S*?:eq=(-?\d+) s%s=(-?\d+)(?:@(\d+))?" % (tag, tag), " " + h)
            if m:
                if m.group(3) != "0" or m.group(4) != m.group(1):
                    return "sbdf_obj_skip%s does not end where sbdf_obj_read%s ends: %s" % ("_arr" if tag == "a" else "", "_arr" if tag == "a" else "", h[:200])
                if tag == "a" and m.group(2) != "1":
                    return "sbdf_obj_read_arr of what sbdf_obj_write_arr wrote is not equal to the object written: " + h[:200]
        if " one=0:" in h and not re.search(r" one=0:\S*:eq=1", h):
            return "sbdf_obj_create on the same data gives a different object: " + h[:200]
        if not h.endswith("live=0"):
            return "leak: " + h[-30:]
        return None
    compare(res, ctx, al, "c07 object entry points", oracle=oracle_oarr,
            rule="objects of every type and count 0..40 through sbdf_obj_write_arr/_read_arr/_skip_arr and sbdf_obj_write/_read/_skip with trailing bytes; single values also through sbdf_obj_create",
            nontrivial=lambda l: int(l.split()[2]) > 0)
    compare(res, ctx, ol, "c07 sbdf_obj_skip", oracle=oracle_oskip,
            rule="single unpacked objects of every type id (known, unknown), strings/binaries with int32 lengths incl. negative/huge, truncated bodies, trailing bytes: read vs skip",
            nontrivial=lambda l: len(l) > 12)
    compare(res, ctx, sl, "c07 column-subset reads", oracle=oracle_sub,
            rule="all 2^n column subsets (n small) / random subsets of reference-encoded and library-style files",
            nontrivial=lambda l: "1" in l.split()[-1] and "0" in l.split()[-1])
    # the same on a stream that cannot seek (a pipe, a socket, stdin): fseek fails there, and a
    # well-formed stream still has to be skipped like it is read (defect F25)
    pl = []
    for l in r.sample(sl, min(len(sl), 400 if ctx.tier == "quick" else 5000)) + r.sample(fl, min(len(fl), 200 if ctx.tier == "quick" else 3000)):
        pl.append("pipe=%d %s" % (r.choice([1, 2]), l))
    # sections far larger than any stdio or drop buffer
    for _ in range(12 if ctx.tier == "quick" else 150):
        p = gen.rtable(r, consistent=True, maxcols=3, maxslices=2, big=True).canon()
        b = bytes(p.encode().b)
        n = len(p.cols)
        for sub in [[False] * n, [r.random() < 0.5 for _ in range(n)]]:
            ss = "".join("1" if x else "0" for x in sub) or "0"
            l = "fr %s %s" % (b.hex(), ss)
            exp[l] = ref.dump_file(p, len(b), sub) + " live=0"
            pl.append("pipe=%d %s" % (r.choice([1, 2]), l))
            pl.append(l)
        full[b.hex()] = (exp[l].count(" ts=0:"), re.search(r" pos=(\d+) live=0$", exp[l]).group(1))
        pl.append("pipe=%d fsk %s" % (r.choice([1, 2]), b.hex()))
    for _ in range(150 if ctx.tier == "quick" else 2000):
        tid = r.choice(ref.ALL_TIDS)
        if ref.is_arr(tid):
            e = gen.rstr(r, big=r.random() < 0.1)
            body = struct.pack("<i", len(e)) + e
        else:
            body = gen.rbytes(r, ref.SIZES[tid])
        pl.append("pipe=%d oskip %d %s" % (r.choice([1, 2]), tid, core.hexs(body + gen.rbytes(r, r.choice([0, 3, 5000])))))
    # value arrays of every encoding written by the library, read and skipped on such a stream;
    # fixed-size arrays whose payload is a whole number of blocks
    for _ in range(300 if ctx.tier == "quick" else 4000):
        o = gen.robj(r, big=r.random() < 0.05)
        pl.append("pipe=%d va %d %s" % (r.choice([1, 2]), r.choice([0, 1, 2, 3]), o.script()))
    for tid, cnt in [(5, 512), (5, 1024), (3, 1536), (2, 1024), (4, 2048), (13, 256), (1, 4096), (1, 32768), (1, 65536), (5, 513)]:
        el = gen.relem(r, tid)
        for enc in ((1, 3) if tid == 1 else (1,)):
            pl.append("pipe=%d va %d %d %d %s" % (r.choice([1, 2]), enc, tid, cnt,
                                                    " ".join((el if (j % 3) else gen.relem(r, tid)).hex() or "-" for j in range(cnt))))
    # distances at the block sizes of the drop buffer and of stdio (and one off)
    for ln in [4095, 4096, 4097, 8191, 8192, 8193, 12288, 16384, 65536, 131072]:
        e = gen.rbytes(r, 64) * (ln // 64) + gen.rbytes(r, ln % 64)
        for pm in (1, 2):
            pl.append("pipe=%d oskip %d %s" % (pm, r.choice([10, 12]), core.hexs(struct.pack("<i", ln) + e + b"\x07")))

    def oracle_pipe(l, h):
        base = l.split(" ", 1)[1] if l.startswith("pipe=") else l
        if base.startswith("fr "):
            return oracle_sub(base, h)
        if base.startswith("fsk "):
            return oracle_fsk(base, h)
        if base.startswith("va "):
            return oracle_va(base, h)
        if not re.match(r"rd=0@(\d+):.* sk=0@\1 live=0$", h):
            return "on a stream that cannot seek, sbdf_obj_skip does not end where sbdf_obj_read ends: " + h[:200]
        return None
    # ... and through real pipes (a forked writer): the sample files and some generated ones
    import glob
    rp = core.build_harness("rpipe", main="realpipe.c")
    rdir = os.path.join(core.CACHE, "rpipe-files")
    os.makedirs(rdir, exist_ok=True)
    rfiles = sorted(glob.glob(os.path.join(core.REPO, "tests", "samples", "*.sbdf")))
    for i, l in enumerate(r.sample(fl, min(len(fl), 40 if ctx.tier == "quick" else 400))):
        fn = os.path.join(rdir, "g%03d.sbdf" % i)
        open(fn, "wb").write(bytes.fromhex(l.split()[1]))
        rfiles.append(fn)
    rr = subprocess.run([rp] + rfiles, stdout=subprocess.PIPE, stderr=subprocess.PIPE, text=True, env=core.ENV, timeout=3600)
    rlines = [x for x in rr.stdout.splitlines() if x.startswith(("SAME", "DIFF"))]
    res.cov["real_pipe_files"] = len(rlines)
    res.add_cases(["realpipe " + os.path.basename(x.split()[-1]) for x in rlines],
                  rule="files (the Spotfire samples and generated ones) fed through a real pipe by a forked writer: sbdf_ts_skip loop and first-column subset reads vs the same skips on the regular file", sample=1)
    for x in rlines:
        if x.startswith("DIFF"):
            ctx.found_input = True
            res.violation("c07 real pipe: skipping behaves differently on a pipe than on the regular file: " + x[:300],
                          ["realpipe " + x.split()[-1]], True)
            break
    if rr.returncode not in (0, 1) or len(rlines) != len(rfiles):
        ctx.found_input = True
        res.violation("c07 real pipe: the reader crashed or stopped (rc=%d): %s" % (rr.returncode, clean(rr.stderr)[-400:]), rfiles[len(rlines):len(rlines) + 1], True)
    compare(res, ctx, pl, "c07 streams that cannot seek", oracle=oracle_pipe,
            rule="subset reads, sbdf_ts_skip loops and sbdf_obj_skip of well-formed streams served through a FILE* whose fseek fails with ESPIPE (buffered and unbuffered, reads of at most 4096 bytes)",
            nontrivial=lambda l: True)


# ----------------------------------------------------------------------------- C09 corruption -> status

EXPECT = {
    # kind -> function(bad value, field) -> expected status of the first failing call, or None = not demanded
    "magic0": lambda v, f: -20 if v != 0xDF else None,
    "magic1": lambda v, f: -20 if v != 0x5B else None,
}


def expected_status(f, v):
    k = f["kind"]
    if k == "magic0":
        return -20 if v != 0xDF else 0
    if k == "magic1":
        return -20 if v != 0x5B else 0
    if k == "secid":
        if v == f["expect"]:
            return 0
        if f["pos"] == "ts" and v == 5:
            return -1000
        if f["pos"] == "end" and v == 3:
            return None      # a slice header where the end marker was: reads on into EOF
        return -13
    if k == "bytesize":
        return None      # the full reader ignores the byte-size header; the skip path is judged below
    if k in ("tmdcount", "elemcount", "slicecols", "len32", "strlen", "rows_bit", "colcount", "namecount", "propcnt"):
        if k == "slicecols" and v >= 0:
            return -19 if v != f.get("orig") else 0
        return -21 if v < 0 else None
    if k in ("flag_tmd_value", "flag_tmd_dflt"):
        return -6 if v not in (0, 1) else None
    if k == "enc":
        return -5 if v not in (1, 2, 3) else None
    if k == "tid":
        known = v in ref.ALL_TIDS or v == 0xFE
        if known:
            return None
        w = f.get("where")
        if w in ("plain", "rle"):
            return -3
        if w == "tmd":
            return None   # decided by the presence flags that follow; handled by caller
        if w == "namelist":
            return -3 if f.get("hasd") else None
        return None
    return None


def check_c09(res, ctx):
    r = ctx.rng
    lines = []
    meta = {}
    extra_skip = []
    nfiles = 60 if ctx.tier == "quick" else 600
    for _ in range(nfiles):
        p = gen.rphys(r, maxcols=3, maxslices=2)
        if r.random() < 0.5:
            p = gen.rtable(r, consistent=True, maxcols=3, maxslices=2, small=True).canon()
        e = p.encode()
        data = bytes(e.b)
        for f in e.f:
            k = f["kind"]
            if f["len"] == 1:
                orig = data[f["off"]]
                if k in ("magic0", "magic1"):
                    vals = [0, 0x5B, 0xDF, 0xDE, 0xFF, 1]
                elif k == "secid":
                    vals = [0, 1, 2, 3, 4, 5, 6, 0xFF]
                elif k.startswith("flag_tmd"):
                    vals = [2, 3, 0xFF, 0x80]
                elif k == "enc":
                    vals = [0, 4, 5, 0x7F, 0xFF]
                elif k == "tid":
                    vals = [0, 0x0B, 0x0E, 0x0F, 0x7F, 0xFD, 0xFF]
                else:
                    continue
            elif f["len"] == 4:
                orig = int.from_bytes(data[f["off"]:f["off"] + 4], "little", signed=True)
                if k in ("tmdcount", "elemcount", "len32", "strlen", "rows_bit", "bytesize", "colcount", "namecount", "propcnt"):
                    vals = [-1, -2, -160, -2 ** 31]
                elif k == "slicecols":
                    vals = [-1, -2 ** 31, orig + 1, max(0, orig - 1) if orig else 1, orig + 255]
                else:
                    continue
            elif k == "len7":
                # a negative 7-bit length: five groups with the sign bit set
                b = bytearray(data)
                b[f["off"]:f["off"] + f["len"]] = b"\xff\xff\xff\xff\x0f"
                l = "fr %s -" % bytes(b).hex()
                lines.append(l)
                meta[l] = (f, -1, -21)
                continue
            else:
                continue
            for v in vals:
                if v == orig:
                    continue
                g = dict(f)
                g["orig"] = orig
                ex = expected_status(g, v)
                if k == "tid" and f.get("where") == "tmd" and not (v in ref.ALL_TIDS or v == 0xFE):
                    ex = -3      # generated table-level entries always carry a value
                if k == "bytesize" and v < 0:
                    # only the skip path uses this field: a negative distance is invalid-size there
                    b = bytearray(data)
                    b[f["off"]:f["off"] + 4] = (v & 0xFFFFFFFF).to_bytes(4, "little")
                    l2 = "fsk %s" % bytes(b).hex()
                    extra_skip.append(l2)
                    meta[l2] = (f, v, -21)
                    continue
                if ex is None or ex == 0:
                    continue
                b = bytearray(data)
                if f["len"] == 1:
                    b[f["off"]] = v
                else:
                    b[f["off"]:f["off"] + 4] = (v & 0xFFFFFFFF).to_bytes(4, "little")
                l = "fr %s -" % bytes(b).hex()
                lines.append(l)
                meta[l] = (f, v, ex)
    if ctx.tier == "quick" and len(lines) > 12000:
        lines = r.sample(lines, 12000)

    def oracle(l, h):
        f, v, ex = meta[l]
        m = re.findall(r"(?:fh| tm| ts)=(-?\d+)", h)
        sts = [int(x) for x in m]
        first = next((x for x in sts if x != 0), 0)
        if first != ex:
            return "field %s at offset %d set to %d: first non-OK status is %d, the matching status is %d" % (f["kind"], f["off"], v, first, ex)
        return None
    # the same corrupted files through the skip path (sbdf_ts_skip): the slice-level validations
    # are separate code there; fields whose corruption the skip path cannot see (lengths inside
    # a packed array, which it steps over by the byte-size header) are compared with the model only
    skl = []
    for l in lines:
        f, v, ex = meta[l]
        k2 = "fsk " + l.split()[1]
        if k2 not in meta:
            skl.append(k2)
            meta[k2] = (f, v, ex if f["kind"] in ("magic0", "magic1", "secid", "tmdcount", "flag_tmd_value", "flag_tmd_dflt",
                                                    "slicecols", "elemcount", "enc", "tid", "rows_bit", "colcount", "namecount", "propcnt") else None)
    if ctx.tier == "quick" and len(skl) > 6000:
        skl = r.sample(skl, 6000)
    skl += extra_skip if len(extra_skip) <= 2000 else r.sample(extra_skip, 2000)
    # the same on a stream that cannot seek (skips read and drop there): same statuses
    for l in r.sample(skl, min(len(skl), 1500 if ctx.tier == "quick" else 20000)):
        k3 = "pipe=%d %s" % (r.choice([1, 2]), l)
        skl.append(k3)
        meta[k3] = meta[l]

    def oracle_sk(l, h):
        f, v, ex = meta[l]
        if ex is None:
            return None
        sts = [int(x) for x in re.findall(r"(?:fh| tm| ts)=(-?\d+)", h)]
        first = next((x for x in sts if x != 0), 0)
        if first != ex:
            return "field %s at offset %d set to %d, file skipped slice by slice: first non-OK status is %d, the matching status is %d" % (
                f["kind"], f["off"], v, first, ex)
        return None
    compare(res, ctx, skl, "c09 field-wise corruption, skip path", oracle=oracle_sk,
            rule="the corrupted files of the previous stage read with sbdf_ts_skip instead of sbdf_ts_read, on regular files and through a FILE* that cannot seek (pipe=1|2)",
            nontrivial=lambda l: True)
    # negative lengths on the single-object entry points (sbdf_obj_read / sbdf_obj_skip): invalid-size
    # from both, never a move backwards
    nl = []
    for _ in range(300 if ctx.tier == "quick" else 4000):
        tid = r.choice([10, 12])
        v = r.choice([-1, -2, -3, -4, -5, -7, -8, -9, -128, -129, -32768, -65536, -2 ** 31, -2 ** 31 + 1, -r.randrange(1, 2 ** 31)])
        nl.append("%soskip %d %s" % (r.choice(["", "", "pipe=1 ", "pipe=2 "]), tid,
                                     core.hexs(struct.pack("<i", v) + gen.rbytes(r, r.choice([0, 4, 12])))))

    def oracle_neg(l, h):
        if not re.match(r"rd=-21 sk=-21 live=0$", h):
            return "a negative length is not refused with invalid-size by both sbdf_obj_read and sbdf_obj_skip: " + h[:120]
        return None
    compare(res, ctx, nl, "c09 negative lengths, single objects", oracle=oracle_neg,
            rule="string/binary objects whose int32 length is negative (small, large, boundary) through sbdf_obj_read and sbdf_obj_skip, on files and on streams that cannot seek",
            nontrivial=lambda l: True)
    # counts too large rather than negative: the last value each `> INT_MAX / size` guard lets through
    # and the first it refuses (no property names a status here; model and implementation must agree)
    hl = []
    for _ in range(40 if ctx.tier == "quick" else 400):
        p = gen.rphys(r, maxcols=3, maxslices=2) if r.random() < 0.5 else gen.rtable(r, consistent=True, maxcols=3, maxslices=2, small=True).canon()
        e = p.encode()
        data = bytes(e.b)
        fs = [f for f in e.f if f["len"] == 4 and f["kind"] in ("tmdcount", "elemcount", "colcount", "namecount", "propcnt", "rows_bit", "len32", "strlen")]
        for f in r.sample(fs, min(len(fs), 4)):
            for v in r.sample([(2 ** 31 - 1) // k + d for k in (1, 2, 4, 8, 16) for d in (0, 1)], 3):
                if v > 2 ** 31 - 1:
                    continue
                b = bytearray(data)
                b[f["off"]:f["off"] + 4] = v.to_bytes(4, "little")
                hl.append("%s %s%s" % (r.choice(["fr", "fsk"]), bytes(b).hex(), " -" if hl and False else ""))
    hl = [l + (" -" if l.startswith("fr ") else "") for l in hl]
    compare(res, ctx, hl, "c09 counts above the representable size", rule="count and length fields set to INT_MAX/k and INT_MAX/k+1 (k = 1, 2, 4, 8, 16), read in full and skipped: statuses of model and implementation",
            nontrivial=lambda l: True)
    compare(res, ctx, lines, "c09 field-wise corruption", oracle=oracle,
            rule="every structural field (marker bytes, section ids, counts, lengths incl. 7-bit, type ids, encoding ids, table-level presence flags) of generated files x every corruption class applicable to it; the field map comes from the reference encoder",
            nontrivial=lambda l: True)
    kinds = {}
    for l in lines:
        k = meta[l][0]["kind"]
        kinds[k] = kinds.get(k, 0) + 1
    res.cov["corruptions_by_field_kind"] = kinds
    # RLE row count vs runs: the first decode fails
    vl = []
    for _ in range(300):
        o = gen.robj(r, n=r.choice([1, 2, 5, 300]))
        va = ref.lib_va(2, o)
        nruns = len(va.runs)
        va.rows = r.choice([va.rows - 1, va.rows + 1, va.rows + 2, va.rows - 2, va.rows + 256, va.rows - 300] +
                           ([nruns, nruns] if nruns != va.rows else []))
        vl.append("varead " + ref.va_bytes(va).hex())

    def oracle_rle(l, h):
        m = re.match(r"rd=0@\d+:rows=(-?\d+),vals=(-?\d+)", h)
        if not m:
            return "reader refused the array itself: " + h[:100] if not h.startswith("rd=-") else None
        if m.group(2) == "0":
            return "run-length array whose row count differs from its runs decoded successfully"
        return None
    compare(res, ctx, vl, "c09 rle row count", oracle=oracle_rle, rule="run-length arrays whose row count field differs from the sum of the runs")
    # every returnable status has its own text
    rows = parse_gen_pairs("Tables.lean", "errRows")


# ----------------------------------------------------------------------------- C13 write faults

def status_class(x):
    """statuses by class: OK stays, every error code becomes ERR, end-of-table stays"""
    x = x.replace("-1000", "TABLEEND")
    return re.sub(r"(?<=[=,])-\d+", "ERR", x)


def check_c13(res, ctx):
    write_fault_stage(res, ctx, 40 if ctx.tier == "quick" else 300, 1500 if ctx.tier == "quick" else 20000)
    real_sink_stage(res, ctx)


def real_sink_stage(res, ctx):
    """real failing sinks behind real stdio buffering (the budget stage above replaces fwrite itself):
    /dev/full and a pipe nobody reads, unbuffered / 64 / 4096 bytes / line buffered; the sample files and
    generated files read with the library and written again, plus two more small writes (defect F27)"""
    import glob
    r = ctx.rng
    exe = core.build_harness("rsink", main="realsink.c")
    rdir = os.path.join(core.CACHE, "rsink-files")
    os.makedirs(rdir, exist_ok=True)
    files = sorted(glob.glob(os.path.join(core.REPO, "tests", "samples", "*.sbdf")))
    files = [f for f in files if os.path.getsize(f) <= (300000 if ctx.tier == "quick" else 10 ** 8)]
    for i in range(40 if ctx.tier == "quick" else 400):
        p = gen.rtable(r, consistent=True, maxcols=4, maxslices=3, big=(i % 10 == 0)).canon()
        fn = os.path.join(rdir, "g%03d.sbdf" % i)
        open(fn, "wb").write(bytes(p.encode().b))
        files.append(fn)
    rr = subprocess.run([exe] + files, stdout=subprocess.PIPE, stderr=subprocess.PIPE, text=True, env=core.ENV, timeout=3600)
    rlines = [x for x in rr.stdout.splitlines() if x.startswith(("SAME", "DIFF"))]
    res.cov["real_sink_runs"] = len(rlines)
    res.add_cases(["realsink " + " ".join(x.split()[1:3]) + " " + os.path.basename(x.split()[-1]) for x in rlines],
                  rule="the Spotfire samples and generated files written to /dev/full and to a pipe nobody reads, through stdio unbuffered / 64 / 4096 bytes / line buffered: after the first non-OK status every later write is non-OK; no run in which every call said OK has the stream's error indicator set", sample=1)
    for x in rlines:
        if x.startswith("DIFF"):
            ctx.found_input = True
            res.violation("c13 real sink: a write reported OK although the stream had refused bytes (an earlier call failed, or the error indicator is set): " + x[:300],
                          ["realsink " + x.split()[-1]], True)
            break
    if rr.returncode not in (0, 1) or len(rlines) < len(files):
        ctx.found_input = True
        res.violation("c13 real sink: the writer crashed or stopped (rc=%d): %s" % (rr.returncode, clean(rr.stderr)[-400:]), [], True)


def write_fault_stage(res, ctx, ntab, lim, be=False):
    r = ctx.rng
    lines = []
    info = {}
    made = 0
    # tables whose LAST write of a call is the length prefix of an empty string/binary element
    # (nothing non-empty follows inside that call that could still report the refusal)
    e10 = ref.Obj(10, [b"ab", b"", b""])
    e12 = ref.Obj(12, [b"\1", b"", b""])
    one = ref.Obj(2, [b"\1\0\0\0", b"\2\0\0\0", b"\3\0\0\0"])
    special = [
        ref.Table([(b"t", ref.Obj(10, [b""]), None)], [[(b"Name", ref.Obj(10, [b"c0"]), None), (b"z", ref.Obj(10, [b""]), None)]], []),
        ref.Table([], [[(b"Name", ref.Obj(10, [b"c0"]), None)]], [[((1, one), [(b"ErrorCode", (1, e10))])]]),
        ref.Table([], [[(b"Name", ref.Obj(10, [b"c0"]), None)]], [[((1, one), [(b"ErrorCode", (2, e12))])]]),
        ref.Table([], [[(b"Name", ref.Obj(10, [b"c0"]), None)]], [[((1, e10), [])], [((2, e12), [])]]),
        # fixed-size payloads longer than any small scratch buffer one might introduce (40 doubles, 24
        # decimals, 300 bools), plain and run-length: a refusal inside the payload itself
        ref.Table([], [[(b"Name", ref.Obj(10, [b"c0"]), None)], [(b"Name", ref.Obj(10, [b"c1"]), None)]],
                  [[((1, ref.Obj(5, [struct.pack("<d", i * 1.5) for i in range(40)])), []),
                    ((2, ref.Obj(13, [bytes([i]) + b"\0" * 15 for i in range(24)])), [])]]),
        ref.Table([], [[(b"Name", ref.Obj(10, [b"c0"]), None)]],
                  [[((1, ref.Obj(1, [bytes([i % 2]) for i in range(300)])), [(b"IsInvalid", (3, ref.Obj(1, [bytes([(i // 3) % 2]) for i in range(300)])))])]]),
    ]
    while made < ntab:
        t = special.pop() if special else gen.rtable(r, consistent=True, small=True)
        full = bytes(t.canon().encode(be).b)
        if len(full) > lim:
            continue
        made += 1
        sc = t.script()
        for k in range(len(full)):
            l = "full fw %d %s" % (k, sc)
            lines.append(l)
            info[l] = (k, full)

    def oracle(l, h):
        k, full = info[l]
        h0 = h
        again = None
        if " again:" in h:
            a, rest = h.split(" again:", 1)
            lv = re.search(r" live=-?\d+$", rest)
            h = a + (lv.group(0) if lv else "")
            again = rest[:lv.start()] if lv else rest
        m = re.match(r"build=0 fh=(-?\d+) tm=(-?\d+) ts=(\S*) end=(-?\d+) bytes=(\S+) live=(-?\d+)$", h)
        if not m:
            m = re.match(r"build=0 fh=(-?\d+) tm=(-?\d+) ts=() ?end=(-?\d+) bytes=(\S+) live=(-?\d+)$", h)
            if not m:
                return "unexpected: " + h0[:200]
        if again is not None:
            ma = re.match(r"fh=0 tm=0 ts=([0,]*) ?end=0 bytes=(\S+)$", again)
            if not ma:
                return "after a failed write the same objects cannot be written to a healthy stream: " + again[:200]
            gb = bytes.fromhex(ma.group(2)) if ma.group(2) != "-" else b""
            if gb != full:
                return "after a failed write the same objects serialise differently on a healthy stream (the failed call changed them)"
        sts = [int(m.group(1)), int(m.group(2))] + [int(x) for x in m.group(3).split(",") if x] + [int(m.group(4))]
        if all(x == 0 for x in sts):
            return "the stream refused bytes from offset %d of %d but every writer call reported success" % (k, len(full))
        i = next(j for j, x in enumerate(sts) if x != 0)
        if any(x == 0 for x in sts[i:]):
            return "a write after the failure reported success (statuses %s)" % sts
        got = bytes.fromhex(m.group(5)) if m.group(5) != "-" else b""
        if got != full[:k]:
            return "accepted bytes are not the first %d bytes of the encoding" % k
        if m.group(6) != "0":
            return "leak after a failed write: live=" + m.group(6)
        return None
    compare(res, ctx, lines, "c13 write faults at every offset" + (" (big-endian build)" if be else ""), oracle=oracle, project=status_class,
            variant="be" if be else "asan", margs=("--be",) if be else (),
            rule="every byte offset 0..len-1 at which the stream starts refusing, for generated tables up to the size bound; all writer entry points are called (header, table metadata, slices, end marker), also after the failure; then the same objects are written again to a healthy stream and must give the full encoding",
            nontrivial=lambda l: True)
    res.cov["fault_offsets" + ("_be" if be else "")] = len(lines)


# ----------------------------------------------------------------------------- C05 hostile input

def check_c05(res, ctx):
    r = ctx.rng
    n = 6000 if ctx.tier == "quick" else 200000
    base = []
    invalid = []
    for _ in range(120):
        p = gen.rphys(r) if r.random() < 0.6 else gen.rtable(r, consistent=True, small=True).canon()
        e = p.encode()
        if len(e.b) < 60000:
            base.append(e)
    for _ in range(400 if ctx.tier == "quick" else 4000):
        e = gen.rphys_invalid(r).encode()
        if len(e.b) < 60000:
            invalid.append(e)
            if len(invalid) % 4 == 0:
                base.append(e)
    import glob
    for f in sorted(glob.glob(os.path.join(core.REPO, "tests", "samples", "*.sbdf"))):
        b = open(f, "rb").read()
        if len(b) < 6000:
            e = ref.Enc()
            e.b = bytearray(b)
            base.append(e)
    lines = []
    desc = {}
    for i in range(n):
        e = r.choice(base)
        data = bytes(e.b)
        d = []
        for _ in range(r.choice([1, 1, 1, 2, 3])):
            fits = [f for f in e.f if f["off"] + f["len"] <= len(data)]
            if fits and r.random() < 0.7:
                data2, dd = gen.mutate_field(r, data, r.choice(fits))
            else:
                data2, dd = gen.mutate_random(r, data)
            data = data2
            d.append(dd)
        ncol = r.randrange(0, 6)
        sub = "-" if r.random() < 0.6 else "".join(r.choice("01") for _ in range(8))
        l = "cap=262144 %sfrw %s %s" % ("" if r.random() < 0.75 else "pipe=%d " % r.choice([1, 2]), core.hexs(data[:65536]), sub)
        lines.append(l)
        desc[l] = "+".join(d)
    for e in invalid:
        lines.append("cap=262144 frw %s %s" % (bytes(e.b).hex(), r.choice(["-", "-", "01", "10"])))
    for _ in range(n // 6):
        l = "cap=262144 frw %s -" % core.hexs(gen.rbytes(r, r.choice([0, 1, 3, 5, 8, 20, 64, 300])))
        lines.append(l)
        b = bytearray(b"\xdf\x5b\x01\x01\x00\xdf\x5b\x02") + gen.rbytes(r, r.choice([4, 12, 40, 200]))
        lines.append("cap=262144 frw %s -" % bytes(b).hex())
    for _ in range(n // 6):
        o = gen.robj(r, n=r.choice([0, 1, 3, 300]))
        va = ref.lib_va(r.choice([1, 2, 3]), o)
        e = ref.Enc()
        e.va(va)
        data, dd = gen.mutate_field(r, bytes(e.b), r.choice(e.f)) if r.random() < 0.8 else gen.mutate_random(r, bytes(e.b))
        lines.append("cap=262144 %svaread %s" % ("" if r.random() < 0.75 else "pipe=%d " % r.choice([1, 2]), core.hexs(data)))
    documented = set(int(x) for x in re.findall(r'\("SBDF_\w+", (-?\d+)\)', open(os.path.join(LEAN, "Sbdf", "Gen", "Tables.lean")).read().split("def statusMacros")[1].split("]")[0]))

    def oracle(l, h):
        if "!OUTSET" in h:
            return "a failed call left its output argument set"
        m = re.search(r"live=(-?\d+)", h)
        if m and m.group(1) != "0":
            return "leak or double release: live=%s" % m.group(1)
        for x in re.findall(r"[ =:,;gdnt](-\d+)(?=[ :;,\]dent]|$)", " " + h):
            pass
        for x in re.findall(r"(?:fh| tm| ts|rd|sk|vals|w|rw:fh)=(-\d+)", h):
            if int(x) not in documented:
                return "undocumented status %s" % x
        return None
    t0 = time.time()
    hout, mout = compare(res, ctx, lines, "c05 hostile streams", oracle=oracle, project=status_class,
            rule="field-aware mutations (boundary values -1, 0, 1, 2^31-1, 2^28+1, 0x20000001, ... on every count/length/type/flag/marker field), truncation, splicing, deletion, insertion of valid files incl. samples, unstructured bytes, value-array level mutations; read with and without column subset, every accessor on what was returned, rewrite, destroy; allocator cap 256 KiB",
            nontrivial=lambda l: len(l) > 60)
    hist = {}
    for h in hout:
        body = h.split(" rw:")[0]
        sts = re.findall(r"(fh| tm| ts|rd|sk)=(-?\d+|FUEL)", body)
        key = "all-ok"
        for k, v in sts:
            if v not in ("0",):
                key = "%s=%s" % (k.strip(), v)
                break
        hist[key] = hist.get(key, 0) + 1
    res.cov["first_non_ok_status_histogram"] = dict(sorted(hist.items(), key=lambda kv: -kv[1]))
    res.cov["inputs_reaching_rewrite"] = sum(1 for h in hout if " rw:" in h)
    res.cov["explanation"] = ("Lean: totality (termination checker), documented statuses, no ghost-check (ub) failure on any input for the readers/decoders; "
                              "runtime: ASan/UBSan silence, live-block accounting = 0, output arguments unset after failure, statuses documented, on every generated hostile input. "
                              "Heap discipline of error paths is observed, not proved.")


# ----------------------------------------------------------------------------- C12 ownership

def check_c12(res, ctx):
    r = ctx.rng
    n = 1500 if ctx.tier == "quick" else 40000
    lines = []
    for i in range(n):
        k = i % 5
        if k == 0:
            lines.append(gen.rhistory(r, r.choice([10, 40, 120])))
        elif k == 1:
            lines.append("va %d %s" % (r.choice([0, 1, 2, 3]), gen.robj(r).script()))
        elif k == 2:
            lines.append(rcs_line(r, r.choice([0, 2, 5, 20])))
        elif k == 3:
            lines.append("rtw " + gen.rtable(r, small=True).script())
        else:
            lines.append("frw %s %s" % (gen.rphys(r).encode().b.hex(), r.choice(["-", "0101", "1", "0"])))

    def oracle(l, h):
        if not h.endswith("live=0"):
            return "after releasing every object once with its destroy function, live blocks = %s" % h.split("live=")[-1]
        if "!OUTSET" in h:
            return "a failed call left something in its output argument"
        return None
    compare(res, ctx, lines, "c12 construct / mutate-source / get / mutate-result / destroy histories", oracle=oracle,
            rule="metadata histories (inputs released and overwritten right after each constructor, returned copies overwritten and released, table-metadata copies dumped after their sources are gone), value arrays (source released before decoding), caller-built slices (own nothing; rejected arrays stay with the caller), reader-built slices (own their arrays) with and without column subsets; ASan + live-block accounting at the end of every history",
            nontrivial=lambda l: len(l) > 80)
    res.cov["explanation"] = ("Lean: ownership protocol theorem over histories (every root released exactly once; caller-built slices release no arrays, reader-built ones exactly theirs). "
                              "Runtime part (aliasing, free): ASan + allocator accounting on generated histories; values compared with the value-semantic model.")


# ----------------------------------------------------------------------------- C14 allocation faults

def check_c14(res, ctx):
    r = ctx.rng
    scen = []
    nsc = 100 if ctx.tier == "quick" else 2000
    mdops = {}
    for i in range(nsc):
        k = i % 5
        if k == 0:
            ops = gen.rhistory(r, r.choice([6, 12]), small=(i % 2 == 0), as_ops=True)
            l = " ".join(ops)
            mdops[l] = ops
            scen.append(l)
        elif k == 1:
            scen.append("va %d %s" % (r.choice([0, 1, 2, 3]), gen.robj(r, n=r.choice([0, 1, 3, 9])).script()))
        elif k == 2:
            scen.append(rcs_line(r, r.choice([1, 3, 6])))
        elif k == 3:
            scen.append("rtw " + gen.rtable(r, small=True, maxcols=2, maxslices=2).script())
        else:
            scen.append("frw %s %s" % (gen.rphys(r, maxcols=2, maxslices=2).encode().b.hex(), r.choice(["-", "01"])))
    # systematic part: merges into populated and empty collections (sbdf_md_copy builds up to three
    # allocations per entry: a fault in the 1st, 2nd, ... entry, with and without defaults)
    v = "2 1 01000000"
    sv = "10 1 6162"
    for nd in (0, 1, 2, 3):
        for ns in (1, 2, 3, 4):
            ops = ["md", "new 0", "new 1"]
            for i in range(ns):
                ops.append("add 0 %02x %s %s" % (0x61 + i, sv if i % 2 else v, ("1 " + (sv if i % 2 else v)) if i == 1 else "0"))
            for i in range(nd):
                ops.append("add 1 %02x %s 0" % (0x71 + i, v))
            ops += ["copy 0 1", "cnt 1", "ex 1 61", "dump 0", "dump 1", "rm 1 71", "add 1 7a %s 0" % v, "dump 1"]
            l = " ".join(ops)
            mdops[l] = ops
            scen.append(l)
    # every element class x every encoding, several distinct elements
    for tid in (1, 2, 13, 10, 12):
        for enc in (0, 1, 2, 3):
            els = [gen.relem(r, tid) for _ in range(3)]
            if ref.is_arr(tid):
                els = [b"ab", b"ab", b"cde", b"", b"cde"]
            else:
                els = [els[0], els[0], els[1], els[2], els[2]]
            scen.append("va %d %s" % (enc, ref.Obj(tid, els).script()))
    t = gen.rtable(r, small=True, maxcols=2, maxslices=1)
    t.slices = [[((2, ref.Obj(10, [b"x", b"x", b"yy", b"z"])), [(b"p", (2, ref.Obj(12, [b"1", b"22", b"22", b""])))])] * len(t.cols)] if t.cols else []
    scen.append("rtw " + t.script())
    base = core.run_driver(ctx.h(), ["fa=-1 " + l for l in scen])
    lines = []
    info = {}
    for l, b in zip(scen, base):
        m = re.search(r" allocs=(\d+) fired=0$", b)
        if not m:
            res.violation("c14: fault-free run failed: " + b[:300], [l], b.startswith("CRASH"))
            continue
        n = int(m.group(1))
        ks = range(n) if (n <= 400 or ctx.tier != "quick") else sorted(r.sample(range(n), 400))
        for k in ks:
            fl = "fa=%d %s" % (k, l)
            lines.append(fl)
            info[fl] = (l, re.sub(r" allocs=\d+ fired=\d+$", "", b))
    hout = core.run_driver(ctx.h(), lines)
    res.add_cases(lines, rule="for each generated scenario (metadata histories, value arrays of every encoding, column-slice histories, table write+read+rewrite, foreign-stream read+rewrite) the N allocation calls are counted, then the scenario is re-run N times with the k-th allocation returning NULL",
                  nontrivial=lambda l: True)
    res.cov["scenarios"] = len(scen)
    res.cov["fault_positions"] = len(lines)
    fired = 0
    bad = 0
    frame = []
    for fl, h in zip(lines, hout):
        l, b = info[fl]
        why = None
        if h.startswith("CRASH") or h == "MISSING":
            why = "crash when allocation %s fails: %s" % (fl.split()[0], h)
        else:
            m = re.search(r" allocs=(\d+) fired=(\d+)$", h)
            body = re.sub(r" allocs=\d+ fired=\d+$", "", h)
            if not m:
                why = "unexpected output " + h[:200]
            elif m.group(2) == "1":
                fired += 1
                lv = re.search(r"live=(-?\d+)", body)
                if "!OUTSET" in body:
                    why = "the failed call left something in its output argument"
                elif lv and lv.group(1) != "0":
                    why = "leak or double release after a failed allocation: live=%s" % lv.group(1)
                elif " retry=" in body and (not re.search(r" retry=0:(\S+)", body) or
                                            re.search(r" retry=0:(\S+)", body).group(1) != (re.search(r" bytes=(\S+)", b) or [None, None])[1]):
                    why = "after an allocation failure inside a writer the same objects do not serialise to the fault-free bytes any more"
                elif "valid=0" in body:
                    why = "a failed sbdf_ts_add changed the slice it was adding to (column count or columns)"
                elif ":add=" in body and " tsw=0:" in body and " tsw=0:" in b and body.split(" tsw=")[1].split()[0] != b.split(" tsw=")[1].split()[0]:
                    why = "after a failed and repeated sbdf_ts_add the slice serialises differently from the fault-free run"
                elif body == b:
                    why = "an allocation failed but every call reported the same results as without the failure"
                elif not re.search(r"(?:^|[=~:,; ant])(-\d+)", body):
                    why = "an allocation failed but no call returned a non-OK status"
                elif l in mdops:
                    frame.append((fl, l, body))
        if why and bad < 4:
            bad += 1
            ctx.found_input = True
            res.violation("c14: " + why, [fl], True, extra=[h[:2500]])
    res.cov["faults_fired"] = fired
    res.cov["writer_retries_after_fault"] = sum(" retry=" in h for h in hout)
    res.cov["failed_adds_checked_for_validity"] = sum(":valid=" in h for h in hout)
    # frame check through the model for metadata histories: the failed operation must leave every
    # register as it was, i.e. the rest of the history behaves as if that operation were absent
    red = []
    for fl, l, body in frame:
        ops = mdops[l]
        items = body.split("~")
        okrun = info[fl][1].split("~")
        # first op whose result differs from the fault-free run
        j = next((i for i in range(min(len(items), len(okrun))) if items[i] != okrun[i]), None)
        if j is None or j < 4:
            continue
        opj = ops[j]   # ops[0]="md", outputs start at ops[1]
        # output item i corresponds to ops[i+1]
        opj = ops[j + 1] if j + 1 < len(ops) else None
        if opj is None or opj.split()[0] in ("new", "tm", "setcm", "addstr", "addint"):
            continue
        reduced = ops[:j + 1] + ops[j + 2:]
        red.append((fl, " ".join(reduced), items[:j] + items[j + 1:]))
    if red:
        mout = core.run_driver(ctx.model, [x[1] for x in red])
        chk = 0
        for (fl, rl, items), m in zip(red, mout):
            chk += 1
            if "~".join(items) != m and bad < 4:
                bad += 1
                ctx.found_input = True
                res.violation("c14: after a failed allocation inside one operation the remaining history does not behave as if that operation had not happened (state changed by a failed call)",
                              [fl, rl], True, extra=["~".join(items)[:2000], m[:2000]])
        res.cov["frame_checks_via_model"] = chk


# ----------------------------------------------------------------------------- registry / driver

CHECKS = {}


def register(pid, level, fn, proof=True):
    CHECKS[pid] = dict(level=level, fn=fn, proof=proof)


register("C16", "proof", check_c16)
register("C15", "proof", check_c15)
register("C19", "proof", check_c19)
register("C20", "proof", check_c20)
register("C18", "other", check_c18)
register("C02", "proof", check_c02)
register("C10", "proof", check_c10)
register("C11", "proof", check_c11)
register("C01", "proof", check_c01)
register("C03", "proof", check_c03)
register("C04", "proof", check_c04)
register("C17", "proof", check_c17)
register("C08", "proof", check_c08)
register("C06", "proof", check_c06)
register("C07", "proof", check_c07)
register("C09", "proof", check_c09)
register("C13", "proof", check_c13)
register("C05", "other", check_c05)
register("C12", "other", check_c12)
register("C14", "other", check_c14)


def run(pid, tier, seed):
    c = CHECKS[pid]
    res = Result(pid, tier, seed, c["level"])
    ctx = Ctx(pid, tier, seed)
    try:
        if c["proof"]:
            proof_stage(res, ctx)
            if tier == "thorough" and not ctx.broken:
                thorough_recheck(res, ctx)
        else:
            ok, out = core.lake_build(["sbdf_drv"])
            if not ok:
                ctx.broken.append("model driver does not build: " + out[-800:])
        if os.path.exists(ctx.model):
            run_corpus(res, ctx)
            c["fn"](res, ctx)
        else:
            ctx.broken.append("no model driver binary; correspondence not run")
    except core.BuildError as e:
        # the repository no longer compiles with the harness: nothing can be shown
        res.violation("build failure: %s" % e, None, found_input=False)
    finish_broken(res, ctx)
    res.assumptions = [
        "32-bit int, 64-bit size_t, little-endian host, glibc fread/fwrite/fseek semantics on regular files",
        "allocation requests above 16 MiB are refused (harness allocator cap = model cap)",
    ]
    return res


def replay(pid, path):
    lines = [l.rstrip("\n") for l in open(path) if not l.startswith("#") and l.strip()]
    # files fed through a real pipe / written to real failing sinks: run the small harness program on them
    for l in [x for x in lines if x.startswith(("realpipe ", "realsink "))]:
        kind, fn = l.split(" ", 1)
        exe = core.build_harness("rpipe" if kind == "realpipe" else "rsink", main=kind + ".c")
        rr = subprocess.run([exe, fn], stdout=subprocess.PIPE, stderr=subprocess.STDOUT, text=True, env=core.ENV)
        print("scenario:       " + l)
        print("implementation: " + clean(rr.stdout).strip().replace("\n", "\n                "))
        print("agree:          %s" % ("DIFF" not in rr.stdout and rr.returncode == 0))
    lines = [x for x in lines if not x.startswith(("realpipe ", "realsink "))]
    if not lines:
        return 0
    ctx = Ctx(pid, "quick", 0)
    core.lake_build(["sbdf_drv"])
    for variant, margs in (("asan", ()),):
        hout = core.run_driver(ctx.h(variant), lines, jobs=1)
        mout = core.run_driver(ctx.model, lines, args=margs, jobs=1)
        for l, h, m in zip(lines, hout, mout):
            print("scenario:       " + l[:2000])
            print("implementation: " + h[:4000])
            print("model:          " + m[:4000])
            print("agree:          %s" % (h == m))
    return 0
