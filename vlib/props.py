"""Per-property checks."""
import json
import os
import random
import re
import subprocess
import time

from . import core, gen, ref
from .core import Result, log, sh, clean, LEAN, ROOT, CACHE

ALLOWED_AXIOMS = {"propext", "Classical.choice", "Quot.sound"}
FORBIDDEN = [r"\bsorry\b", r"\badmit\b", r"^\s*axiom\s", r"\bnative_decide\b", r"\bbv_decide\b", r"implemented_by",
             r"\bunsafe\s", r"@\[extern", r"maxHeartbeats\s+0\b"]

TRUSTED = [
    "Lean 4.33.0 kernel (axioms: propext, Classical.choice, Quot.sound only; audited by #print axioms on every run)",
    "Lean compiler/runtime for the compiled model driver (sbdf_drv)",
    "translator tools/extract.py (tables dumped from the freshly compiled code, gcc -E -dM, nm, clang AST)",
    "correspondence harness harness/drv.c + vlib/*.py (generators, canonicalisation), clang ASan/UBSan, glibc FILE semantics",
    "hand-written model lean/Sbdf/*.lean tied to /repo/src by the correspondence (sampled, not proved)",
]


class Ctx:
    def __init__(self, pid, tier, seed):
        self.pid, self.tier, self.seed = pid, tier, seed
        self.rng = random.Random((seed << 8) ^ int(pid[1:]))
        self.broken = []          # broken proof obligations (strings)
        self.harness = {}
        self.model = core.model_exe()
        self.found_input = False

    def h(self, variant="asan"):
        if variant not in self.harness:
            self.harness[variant] = core.build_harness(variant)
        return self.harness[variant]


# ----------------------------------------------------------------------------- proof stage

def forbidden_tokens():
    hits = []
    for base in ("Sbdf", "Driver"):
        for dp, dn, fn in os.walk(os.path.join(LEAN, base)):
            for f in fn:
                if not f.endswith(".lean"):
                    continue
                p = os.path.join(dp, f)
                txt = open(p).read()
                # strip comments
                txt = re.sub(r"/-.*?-/", lambda m: "\n" * m.group(0).count("\n"), txt, flags=re.S)
                txt = re.sub(r"--.*", "", txt)
                for i, line in enumerate(txt.split("\n")):
                    for pat in FORBIDDEN:
                        if re.search(pat, line):
                            hits.append("%s:%d: %s" % (os.path.relpath(p, LEAN), i + 1, line.strip()[:100]))
    root = os.path.join(LEAN, "Sbdf.lean")
    return hits


def theorems_of(pid):
    p = os.path.join(LEAN, "Sbdf", "Props", pid + ".lean")
    if not os.path.exists(p):
        return []
    txt = open(p).read()
    txt = re.sub(r"/-.*?-/", "", txt, flags=re.S)
    return re.findall(r"^theorem\s+([\w.']+)", txt, re.M)


def proof_stage(res, ctx):
    """translator + lake build + audit.  Fills res.cov obligations; records broken obligations."""
    pid = ctx.pid
    t0 = time.time()
    r = sh(["python3", os.path.join(ROOT, "tools", "extract.py")])
    if r.returncode != 0:
        ctx.broken.append("translator failed: " + clean(r.stdout + r.stderr)[-1500:])
    thms = theorems_of(pid)
    ok, out = core.lake_build(["Sbdf.Props." + pid, "sbdf_drv"])
    discharged = 0
    if not ok:
        errs = [l for l in out.splitlines() if "error" in l][:12]
        ctx.broken.append("lake build of Sbdf.Props.%s failed:\n%s" % (pid, "\n".join(errs) or out[-1500:]))
        # the driver may still be buildable on its own
        ok2, out2 = core.lake_build(["sbdf_drv"])
        if not ok2:
            ctx.broken.append("model driver does not build: " + out2[-800:])
    else:
        os.makedirs(os.path.join(CACHE, "audit"), exist_ok=True)
        ap = os.path.join(CACHE, "audit", pid + ".lean")
        with open(ap, "w") as f:
            f.write("import Sbdf.Props.%s\n" % pid)
            for t in thms:
                f.write("#print axioms Sbdf.%s.%s\n" % (pid, t))
        with core.Lock("lake"):
            a = sh(["lake", "env", "lean", ap], cwd=LEAN)
        txt = clean(a.stdout + a.stderr)
        for t in thms:
            m = re.search(r"'Sbdf\.%s\.%s' (does not depend on any axioms|depends on axioms: \[([^\]]*)\])" %
                          (pid, re.escape(t)), txt.replace("\n", " "))
            if not m:
                ctx.broken.append("audit: theorem %s.%s not found (%s)" % (pid, t, txt[-300:]))
                continue
            axs = set(x.strip() for x in (m.group(2) or "").split(",") if x.strip())
            bad = axs - ALLOWED_AXIOMS
            if bad:
                ctx.broken.append("audit: theorem %s.%s depends on %s" % (pid, t, sorted(bad)))
            else:
                discharged += 1
    hits = forbidden_tokens()
    if hits:
        ctx.broken.append("forbidden tokens in Lean sources: " + "; ".join(hits[:5]))
    res.cov["obligations"] = len(thms)
    res.cov["discharged"] = discharged if not hits else 0
    res.cov["checker_cmd"] = "cd /verif/lean && lake build Sbdf.Props.%s && lake env lean .cache/audit/%s.lean  (#print axioms)" % (pid, pid)
    res.cov["trusted_base"] = TRUSTED
    res.cov["theorems"] = thms
    res.cov["proof_stage_s"] = round(time.time() - t0, 1)
    return not ctx.broken


def thorough_recheck(res, ctx):
    """leanchecker on the property module (independent re-check of the compiled proofs)."""
    with core.Lock("lake"):
        r = sh(["lake", "env", "leanchecker", "Sbdf.Props." + ctx.pid], cwd=LEAN)
    out = clean(r.stdout + r.stderr)
    res.cov["leanchecker"] = "ok" if r.returncode == 0 else out[-500:]
    if r.returncode != 0:
        ctx.broken.append("leanchecker rejected Sbdf.Props.%s: %s" % (ctx.pid, out[-500:]))


# ----------------------------------------------------------------------------- correspondence

def compare(res, ctx, lines, label, project=None, oracle=None, variant="asan", margs=(), nontrivial=None,
            rule=None, max_report=3):
    """Run harness and model on the same scenario lines; diff (after projection); evaluate the
    property oracle on the implementation's output for every line."""
    if not lines:
        return [], []
    hx = ctx.h(variant)
    hout = core.run_driver(hx, lines)
    mout = core.run_driver(ctx.model, lines, args=margs)
    res.add_cases(lines, nontrivial or (lambda l: True), rule or label)
    res.cov.setdefault("traces_validated_against_impl", 0)
    res.cov["traces_validated_against_impl"] += len(lines)
    reported = 0
    crashes = 0
    for i, l in enumerate(lines):
        h = hout[i] if i < len(hout) else "MISSING"
        m = mout[i] if i < len(mout) else "MISSING"
        bad = None
        found = False
        if h.startswith("CRASH") or h == "MISSING":
            bad = "%s: implementation crashed: %s" % (label, h)
            found = True
            crashes += 1
        else:
            why = oracle(l, h) if oracle else None
            if why:
                bad = "%s: property fails on the implementation: %s" % (label, why)
                found = True
            else:
                ph, pm = (project(h), project(m)) if project else (h, m)
                if ph != pm:
                    bad = "%s: correspondence model/implementation differs (no property oracle failed on this input)" % label
        if bad:
            if found:
                ctx.found_input = True
            if reported < max_report:
                reported += 1
                res.violation(bad, [l], found_input=found,
                              extra=["implementation: " + h[:3000], "model:          " + m[:3000]])
    return hout, mout


def finish_broken(res, ctx):
    """a broken proof obligation with no failing input found is still a violation"""
    if ctx.broken and not ctx.found_input:
        res.violation("proof obligation no longer checks: " + " || ".join(ctx.broken)[:3000], None, found_input=False,
                      extra=ctx.broken)
    elif ctx.broken:
        res.notes.append("broken obligations: " + " || ".join(ctx.broken)[:2000])


# ----------------------------------------------------------------------------- C16

def enc7(n):
    out = bytearray()
    while True:
        if n > 0x7F:
            out.append((n & 0x7F) | 0x80)
            n >>= 7
        else:
            out.append(n)
            return bytes(out)


def s32(n):
    return n - (1 << 32) if n >= (1 << 31) else n


def oracle_c16(line, h):
    t = line.split()
    if t[0] != "c16":
        return None
    n = int(t[1])
    m = re.match(r"w7=0:(\w+) len7=(\d+) r7=0:(-?\d+):(\d+) w32=0:(\w+) r32=0:(-?\d+)$", h)
    if not m:
        return "unexpected output " + h
    w7, l7, r7, p7, w32, r32 = m.groups()
    if w7 != enc7(n).hex():
        return "7-bit groups of %d are %s, expected %s" % (n, w7, enc7(n).hex())
    if n < (1 << 31) and int(l7) != len(enc7(n)):
        return "sbdf_get_7bitpacked_len(%d)=%s but the writer emits %d bytes" % (n, l7, len(enc7(n)))
    if int(r7) != s32(n) or int(p7) != len(enc7(n)):
        return "7-bit read back %s (pos %s) for %d" % (r7, p7, n)
    if w32 != n.to_bytes(4, "little").hex() or int(r32) != s32(n):
        return "int32 %d written as %s read back %s" % (n, w32, r32)
    return None


def check_c16(res, ctx):
    r = ctx.rng
    vals = set()
    for k in range(33):
        for d in range(-64, 65):
            v = (1 << k) + d
            if 0 <= v < (1 << 32):
                vals.add(v)
    for _ in range(3000 if ctx.tier == "quick" else 50000):
        vals.add(r.getrandbits(r.choice([7, 8, 14, 15, 21, 22, 28, 29, 31, 32])))
    lines = ["c16 %d" % v for v in sorted(vals)]
    compare(res, ctx, lines, "c16 single values", oracle=oracle_c16,
            rule="every power-of-two neighbourhood (±64) and random 32-bit values; all distinct values count")
    # hostile group sequences
    hs = []
    for _ in range(400):
        n = r.randrange(1, 9)
        b = bytes((r.getrandbits(8) | (0x80 if r.random() < 0.7 else 0)) for _ in range(n))
        hs.append("r7 " + b.hex())
    hs += ["r7 ffffffffff01", "r7 8080808080", "r7 ffffffff7f", "r7 80808080800000", "r7 -", "r7 80"]

    def oracle_r7(line, h):
        b = bytes.fromhex(line.split()[1]) if line.split()[1] != "-" else b""
        # over-long (continuation on the fifth byte) must be refused
        if len(b) >= 5 and all(x & 0x80 for x in b[:5]) and h.startswith("r7=0"):
            return "over-long group sequence %s accepted: %s" % (b.hex(), h)
        return None
    compare(res, ctx, hs, "c16 reader on arbitrary group sequences", oracle=oracle_r7)
    # digest mode over whole ranges
    if ctx.tier == "quick":
        hi, parts = 1 << 22, 32
        ranges = [(i * (hi // parts), (i + 1) * (hi // parts), 1) for i in range(parts)]
        ranges += [(r.randrange(1 << 32), 1 << 32, 1 << 14) for _ in range(4)]
    else:
        parts = 256
        step = (1 << 32) // parts
        ranges = [(i * step, (i + 1) * step, 1) for i in range(parts)]
    dl = ["c16d %d %d %d" % x for x in ranges]
    t0 = time.time()
    hout = core.run_driver(ctx.h(), dl, jobs=core.NCPU, timeout=7200)
    mout = core.run_driver(ctx.model, dl, jobs=core.NCPU, timeout=7200)
    total = 0
    for l, h, m in zip(dl, hout, mout):
        mm = re.match(r"n=(\d+) ", h)
        total += int(mm.group(1)) if mm else 0
        if h != m:
            # bisect to a single value
            lo, hi_, st = [int(x) for x in l.split()[1:]]
            while (hi_ - lo + st - 1) // st > 1:
                cnt = (hi_ - lo + st - 1) // st
                mid = lo + (cnt // 2) * st
                q = "c16d %d %d %d" % (lo, mid, st)
                a = core.run_driver(ctx.h(), [q])[0]
                b = core.run_driver(ctx.model, [q])[0]
                if a != b:
                    hi_ = mid
                else:
                    lo = mid
            q = "c16 %d" % lo
            a = core.run_driver(ctx.h(), [q])[0]
            b = core.run_driver(ctx.model, [q])[0]
            why = oracle_c16(q, a) if not a.startswith("CRASH") else a
            ctx.found_input = ctx.found_input or bool(why)
            res.violation("digest range %s differs; bisected to %s: %s" % (l, q, why or "model/implementation differ"),
                          [q], found_input=bool(why), extra=["implementation: " + a, "model: " + b])
    res.cov["evaluations"] += total
    res.cov["digest_values"] = total
    res.cov["digest_ranges"] = dl[:3] + ["..."]
    res.cov["exhaustive"] = ctx.tier != "quick"
    res.cov["rule"] += " | digest mode: 64-bit hash of the canonical output of every value in a range, model vs code (%s)" % (
        "all values below 2^22 + strided samples" if ctx.tier == "quick" else "the complete 2^32 domain")


# ----------------------------------------------------------------------------- C15

def oracle_c15(line, h):
    t = line.split()
    if t[0] == "strcmp":
        a = bytes.fromhex(t[1]) if t[1] != "-" else b""
        b = bytes.fromhex(t[2]) if t[2] != "-" else b""
        exp = (a > b) - (a < b)
        if h != "str=%d ba=%d" % (exp, exp):
            return "compare(%s,%s) gives '%s', lexicographic byte order says %d" % (t[1], t[2], h, exp)
    elif t[0] == "strmk":
        a = bytes.fromhex(t[1]) if t[1] != "-" else b""
        c = ref.cstr(a)
        exp = "len=%d %s copy=%d %s cstr=%d %s ba=%d %s" % (len(a), (a + b"\0").hex(), len(a), (a + b"\0").hex(),
                                                          len(c), (c + b"\0").hex(), len(a), core.hexs(a))
        if h != exp:
            return "create/copy of %s gives '%s' expected '%s'" % (t[1], h, exp)
    elif t[0] == "objeq":
        # objeq OBJ OBJ
        def obj(i):
            tid, n = int(t[i]), int(t[i + 1])
            return (tid, tuple(t[i + 2:i + 2 + n])), i + 2 + n
        a, j = obj(1)
        b, _ = obj(j)
        exp = "eq=%d rev=%d self=1 copy=1" % (a == b, a == b)
        if h != exp:
            return "sbdf_obj_eq gives '%s', content equality says '%s'" % (h, exp)
    return None


def check_c15(res, ctx):
    r = ctx.rng
    alpha = [0, 1, 0x7F, 0x80, 0xFF]
    L = 3 if ctx.tier == "quick" else 4
    strs = [b""]
    cur = [b""]
    for _ in range(L):
        cur = [c + bytes([x]) for c in cur for x in alpha]
        strs += cur
    lines = []
    if ctx.tier == "quick":
        pairs = [(a, b) for a in strs for b in strs if len(a) + len(b) <= 5]
    else:
        pairs = [(a, b) for a in strs for b in strs if len(a) + len(b) <= 7]
    for a, b in pairs:
        lines.append("strcmp %s %s" % (core.hexs(a), core.hexs(b)))
    for _ in range(2000):
        a = gen.rstr(r)
        b = a if r.random() < 0.2 else (a[:r.randrange(len(a) + 1)] + gen.rbytes(r, r.randrange(3)))
        lines.append("strcmp %s %s" % (core.hexs(a), core.hexs(b)))
    for a in strs[:200]:
        lines.append("strmk " + core.hexs(a))
    for _ in range(300):
        lines.append("strmk " + core.hexs(gen.rstr(r, big=True)))
    compare(res, ctx, lines, "c15 string/bytearray helpers", oracle=oracle_c15,
            rule="all pairs of byte strings over {00,01,7f,80,ff} up to the length bound (exhaustive) + random long strings; create/copy of every string",
            nontrivial=lambda l: l.split()[1] != l.split()[-1])
    ol = []
    for _ in range(3000 if ctx.tier == "quick" else 30000):
        a = gen.robj(r, n=r.choice([0, 1, 2, 3, 5, 9]), runs=False)
        k = r.random()
        b = ref.Obj(a.tid, list(a.elems))
        if k < 0.3:
            pass
        elif k < 0.6 and b.elems:
            i = r.randrange(len(b.elems))
            e = bytearray(b.elems[i])
            if e and (r.random() < 0.7 or not ref.is_arr(a.tid)):
                e[r.randrange(len(e))] ^= 1 << r.randrange(8)
            elif ref.is_arr(a.tid):
                e = e + b"\0" if r.random() < 0.5 else e[:-1]
            b.elems[i] = bytes(e)
        elif k < 0.75:
            b = gen.robj(r, tid=a.tid, n=len(a.elems), runs=False)
        elif k < 0.85:
            b.elems = b.elems[:-1] if b.elems and r.random() < 0.5 else b.elems + [gen.relem(r, a.tid)]
        else:
            t2 = r.choice([t for t in ref.ALL_TIDS if ref.SIZES.get(t) == ref.SIZES.get(a.tid) and t != a.tid] or [a.tid])
            b = ref.Obj(t2, list(a.elems))
        ol.append("objeq %s %s" % (a.script(), b.script()))
    compare(res, ctx, ol, "c15 object equality", oracle=oracle_c15,
            rule="pairs of objects of all types: identical, one element/bit/length changed, other type of the same size, other count")


# ----------------------------------------------------------------------------- C19

def oracle_c19(line, h):
    t = line.split()
    s = bytes.fromhex(t[1]) if t[1] != "-" else b""
    m = re.match(r"size=(-?\d+) written=(-?\d+) out=(\S+)$", h)
    if not m:
        return "unexpected output " + h
    size, written, out = int(m.group(1)), int(m.group(2)), (bytes.fromhex(m.group(3)) if m.group(3) != "-" else b"")
    if size != written:
        return "length-only call returned %d, converting call wrote %d" % (size, written)
    if not out.endswith(b"\0"):
        return "output not terminated"
    body = out[:-1]
    s = ref.cstr(s)
    if t[0] == "i2u":
        try:
            if body.decode("utf-8").encode("latin-1") != s:
                return "ISO-8859-1 -> UTF-8 of %s gives %s" % (s.hex(), body.hex())
        except Exception as e:
            return "ISO-8859-1 -> UTF-8 of %s is not well-formed UTF-8: %s" % (s.hex(), body.hex())
    else:
        try:
            u = s.decode("utf-8")
            exp = bytes((ord(c) if ord(c) < 256 else 0x1A) for c in u)
            if body != exp:
                return "UTF-8 -> ISO-8859-1 of well-formed %s gives %s expected %s" % (s.hex(), body.hex(), exp.hex())
        except UnicodeDecodeError:
            pass
    return None


def check_c19(res, ctx):
    r = ctx.rng
    lines = []
    for a in range(1, 256):
        lines.append("u2i %02x" % a)
        lines.append("i2u %02x" % a)
    if ctx.tier == "quick":
        seconds = list(range(1, 256))
        firsts = list(range(1, 256))
    else:
        seconds = firsts = list(range(1, 256))
    for a in firsts:
        for b in seconds:
            lines.append("u2i %02x%02x" % (a, b))
    for a in firsts:
        for b in seconds[::3] if ctx.tier == "quick" else seconds:
            lines.append("i2u %02x%02x" % (a, b))
    # round trip through the real code: latin1 -> utf8 -> latin1
    special = [0xC0, 0xC2, 0xC3, 0xDE, 0xDF, 0xE0, 0xEF, 0xF0, 0xF4, 0xFF, 0x80, 0xBF, 0x41, 0x7F, 0x1A]
    for _ in range(4000 if ctx.tier == "quick" else 60000):
        n = r.randrange(0, 12)
        b = bytearray(r.choice(special) if r.random() < 0.6 else r.randrange(1, 256) for _ in range(n))
        lines.append("u2i " + core.hexs(bytes(b)))
        lines.append("i2u " + core.hexs(bytes(b)))
        # well-formed UTF-8 with code points around 0x7f/0x80/0xff/0x100/0x7ff/0x800
        u = "".join(chr(r.choice([0x41, 0x7F, 0x80, 0xA0, 0xFF, 0x100, 0x7FF, 0x800, 0xFFFF, 0x10000, r.randrange(1, 0x300)])) for _ in range(r.randrange(1, 6)))
        lines.append("u2i " + u.encode("utf-8").hex())
    if ctx.tier != "quick":
        for a in [0xC2, 0xC3, 0xDE, 0xDF, 0xE0, 0x41, 0x80]:
            for b in range(1, 256):
                for c in range(1, 256):
                    lines.append("u2i %02x%02x%02x" % (a, b, c))
    compare(res, ctx, lines, "c19 charset helpers", oracle=oracle_c19,
            rule="all strings over 1..255 of length 1 and 2 (exhaustive for UTF-8->Latin-1), random strings biased to lead/continuation bytes at the end, well-formed UTF-8 around the code-point boundaries; each on an exactly-sized heap buffer under ASan")
    res.cov["exhaustive"] = False


# ----------------------------------------------------------------------------- generated-table witnesses (C18, C20, C09)

def parse_gen_pairs(fname, defname):
    txt = open(os.path.join(LEAN, "Sbdf", "Gen", fname)).read()
    m = re.search(r"def %s\b[^\n]*:=\s*\[(.*?)\n?\]" % defname, txt, re.S)
    if not m:
        return []
    return re.findall(r'\("((?:[^"\\]|\\.)*)",\s*"((?:[^"\\]|\\.)*)"', m.group(1))


def c20_allowed():
    txt = open(os.path.join(LEAN, "Sbdf", "Props", "C20.lean")).read()
    m = re.search(r"def allowed : List String :=\s*\[(.*?)\]", txt, re.S)
    return set(re.findall(r'"([^"]+)"', m.group(1)))


def check_c20(res, ctx):
    syms = parse_gen_pairs("Surface.lean", "undefinedSyms")
    allowed = c20_allowed()
    bad = [(o, s) for o, s in syms if s not in allowed]
    res.add_cases(["%s:%s" % x for x in syms], rule="every (object, undefined external symbol) pair of the library as compiled from the working tree (complete surface, not a sample)")
    res.cov["exhaustive"] = True
    res.cov["surface"] = sorted(set(s for _, s in syms))
    for o, s in bad:
        ctx.found_input = True
        res.violation("object %s refers to external symbol '%s', which is outside the passive family (process, std stream, file system, environment, clock, locale or random access)" % (o, s),
                      ["# witness: nm -u of %s compiled from /repo/src lists %s" % (o, s)], found_input=True)
    asm = parse_gen_pairs("Surface.lean", "asmUses")
    for f, k in asm:
        ctx.found_input = True
        res.violation("inline assembly (%s) in %s" % (k, f), ["# witness: %s in %s" % (k, f)], found_input=True)


def check_c18(res, ctx):
    txt = open(os.path.join(LEAN, "Sbdf", "Gen", "Globals.lean")).read()
    rows = re.findall(r'\("([^"]+)", "([^"]+)", "([^"]+)", (true|false), \[(.*?)\]\)', txt)
    cases = []
    for f, name, storage, const, refs in rows:
        for fn, kind in re.findall(r'\("([^"]+)", "([^"]+)"\)', refs):
            cases.append("%s:%s (%s) referenced in %s as %s" % (f, name, storage, fn, kind))
            if kind not in ("read", "constarg"):
                ctx.found_input = True
                res.violation("variable %s in %s (%s) is accessed in %s with access kind '%s': mutable shared state" % (name, f, storage, fn, kind),
                              ["# witness: clang AST of %s: reference to %s in %s is neither a read nor an address passed to a const parameter" % (f, name, fn)],
                              found_input=True)
        if storage != "file-scope":
            ctx.found_input = True
            res.violation("function-local static variable %s in %s" % (name, f), ["# witness: %s:%s" % (f, name)], found_input=True)
    res.add_cases(cases or ["(no static-storage variables)"], rule="every reference to every static-storage variable of src/*.c (complete, from the clang AST)")
    # runtime part: real interleavings under ThreadSanitizer, outputs equal to the sequential model
    r = ctx.rng
    lines = []
    n = 160 if ctx.tier == "quick" else 1200
    for i in range(n):
        k = i % 4
        if k == 0:
            lines.append("rt " + gen.rtable(r, small=True).script())
        elif k == 1:
            lines.append("va %d %s" % (r.choice([0, 1, 2, 3]), gen.robj(r).script()))
        elif k == 2:
            lines.append(gen.rhistory(r, 20))
        else:
            lines.append("frw %s -" % gen.rphys(r).encode().b.hex())
    hx = ctx.h("tsan")
    mout = core.run_driver(ctx.model, lines)
    nthreads = 8
    reports = 0
    rounds = 2 if ctx.tier == "quick" else 6
    for rd in range(rounds):
        p = subprocess.run([hx, "--threads", str(nthreads)], input="\n".join(lines) + "\n", stdout=subprocess.PIPE,
                           stderr=subprocess.PIPE, text=True, env=core.ENV, timeout=1800)
        hout = p.stdout.split("\n")
        err = clean(p.stderr)
        if "ThreadSanitizer" in err:
            reports += 1
            m = re.search(r"WARNING: ThreadSanitizer: (.*?)\n(.*?)(?:\n\n|$)", err, re.S)
            in_src = "/src/" in err
            ctx.found_input = True
            res.violation("ThreadSanitizer report while %d threads ran independent workloads%s: %s" % (
                nthreads, " (frame in the library)" if in_src else "", (m.group(0) if m else err)[:1500]), lines[:nthreads * 2], found_input=True)
            break
        bad = [i for i in range(len(lines)) if i >= len(hout) or hout[i] != mout[i]]
        if bad or p.returncode != 0:
            i = bad[0] if bad else 0
            ctx.found_input = True
            res.violation("a thread obtained a result different from the sequential run (rc=%d)" % p.returncode, [lines[i]], found_input=True,
                          extra=["concurrent: " + (hout[i] if i < len(hout) else "MISSING")[:2000], "sequential model: " + mout[i][:2000]])
            break
    res.add_cases(lines, rule="%d rounds x %d threads x mixed workloads (table round trips, value arrays, metadata histories, foreign-stream reads) under ThreadSanitizer; per-line outputs equal to the sequential model" % (rounds, nthreads))
    res.cov["tsan_rounds"] = rounds
    res.cov["tsan_reports"] = reports
    res.cov["explanation"] = ("Lean: non-interference theorem for threads with disjoint private state over immutable shared data + decide over the "
                              "regenerated table of static-storage variable accesses and the external symbol surface. Runtime part (real interleavings) "
                              "sampled under ThreadSanitizer; data-race freedom of the C code itself is not proved.")


# ----------------------------------------------------------------------------- registry / driver

CHECKS = {}


def register(pid, level, fn, proof=True):
    CHECKS[pid] = dict(level=level, fn=fn, proof=proof)


register("C16", "proof", check_c16)
register("C15", "proof", check_c15)
register("C19", "proof", check_c19)
register("C20", "proof", check_c20)
register("C18", "other", check_c18)


def run(pid, tier, seed):
    c = CHECKS[pid]
    res = Result(pid, tier, seed, c["level"])
    ctx = Ctx(pid, tier, seed)
    try:
        if c["proof"]:
            proof_stage(res, ctx)
            if tier == "thorough" and not ctx.broken:
                thorough_recheck(res, ctx)
        else:
            ok, out = core.lake_build(["sbdf_drv"])
            if not ok:
                ctx.broken.append("model driver does not build: " + out[-800:])
        if os.path.exists(ctx.model):
            c["fn"](res, ctx)
        else:
            ctx.broken.append("no model driver binary; correspondence not run")
    except core.BuildError as e:
        # the repository no longer compiles with the harness: nothing can be shown
        res.violation("build failure: %s" % e, None, found_input=False)
    finish_broken(res, ctx)
    res.assumptions = [
        "32-bit int, 64-bit size_t, little-endian host, glibc fread/fwrite/fseek semantics on regular files",
        "allocation requests above 16 MiB are refused (harness allocator cap = model cap)",
    ]
    return res


def replay(pid, path):
    lines = [l.rstrip("\n") for l in open(path) if not l.startswith("#") and l.strip()]
    ctx = Ctx(pid, "quick", 0)
    core.lake_build(["sbdf_drv"])
    for variant, margs in (("asan", ()),):
        hout = core.run_driver(ctx.h(variant), lines, jobs=1)
        mout = core.run_driver(ctx.model, lines, args=margs, jobs=1)
        for l, h, m in zip(lines, hout, mout):
            print("scenario:       " + l[:2000])
            print("implementation: " + h[:4000])
            print("model:          " + m[:4000])
            print("agree:          %s" % (h == m))
    return 0
