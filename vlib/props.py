"""Per-property checks."""
import json
import os
import random
import re
import subprocess
import time

from . import core, gen, ref
from .core import Result, log, sh, clean, LEAN, ROOT, CACHE

ALLOWED_AXIOMS = {"propext", "Classical.choice", "Quot.sound"}
FORBIDDEN = [r"\bsorry\b", r"\badmit\b", r"^\s*axiom\s", r"\bnative_decide\b", r"\bbv_decide\b", r"implemented_by",
             r"\bunsafe\s", r"@\[extern", r"maxHeartbeats\s+0\b"]

TRUSTED = [
    "Lean 4.33.0 kernel (axioms: propext, Classical.choice, Quot.sound only; audited by #print axioms on every run)",
    "Lean compiler/runtime for the compiled model driver (sbdf_drv)",
    "translator tools/extract.py (tables dumped from the freshly compiled code, gcc -E -dM, nm, clang AST)",
    "correspondence harness harness/drv.c + vlib/*.py (generators, canonicalisation), clang ASan/UBSan, glibc FILE semantics",
    "hand-written model lean/Sbdf/*.lean tied to /repo/src by the correspondence (sampled, not proved)",
]


class Ctx:
    def __init__(self, pid, tier, seed):
        self.pid, self.tier, self.seed = pid, tier, seed
        self.rng = random.Random((seed << 8) ^ int(pid[1:]))
        self.broken = []          # broken proof obligations (strings)
        self.harness = {}
        self.model = core.model_exe()
        self.found_input = False

    def h(self, variant="asan"):
        if variant not in self.harness:
            self.harness[variant] = core.build_harness(variant)
        return self.harness[variant]


# ----------------------------------------------------------------------------- proof stage

def forbidden_tokens():
    hits = []
    for base in ("Sbdf", "Driver"):
        for dp, dn, fn in os.walk(os.path.join(LEAN, base)):
            for f in fn:
                if not f.endswith(".lean"):
                    continue
                p = os.path.join(dp, f)
                txt = open(p).read()
                # strip comments
                txt = re.sub(r"/-.*?-/", lambda m: "\n" * m.group(0).count("\n"), txt, flags=re.S)
                txt = re.sub(r"--.*", "", txt)
                for i, line in enumerate(txt.split("\n")):
                    for pat in FORBIDDEN:
                        if re.search(pat, line):
                            hits.append("%s:%d: %s" % (os.path.relpath(p, LEAN), i + 1, line.strip()[:100]))
    root = os.path.join(LEAN, "Sbdf.lean")
    return hits


def theorems_of(pid):
    p = os.path.join(LEAN, "Sbdf", "Props", pid + ".lean")
    if not os.path.exists(p):
        return []
    txt = open(p).read()
    txt = re.sub(r"/-.*?-/", "", txt, flags=re.S)
    return re.findall(r"^theorem\s+([\w.']+)", txt, re.M)


def proof_stage(res, ctx):
    """translator + lake build + audit.  Fills res.cov obligations; records broken obligations."""
    pid = ctx.pid
    t0 = time.time()
    r = sh(["python3", os.path.join(ROOT, "tools", "extract.py")])
    if r.returncode != 0:
        ctx.broken.append("translator failed: " + clean(r.stdout + r.stderr)[-1500:])
    thms = theorems_of(pid)
    ok, out = core.lake_build(["Sbdf.Props." + pid, "sbdf_drv"])
    discharged = 0
    if not ok:
        errs = [l for l in out.splitlines() if "error" in l][:12]
        ctx.broken.append("lake build of Sbdf.Props.%s failed:\n%s" % (pid, "\n".join(errs) or out[-1500:]))
        # the driver may still be buildable on its own
        ok2, out2 = core.lake_build(["sbdf_drv"])
        if not ok2:
            ctx.broken.append("model driver does not build: " + out2[-800:])
    else:
        os.makedirs(os.path.join(CACHE, "audit"), exist_ok=True)
        ap = os.path.join(CACHE, "audit", pid + ".lean")
        with open(ap, "w") as f:
            f.write("import Sbdf.Props.%s\n" % pid)
            for t in thms:
                f.write("#print axioms Sbdf.%s.%s\n" % (pid, t))
        with core.Lock("lake"):
            a = sh(["lake", "env", "lean", ap], cwd=LEAN)
        txt = clean(a.stdout + a.stderr)
        for t in thms:
            m = re.search(r"'Sbdf\.%s\.%s' (does not depend on any axioms|depends on axioms: \[([^\]]*)\])" %
                          (pid, re.escape(t)), txt.replace("\n", " "))
            if not m:
                ctx.broken.append("audit: theorem %s.%s not found (%s)" % (pid, t, txt[-300:]))
                continue
            axs = set(x.strip() for x in (m.group(2) or "").split(",") if x.strip())
            bad = axs - ALLOWED_AXIOMS
            if bad:
                ctx.broken.append("audit: theorem %s.%s depends on %s" % (pid, t, sorted(bad)))
            else:
                discharged += 1
    hits = forbidden_tokens()
    if hits:
        ctx.broken.append("forbidden tokens in Lean sources: " + "; ".join(hits[:5]))
    res.cov["obligations"] = len(thms)
    res.cov["discharged"] = discharged if not hits else 0
    res.cov["checker_cmd"] = "cd /verif/lean && lake build Sbdf.Props.%s && lake env lean .cache/audit/%s.lean  (#print axioms)" % (pid, pid)
    res.cov["trusted_base"] = TRUSTED
    res.cov["theorems"] = thms
    res.cov["proof_stage_s"] = round(time.time() - t0, 1)
    return not ctx.broken


def thorough_recheck(res, ctx):
    """leanchecker on the property module (independent re-check of the compiled proofs)."""
    with core.Lock("lake"):
        r = sh(["lake", "env", "leanchecker", "Sbdf.Props." + ctx.pid], cwd=LEAN)
    out = clean(r.stdout + r.stderr)
    res.cov["leanchecker"] = "ok" if r.returncode == 0 else out[-500:]
    if r.returncode != 0:
        ctx.broken.append("leanchecker rejected Sbdf.Props.%s: %s" % (ctx.pid, out[-500:]))


# ----------------------------------------------------------------------------- correspondence

def compare(res, ctx, lines, label, project=None, oracle=None, variant="asan", margs=(), nontrivial=None,
            rule=None, max_report=3):
    """Run harness and model on the same scenario lines; diff (after projection); evaluate the
    property oracle on the implementation's output for every line."""
    if not lines:
        return [], []
    hx = ctx.h(variant)
    hout = core.run_driver(hx, lines)
    mout = core.run_driver(ctx.model, lines, args=margs)
    res.add_cases(lines, nontrivial or (lambda l: True), rule or label)
    res.cov.setdefault("traces_validated_against_impl", 0)
    res.cov["traces_validated_against_impl"] += len(lines)
    reported = 0
    crashes = 0
    for i, l in enumerate(lines):
        h = hout[i] if i < len(hout) else "MISSING"
        m = mout[i] if i < len(mout) else "MISSING"
        bad = None
        found = False
        if h.startswith("CRASH") or h == "MISSING":
            bad = "%s: implementation crashed: %s" % (label, h)
            found = True
            crashes += 1
        else:
            why = oracle(l, h) if oracle else None
            if why:
                bad = "%s: property fails on the implementation: %s" % (label, why)
                found = True
            else:
                ph, pm = (project(h), project(m)) if project else (h, m)
                if ph != pm:
                    bad = "%s: correspondence model/implementation differs (no property oracle failed on this input)" % label
        if bad:
            if found:
                ctx.found_input = True
            if reported < max_report:
                reported += 1
                res.violation(bad, [l], found_input=found,
                              extra=["implementation: " + h[:3000], "model:          " + m[:3000]])
    return hout, mout


def finish_broken(res, ctx):
    """a broken proof obligation with no failing input found is still a violation"""
    if ctx.broken and not ctx.found_input:
        res.violation("proof obligation no longer checks: " + " || ".join(ctx.broken)[:3000], None, found_input=False,
                      extra=ctx.broken)
    elif ctx.broken:
        res.notes.append("broken obligations: " + " || ".join(ctx.broken)[:2000])


# ----------------------------------------------------------------------------- C16

def enc7(n):
    out = bytearray()
    while True:
        if n > 0x7F:
            out.append((n & 0x7F) | 0x80)
            n >>= 7
        else:
            out.append(n)
            return bytes(out)


def s32(n):
    return n - (1 << 32) if n >= (1 << 31) else n


def oracle_c16(line, h):
    t = line.split()
    if t[0] != "c16":
        return None
    n = int(t[1])
    m = re.match(r"w7=0:(\w+) len7=(\d+) r7=0:(-?\d+):(\d+) w32=0:(\w+) r32=0:(-?\d+)$", h)
    if not m:
        return "unexpected output " + h
    w7, l7, r7, p7, w32, r32 = m.groups()
    if w7 != enc7(n).hex():
        return "7-bit groups of %d are %s, expected %s" % (n, w7, enc7(n).hex())
    if n < (1 << 31) and int(l7) != len(enc7(n)):
        return "sbdf_get_7bitpacked_len(%d)=%s but the writer emits %d bytes" % (n, l7, len(enc7(n)))
    if int(r7) != s32(n) or int(p7) != len(enc7(n)):
        return "7-bit read back %s (pos %s) for %d" % (r7, p7, n)
    if w32 != n.to_bytes(4, "little").hex() or int(r32) != s32(n):
        return "int32 %d written as %s read back %s" % (n, w32, r32)
    return None


def check_c16(res, ctx):
    r = ctx.rng
    vals = set()
    for k in range(33):
        for d in range(-64, 65):
            v = (1 << k) + d
            if 0 <= v < (1 << 32):
                vals.add(v)
    for _ in range(3000 if ctx.tier == "quick" else 50000):
        vals.add(r.getrandbits(r.choice([7, 8, 14, 15, 21, 22, 28, 29, 31, 32])))
    lines = ["c16 %d" % v for v in sorted(vals)]
    compare(res, ctx, lines, "c16 single values", oracle=oracle_c16,
            rule="every power-of-two neighbourhood (±64) and random 32-bit values; all distinct values count")
    # hostile group sequences
    hs = []
    for _ in range(400):
        n = r.randrange(1, 9)
        b = bytes((r.getrandbits(8) | (0x80 if r.random() < 0.7 else 0)) for _ in range(n))
        hs.append("r7 " + b.hex())
    hs += ["r7 ffffffffff01", "r7 8080808080", "r7 ffffffff7f", "r7 80808080800000", "r7 -", "r7 80"]

    def oracle_r7(line, h):
        b = bytes.fromhex(line.split()[1]) if line.split()[1] != "-" else b""
        # over-long (continuation on the fifth byte) must be refused
        if len(b) >= 5 and all(x & 0x80 for x in b[:5]) and h.startswith("r7=0"):
            return "over-long group sequence %s accepted: %s" % (b.hex(), h)
        return None
    compare(res, ctx, hs, "c16 reader on arbitrary group sequences", oracle=oracle_r7)
    # digest mode over whole ranges
    if ctx.tier == "quick":
        hi, parts = 1 << 22, 32
        ranges = [(i * (hi // parts), (i + 1) * (hi // parts), 1) for i in range(parts)]
        ranges += [(r.randrange(1 << 32), 1 << 32, 1 << 14) for _ in range(4)]
    else:
        parts = 256
        step = (1 << 32) // parts
        ranges = [(i * step, (i + 1) * step, 1) for i in range(parts)]
    dl = ["c16d %d %d %d" % x for x in ranges]
    t0 = time.time()
    hout = core.run_driver(ctx.h(), dl, jobs=core.NCPU, timeout=7200)
    mout = core.run_driver(ctx.model, dl, jobs=core.NCPU, timeout=7200)
    total = 0
    for l, h, m in zip(dl, hout, mout):
        mm = re.match(r"n=(\d+) ", h)
        total += int(mm.group(1)) if mm else 0
        if h != m:
            # bisect to a single value
            lo, hi_, st = [int(x) for x in l.split()[1:]]
            while (hi_ - lo + st - 1) // st > 1:
                cnt = (hi_ - lo + st - 1) // st
                mid = lo + (cnt // 2) * st
                q = "c16d %d %d %d" % (lo, mid, st)
                a = core.run_driver(ctx.h(), [q])[0]
                b = core.run_driver(ctx.model, [q])[0]
                if a != b:
                    hi_ = mid
                else:
                    lo = mid
            q = "c16 %d" % lo
            a = core.run_driver(ctx.h(), [q])[0]
            b = core.run_driver(ctx.model, [q])[0]
            why = oracle_c16(q, a) if not a.startswith("CRASH") else a
            ctx.found_input = ctx.found_input or bool(why)
            res.violation("digest range %s differs; bisected to %s: %s" % (l, q, why or "model/implementation differ"),
                          [q], found_input=bool(why), extra=["implementation: " + a, "model: " + b])
    res.cov["evaluations"] += total
    res.cov["digest_values"] = total
    res.cov["digest_ranges"] = dl[:3] + ["..."]
    res.cov["exhaustive"] = ctx.tier != "quick"
    res.cov["rule"] += " | digest mode: 64-bit hash of the canonical output of every value in a range, model vs code (%s)" % (
        "all values below 2^22 + strided samples" if ctx.tier == "quick" else "the complete 2^32 domain")


# ----------------------------------------------------------------------------- registry / driver

CHECKS = {}


def register(pid, level, fn, proof=True):
    CHECKS[pid] = dict(level=level, fn=fn, proof=proof)


register("C16", "proof", check_c16)


def run(pid, tier, seed):
    c = CHECKS[pid]
    res = Result(pid, tier, seed, c["level"])
    ctx = Ctx(pid, tier, seed)
    try:
        if c["proof"]:
            proof_stage(res, ctx)
            if tier == "thorough" and not ctx.broken:
                thorough_recheck(res, ctx)
        else:
            ok, out = core.lake_build(["sbdf_drv"])
            if not ok:
                ctx.broken.append("model driver does not build: " + out[-800:])
        if os.path.exists(ctx.model):
            c["fn"](res, ctx)
        else:
            ctx.broken.append("no model driver binary; correspondence not run")
    except core.BuildError as e:
        # the repository no longer compiles with the harness: nothing can be shown
        res.violation("build failure: %s" % e, None, found_input=False)
    finish_broken(res, ctx)
    res.assumptions = [
        "32-bit int, 64-bit size_t, little-endian host, glibc fread/fwrite/fseek semantics on regular files",
        "allocation requests above 16 MiB are refused (harness allocator cap = model cap)",
    ]
    return res


def replay(pid, path):
    lines = [l.rstrip("\n") for l in open(path) if not l.startswith("#") and l.strip()]
    ctx = Ctx(pid, "quick", 0)
    core.lake_build(["sbdf_drv"])
    for variant, margs in (("asan", ()),):
        hout = core.run_driver(ctx.h(variant), lines, jobs=1)
        mout = core.run_driver(ctx.model, lines, args=margs, jobs=1)
        for l, h, m in zip(lines, hout, mout):
            print("scenario:       " + l[:2000])
            print("implementation: " + h[:4000])
            print("model:          " + m[:4000])
            print("agree:          %s" % (h == m))
    return 0
