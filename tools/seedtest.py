#!/usr/bin/env python3
"""tools/seedtest.py <patch.diff> [Cnn ...]   — apply a seeded change to /repo, run the named
checks (default: all), report which raise a VIOLATION, undo the change (git checkout -- .) and
regenerate the translator output for the clean tree."""
import json
import os
import subprocess
import sys
import time

ROOT = os.path.dirname(os.path.dirname(os.path.abspath(__file__)))
REPO = "/repo"


def sh(cmd, **kw):
    return subprocess.run(cmd, stdout=subprocess.PIPE, stderr=subprocess.STDOUT, text=True, **kw)


def main():
    patch = os.path.abspath(sys.argv[1])
    pids = sys.argv[2:] or ["C%02d" % i for i in range(1, 21)]
    tier = os.environ.get("VERIF_TIER", "quick")
    # VERIF_SEED_WT=<dir>: work in a scratch worktree of /repo's HEAD instead of /repo itself
    # (for use while something else, e.g. a `vp run`, reads /repo); the checks follow SBDF_REPO
    wt = os.environ.get("VERIF_SEED_WT")
    target = REPO
    env = dict(os.environ, VERIF_EVIDENCE_DIR=os.path.join(ROOT, ".cache", "seed-evidence"))
    if wt:
        sh(["git", "-C", REPO, "worktree", "remove", "--force", wt])
        r = sh(["git", "-C", REPO, "worktree", "add", "--detach", wt, "HEAD"])
        if r.returncode != 0:
            print("cannot create worktree: " + r.stdout)
            return 2
        target = wt
        env["SBDF_REPO"] = wt
    else:
        st = sh(["git", "-C", REPO, "status", "--porcelain", "--untracked-files=no"]).stdout.strip()
        if st:
            print("refusing: /repo has local changes:\n" + st)
            return 2
    r = sh(["git", "-C", target, "apply", patch])
    if r.returncode != 0:
        print("patch does not apply: " + r.stdout)
        if wt:
            sh(["git", "-C", REPO, "worktree", "remove", "--force", wt])
        return 2
    out = {}
    try:
        for pid in pids:
            t0 = time.time()
            r = sh(["python3", os.path.join(ROOT, "check.py"), pid, "--tier", tier], cwd=ROOT, env=env)
            lines = [l for l in r.stdout.splitlines() if l.startswith("VIOLATION") or l.startswith("violation:")]
            v = [l for l in lines if l.startswith("VIOLATION")]
            why = [l for l in r.stdout.splitlines() if l.startswith("violation:")]
            out[pid] = dict(rc=r.returncode, violations=len(v), nofail=sum("no-failing-input-found" in l for l in v),
                            first=(why[0][:400] if why else ""), secs=round(time.time() - t0, 1))
            print("%s rc=%d violations=%d (no-failing-input-found: %d) %.0fs  %s" % (
                pid, r.returncode, len(v), out[pid]["nofail"], out[pid]["secs"], out[pid]["first"][:200]), flush=True)
    finally:
        if wt:
            sh(["git", "-C", REPO, "worktree", "remove", "--force", wt])
            sh(["git", "-C", REPO, "worktree", "prune"])
        else:
            sh(["git", "-C", REPO, "checkout", "--", "."])
            sh(["git", "-C", REPO, "clean", "-fdq", "--", "src", "include"])   # files a patch added
        sh(["python3", os.path.join(ROOT, "tools", "extract.py")])
    print(json.dumps(out))
    return 0


if __name__ == "__main__":
    sys.exit(main())
