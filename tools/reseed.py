#!/usr/bin/env python3
"""tools/reseed.py [--wt DIR] [--out FILE] [seed ...] — regression of the detection power on the
CURRENT tree: every stored seed (seeded/C*/patch.diff, written against earlier commits) that
still applies to /repo's HEAD (git apply --3way in a scratch worktree), builds and passes the 26
tests is run against the check of its own property plus the checks that reported it when it was
first confirmed; result per seed: applies / caught by / missed.  Works in a scratch worktree
(never in /repo); one JSON line per seed in --out (default seeded/reseed.jsonl)."""
import argparse
import glob
import json
import os
import subprocess

ROOT = os.path.dirname(os.path.dirname(os.path.abspath(__file__)))
REPO = "/repo"


def sh(cmd, **kw):
    return subprocess.run(cmd, stdout=subprocess.PIPE, stderr=subprocess.STDOUT, text=True, **kw)


def main():
    ap = argparse.ArgumentParser()
    ap.add_argument("--wt", default="/tmp/reseed_wt")
    ap.add_argument("--out", default=os.path.join(ROOT, "seeded", "reseed.jsonl"))
    ap.add_argument("seeds", nargs="*")
    a = ap.parse_args()
    seeds = a.seeds or sorted(os.path.basename(d) for d in glob.glob(os.path.join(ROOT, "seeded", "C*")))
    sh(["git", "-C", REPO, "worktree", "remove", "--force", a.wt])
    w = sh(["git", "-C", REPO, "worktree", "add", "--detach", a.wt, "HEAD"])
    assert w.returncode == 0, w.stdout
    head = sh(["git", "-C", REPO, "rev-parse", "--short", "HEAD"]).stdout.strip()
    sh(["cmake", "-G", "Ninja", "-B", a.wt + "/_build", "-S", a.wt])
    env = dict(os.environ, SBDF_REPO=a.wt, VERIF_EVIDENCE_DIR=os.path.join(ROOT, ".cache", "seed-evidence"))
    try:
        with open(a.out, "w") as fo:
            for sid in seeds:
                d = os.path.join(ROOT, "seeded", sid)
                patch = os.path.join(d, "patch.diff")
                rec = dict(seed=sid, head=head)
                try:
                    meta = json.load(open(os.path.join(d, "meta.json")))
                except Exception:
                    meta = {}
                sh(["git", "-C", a.wt, "checkout", "--", "."])
                sh(["git", "-C", a.wt, "clean", "-fdq", "--", "src", "include"])
                r = sh(["git", "-C", a.wt, "apply", "--3way", patch])
                st = sh(["git", "-C", a.wt, "diff", "--name-only", "--diff-filter=U"]).stdout.strip()
                if r.returncode != 0 or st:
                    rec["outcome"] = "does not apply to HEAD any more"
                    sh(["git", "-C", a.wt, "reset", "--hard", "-q"])
                    fo.write(json.dumps(rec) + "\n"); fo.flush(); print(json.dumps(rec), flush=True)
                    continue
                sh(["git", "-C", a.wt, "reset", "-q"])     # 3-way apply stages the result
                b = sh(["cmake", "--build", a.wt + "/_build"])
                t = sh(["timeout", "900", "ctest", "--test-dir", a.wt + "/_build", "-j4", "--timeout", "300"])
                if b.returncode != 0 or "100% tests passed" not in t.stdout:
                    rec["outcome"] = "applies but no longer builds / passes the 26 tests"
                    fo.write(json.dumps(rec) + "\n"); fo.flush(); print(json.dumps(rec), flush=True)
                    continue
                first = [k for k, v in (meta.get("checks_run") or {}).items() if v.get("reported")]
                checks = [sid[:3]] + [c for c in first if c != sid[:3]]
                caught, missed = [], []
                for pid in checks:
                    c = sh(["python3", os.path.join(ROOT, "check.py"), pid, "--tier", "quick"], cwd=ROOT, env=env)
                    (caught if ("VIOLATION" in c.stdout or c.returncode != 0) else missed).append(pid)
                rec["outcome"] = "caught" if caught else "MISSED"
                rec["caught_by"] = caught
                rec["quiet"] = missed
                rec["caught_before_by"] = first
                fo.write(json.dumps(rec) + "\n"); fo.flush(); print(json.dumps(rec), flush=True)
    finally:
        sh(["git", "-C", REPO, "worktree", "remove", "--force", a.wt])
        sh(["git", "-C", REPO, "worktree", "prune"])
        sh(["python3", os.path.join(ROOT, "tools", "extract.py")])


if __name__ == "__main__":
    main()
