#!/usr/bin/env python3
"""Writes MANIFEST.json from the table below (kept in one place so it stays valid)."""
import json, os, sys
ROOT = os.path.dirname(os.path.dirname(os.path.abspath(__file__)))
sys.path.insert(0, ROOT)
from vlib.manifest_data import CHECKS, NOT_APPLICABLE, HOOK_COMMITS

m = {
    "version": 1,
    "setup_cmd": "cd /verif && python3 tools/extract.py && cd lean && lake build",
    "hooks": {
        "guard": "SBDF_VERIF",
        "enable": "no hooks are needed: /verif/harness/build.sh compiles /repo/src/*.c directly with -Dmalloc=vf_malloc -Dcalloc=vf_calloc -Drealloc=vf_realloc -Dfree=vf_free -Dfwrite=vf_fwrite (and -D__sparc for the big-endian branch); the guard name is reserved",
        "baseline_off_cmd": "cmake -G Ninja -S /repo -B /repo/_build >/dev/null && cmake --build /repo/_build && ctest --test-dir /repo/_build -j8 --timeout 900",
        "source_commits": HOOK_COMMITS,
        "add_only": True,
    },
    "engines": [
        {"name": "lean-proofs", "path": "lean/Sbdf/Props", "serves_properties": sorted(CHECKS), "kind_free_text": "Lean 4 theorems over a hand-written executable model (lean/Sbdf/*.lean), core Lean only"},
        {"name": "correspondence", "path": "harness/drv.c + lean/Driver/Main.lean + vlib/", "serves_properties": sorted(CHECKS), "kind_free_text": "differential run of the real library (ASan/UBSan, alloc/fwrite shims) and the compiled model on generated scenario scripts; ties the model to /repo on every run"},
        {"name": "translator", "path": "tools/extract.py", "serves_properties": ["C09", "C18", "C20", "C03", "C05"], "kind_free_text": "regenerates lean/Sbdf/Gen/*.lean (tables of the compiled code, header macros, symbol surface, global-variable accesses) on every run; theorems over them are re-checked"},
    ],
    "checks": [],
    "not_applicable": NOT_APPLICABLE,
    "notes": "See DESIGN.md. Every check: translator -> lake build of the property's theorems -> #print axioms audit -> harness rebuilt from /repo/src -> correspondence + property oracle -> evidence.",
}
for pid in sorted(CHECKS):
    c = CHECKS[pid]
    m["checks"].append({
        "property_id": pid,
        "quick_cmd": "python3 check.py %s --tier quick" % pid,
        "thorough_cmd": "python3 check.py %s --tier thorough" % pid,
        "evidence_file": "evidence/%s.json" % pid,
        "replay_cmd_template": "python3 check.py %s --replay {path}" % pid,
        "engine": "lean-proofs+correspondence",
        "level_claimed": {"category": c["category"], "text": c["text"], "design_ref": c["design_ref"]},
        "level_note": c["note"],
        "technique": c["technique"],
    })
json.dump(m, open(os.path.join(ROOT, "MANIFEST.json"), "w"), indent=1)
print("MANIFEST.json: %d checks, %d not_applicable" % (len(m["checks"]), len(NOT_APPLICABLE)))
