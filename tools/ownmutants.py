#!/usr/bin/env python3
"""Generates the machinery's own mutant / harmless-rewrite suite as patch files under
seeded/own/<name>/patch.diff (each verified in a scratch worktree: compiles, 26 tests pass), then
runs the named checks against each with tools/seedtest.py and records the outcome in
seeded/own/<name>/meta.json.   usage: ownmutants.py [name ...]"""
import json
import os
import subprocess
import sys

ROOT = os.path.dirname(os.path.dirname(os.path.abspath(__file__)))
WT = "/tmp/own_wt"

# name: (file, old, new, expected checks that must report, checks that must stay quiet, harmless?)
M = {
    "M01_runcap255": ("src/valuearray.c", "if (run == 256 ||", "if (run == 255 ||", ["C03"], ["C02"], False),
    "M02_store_run": ("src/valuearray.c", "*run_out++ = run - 1;", "*run_out++ = run;", ["C02", "C03"], [], False),
    "M03_decoder_gt": ("src/valuearray.c", "run >= 0; --run)", "run > 0; --run)", ["C02", "C04"], [], False),
    "M04_bitpad": ("src/valuearray.c", "\t\tvalue = value << (8 - remaining_bits);\n", "", ["C02", "C03"], [], False),
    "M05_fread_int8": ("src/internals.c", "if (fread(&c, sizeof(char), 1, f) != 1)", "if (fread(&c, sizeof(char), 1, f) > 1)", ["C06"], [], False),
    "M06_fwrite_int32": ("src/internals.c", "if (fwrite(&v, sizeof(int), 1, f) != 1 || ferror(f))", "if (fwrite(&v, sizeof(int), 1, f) > 1 || ferror(f))", ["C13"], [], False),
    "M07_len7_15": ("src/internals.c", "else if (val < (1 << 14))", "else if (val < (1 << 15))", ["C16"], [], False),
    "M08_bytesize": ("src/object.c", "byte_size += sbdf_get_7bitpacked_len(length) + length;", "byte_size += length;", ["C03", "C07"], [], False),
    "M09_negcount": ("src/object.c", "\tif (count < 0)\n\t{\n\t\treturn SBDF_ERROR_INVALID_SIZE;\n\t}\n\n\tt = calloc(1, sizeof(sbdf_object));", "\tt = calloc(1, sizeof(sbdf_object));", ["C09"], [], False),
    "M10_flag2": ("src/tablemetadata.c", "\tif (v)\n\t{\n        if (v != 1)\n        {\n            return SBDF_ERROR_ARRAY_LENGTH_MUST_BE_1;\n        }\n\n\t\tif (error = sbdf_obj_read(in, vt, &value))", "\tif (v)\n\t{\n\t\tif (error = sbdf_obj_read(in, vt, &value))", ["C09"], [], False),
    "M11_colcount": ("src/tableslice.c", "\tif (column_count != meta->no_columns)\n\t{\n\t\treturn SBDF_ERROR_COLUMN_COUNT_MISMATCH;\n\t}\n", "", ["C09", "C11"], [], False),
    "M12_errstr": ("src/errors.c", "\tcase SBDF_ERROR_INVALID_SIZE:\n\t\treturn \"the number of elements is incorrect\";\n", "", ["C09"], [], False),
    "M13_copyclash": ("src/metadata.c", "\t\tfor (prev = out->first; prev; prev = prev->next)\n\t\t{\n\t\t\tif (!strcmp(first->name, prev->name))", "\t\tfor (prev = out->first; prev; prev = prev->next)\n\t\t{\n\t\t\tif (0 && !strcmp(first->name, prev->name))", ["C10"], [], False),
    "M14_remove_frozen": ("src/metadata.c", "\tif (!out->modifiable)\n\t{\n\t\treturn SBDF_ERROR_METADATA_READONLY;\n\t}\n\n\titem = out->first;\n\tprev = 0;\n\n\twhile (item)\n\t{\n\t\tif (!strcmp(name, item->name))\n\t\t{\n\t\t\tif (prev)", "\titem = out->first;\n\tprev = 0;\n\n\twhile (item)\n\t{\n\t\tif (!strcmp(name, item->name))\n\t\t{\n\t\t\tif (prev)", ["C10"], [], False),
    "M15_dupprop": ("src/columnslice.c", "\t\tif (!strcmp(name, out->property_names[i]))\n\t\t{\n\t\t\treturn SBDF_ERROR_PROPERTY_ALREADY_EXISTS;\n\t\t}", "\t\tif (i > 2 && !strcmp(name, out->property_names[i]))\n\t\t{\n\t\t\treturn SBDF_ERROR_PROPERTY_ALREADY_EXISTS;\n\t\t}", ["C11"], [], False),
    "M16_objeq_first": ("src/object.c", "\t\tfor (i = 0; i < lhs->count; ++i)\n\t\t{\n\t\t\tint cmp = 0;", "\t\tfor (i = 0; i < lhs->count && i < 1; ++i)\n\t\t{\n\t\t\tint cmp = 0;", ["C15"], [], False),
    "M17_strcmp_len": ("src/sbdfstring.c", "\tif (r) return r;\n\treturn ll - rl;\n}\n\nchar* sbdf_str_copy", "\tif (r) return r;\n\treturn 0;\n}\n\nchar* sbdf_str_copy", ["C15"], [], False),
    "M18_noswap_read": ("src/internals.c", "\tsbdf_swap(v, sizeof(int), 1);\n\n\treturn SBDF_OK;", "\treturn SBDF_OK;", ["C17"], ["C01", "C16"], False),
    "M19_sorted_names": ("src/tablemetadata.c", "\t\tqsort((void*)array, array_size, sizeof(struct metadata_sort), compare_metadata_sort_by_order);", "\t\t/* keep the name order */", ["C03"], ["C01"], False),
    "M20_mdadd_oom": ("src/metadata.c", "\tresult = sbdf_obj_copy(value, &item->value);\n\tif (result < 0)", "\tresult = sbdf_obj_copy(value, &item->value);\n\tif (result > 0)", ["C14"], [], False),
    "M22_reader_unowned": ("src/tableslice.c", "\tt->owned = 1;\n\tt->table_metadata", "\tt->owned = 0;\n\tt->table_metadata", ["C12", "C05"], [], False),
    "M23_printf": ("src/fileheader.c", "\tif (v != id)\n\t{\n\t\treturn SBDF_ERROR_UNEXPECTED_SECTION_ID;", "\tif (v != id)\n\t{\n\t\tfprintf(stderr, \"unexpected section %d\\n\", v);\n\t\treturn SBDF_ERROR_UNEXPECTED_SECTION_ID;", ["C20"], [], False),
    "M24_static_scratch": ("src/internals.c", "int sbdf_write_int8(FILE* f, int v)\n{\n\tunsigned char c = v;", "int sbdf_write_int8(FILE* f, int v)\n{\n\tstatic unsigned char c;\n\tc = v;", ["C18"], [], False),
    # equivalent mutant: a continuation byte has bit 6 clear, a non-continuation byte is substituted anyway
    "H06_contmask_equivalent": ("src/sbdfstring.c", "uch += ch & 0x3f;", "uch += ch & 0x7f;", [], ["C19"], True),
    "M26_sizeonly": ("src/sbdfstring.c", "\t\t\tif (out)\n\t\t\t{\n\t\t\t\t*out++ = REPLACEMENT_CHAR;\n\t\t\t}\n\n\t\t\t++result;\n\t\t}\n\t}\n\n\tif (out)\n\t{\n\t\t*out++ = 0;\n\t}\n\n\t++result;\n\n\treturn result;\n}\n\nint sbdf_convert_iso88591_to_utf8", "\t\t\tif (out)\n\t\t\t{\n\t\t\t\t*out++ = REPLACEMENT_CHAR;\n\t\t\t\t++result;\n\t\t\t}\n\t\t}\n\t}\n\n\tif (out)\n\t{\n\t\t*out++ = 0;\n\t}\n\n\t++result;\n\n\treturn result;\n}\n\nint sbdf_convert_iso88591_to_utf8", ["C19"], [], False),
    "M27_skip_rle_rows": ("src/valuearray.c", "\t\t\t\tint ignored_row_cnt;\n\t\t\t\terr = sbdf_read_int32(file, &ignored_row_cnt);\n\t\t\t\tif (!err)\n\t\t\t\t{\n\t\t\t\t\terr = sbdf_obj_skip_arr(file, byte_vt);\n\t\t\t\t}", "\t\t\t\terr = sbdf_obj_skip_arr(file, byte_vt);", ["C07"], [], False),
    "M28_dflt_dropped": ("src/tablemetadata.c", "\t\t\t\telse if (!sbdf_obj_eq(array[i - 1].meta->default_value, array[i].meta->default_value))", "\t\t\t\telse if (0 && !sbdf_obj_eq(array[i - 1].meta->default_value, array[i].meta->default_value))", ["C01"], [], False),
    # the repairs of the audit round, broken again in ways their corpus lines do not replay
    "M29_drop_one_buffer": ("src/internals.c", "\twhile (n > 0)\n\t{\n\t\tsize_t k = n < (long)sizeof(buf)", "\tif (n > 0)\n\t{\n\t\tsize_t k = n < (long)sizeof(buf)", ["C07"], ["C01"], False),
    "M30_dupscan_adjacent": ("src/metadata.c", "\t\tfor (prev = head->first; prev != first; prev = prev->next)\n\t\t{\n\t\t\tif (!strcmp(first->name, prev->name))", "\t\tfor (prev = head->first; prev != first; prev = prev->next)\n\t\t{\n\t\t\tif (prev->next == first && !strcmp(first->name, prev->name))", ["C10"], [], False),
    "M31_fifth_group_mask": ("src/internals.c", "(uch & 0x70)", "(uch & 0x40)", ["C16"], [], False),
    "M32_skip_negative_ok": ("src/object.c", "\t\t\t\tif (skip < 0)\n\t\t\t\t{\n\t\t\t\t\treturn SBDF_ERROR_INVALID_SIZE;\n\t\t\t\t}\n", "\t\t\t\tif (skip < -4)\n\t\t\t\t{\n\t\t\t\t\treturn SBDF_ERROR_INVALID_SIZE;\n\t\t\t\t}\n", ["C09", "C07"], [], False),
    "M33_ts_write_fewer": ("src/tableslice.c", "slice->no_columns != slice->table_metadata->no_columns", "slice->no_columns > slice->table_metadata->no_columns", ["C01"], ["C11"], False),
    "M34_int8_not_sticky": ("src/internals.c", "if (fwrite(&c, sizeof(char), 1, f) != 1 || ferror(f))", "if (fwrite(&c, sizeof(char), 1, f) != 1)", ["C13"], ["C01"], False),
    # harmless rewrites: no check may report
    "H01_growth_x2": ("src/internals.c", "cap = 1 + cap * 3 / 2;", "cap = 1 + cap * 2;", [], ["C11", "C14", "C01", "C05"], True),
    "H02_obj401_io": ("src/object.c", "if (fwrite(*data, 1, length, f) != length || ferror(f))\n\t\t\t\t\t\t{\n\t\t\t\t\t\t\treturn SBDF_ERROR_OUT_OF_MEMORY;", "if (fwrite(*data, 1, length, f) != length || ferror(f))\n\t\t\t\t\t\t{\n\t\t\t\t\t\t\treturn SBDF_ERROR_IO;", [], ["C13", "C01", "C03"], True),
    "H03_memmove": ("src/sbdfstring.c", "\t\t\tmemcpy(ptr, str, length);", "\t\t\tmemmove(ptr, str, length);", [], ["C20", "C18", "C15"], True),
    "H04_const_table": ("src/internals.c", "int sbdf_ti_is_arr(int id)\n{\n\tswitch (id)\n\t{\n\tcase SBDF_STRINGTYPEID:\n\tcase SBDF_BINARYTYPEID:\n\t\treturn 1;\n\t}\n\n\treturn 0;\n}", "static const unsigned char arr_ids[2] = { SBDF_STRINGTYPEID, SBDF_BINARYTYPEID };\n\nint sbdf_ti_is_arr(int id)\n{\n\treturn id == arr_ids[0] || id == arr_ids[1];\n}", [], ["C18", "C20", "C03", "C02"], True),
    "H05_malloc_memset": ("src/columnslice.c", "\tt = calloc(1, sizeof(sbdf_columnslice));\n\tif (!t)\n\t{\n\t\treturn SBDF_ERROR_OUT_OF_MEMORY;\n\t}\n\n\tt->values = values;", "\tt = malloc(sizeof(sbdf_columnslice));\n\tif (!t)\n\t{\n\t\treturn SBDF_ERROR_OUT_OF_MEMORY;\n\t}\n\tmemset(t, 0, sizeof(sbdf_columnslice));\n\n\tt->values = values;", [], ["C14", "C11", "C12", "C20"], True),
}


def sh(cmd, **kw):
    return subprocess.run(cmd, stdout=subprocess.PIPE, stderr=subprocess.STDOUT, text=True, **kw)


def main():
    names = sys.argv[1:] or sorted(M)
    sh(["git", "-C", "/repo", "worktree", "remove", "--force", WT])
    r = sh(["git", "-C", "/repo", "worktree", "add", "--detach", WT, "HEAD"])
    assert r.returncode == 0, r.stdout
    sh(["cmake", "-G", "Ninja", "-B", WT + "/_build", "-S", WT])
    summary = {}
    try:
        for n in names:
            f, old, new, expect, quiet, harmless = M[n]
            d = os.path.join(ROOT, "seeded", "own", n)
            os.makedirs(d, exist_ok=True)
            sh(["git", "-C", WT, "checkout", "--", "."])
            src = open(os.path.join(WT, f)).read()
            if src.count(old) != 1:
                print(n, "PATTERN NOT UNIQUE (%d)" % src.count(old))
                continue
            open(os.path.join(WT, f), "w").write(src.replace(old, new))
            diff = sh(["git", "-C", WT, "diff", "--", "src", "include"]).stdout
            open(os.path.join(d, "patch.diff"), "w").write(diff)
            b = sh(["cmake", "--build", WT + "/_build"])
            t = sh(["ctest", "--test-dir", WT + "/_build", "-j1", "--timeout", "900"])
            passed = "100% tests passed" in t.stdout
            if b.returncode != 0 or not passed:
                print(n, "does not build or tests fail:", (b.stdout + t.stdout)[-300:].replace("\n", " "))
                summary[n] = "invalid (build/tests)"
                continue
            r = sh(["python3", os.path.join(ROOT, "tools", "seedtest.py"), os.path.join(d, "patch.diff")] + expect + quiet,
                   env=dict(os.environ, VERIF_SEED_WT="/tmp/own_seed_wt"))
            res = json.loads(r.stdout.strip().splitlines()[-1])
            caught = [p for p in expect if res[p]["violations"] > 0]
            missed = [p for p in expect if res[p]["violations"] == 0]
            noisy = [p for p in quiet if res[p]["violations"] > 0]
            meta = dict(name=n, kind="harmless rewrite" if harmless else "mutant", file=f, builds=True, tests_26_pass=True,
                        expected_to_report=expect, expected_quiet=quiet, reported=caught, missed=missed, false_alarms=noisy,
                        details=res)
            json.dump(meta, open(os.path.join(d, "meta.json"), "w"), indent=1)
            summary[n] = "caught=%s missed=%s noisy=%s" % (caught, missed, noisy)
            print(n, summary[n], flush=True)
    finally:
        sh(["git", "-C", "/repo", "worktree", "remove", "--force", WT])
    print(json.dumps(summary, indent=1))


if __name__ == "__main__":
    main()
