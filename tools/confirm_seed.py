#!/usr/bin/env python3
"""tools/confirm_seed.py <Cnn> [check ids...] — confirm a seeded change in a scratch worktree
(outside /repo and /verif, removed afterwards): the patch applies, the library builds, the 26
tests pass, the demonstration fails with the change and passes without it; then run the named
checks of /verif against it (tools/seedtest.py) and write seeded/<Cnn>/meta.json."""
import glob
import json
import os
import re
import subprocess
import sys

ROOT = os.path.dirname(os.path.dirname(os.path.abspath(__file__)))


def sh(cmd, **kw):
    return subprocess.run(cmd, stdout=subprocess.PIPE, stderr=subprocess.STDOUT, text=True, **kw)


def build_demo(wt, demo, out, extra=()):
    cc = "g++" if demo.endswith(".cpp") else "gcc"
    srcs = sorted(glob.glob(os.path.join(wt, "src", "*.c")))
    if demo.endswith(".cpp"):
        # compile C sources separately
        objs = []
        for s in srcs:
            o = os.path.join(os.path.dirname(out), os.path.basename(s) + ".o")
            r = sh(["gcc", "-g", "-w", "-fsanitize=address,undefined", "-I" + wt + "/include", "-I" + wt + "/src", "-c", s, "-o", o] + list(extra))
            objs.append(o)
        return sh([cc, "-g", "-w", "-fsanitize=address,undefined", "-I" + wt + "/include", "-I" + wt + "/src", demo] + objs + ["-lpthread", "-o", out])
    return sh([cc, "-g", "-w", "-fsanitize=address,undefined", "-I" + wt + "/include", "-I" + wt + "/src", demo] + srcs + list(extra) + ["-lpthread", "-o", out])


def main():
    sid = sys.argv[1]
    checks = sys.argv[2:]
    d = os.path.join(ROOT, "seeded", sid)
    patch = os.path.join(d, "patch.diff")
    demos = sorted(glob.glob(os.path.join(d, "demo.c")) + glob.glob(os.path.join(d, "demo.cpp")))
    wt = "/tmp/confirm_" + sid
    sh(["git", "-C", "/repo", "worktree", "remove", "--force", wt])
    r = sh(["git", "-C", "/repo", "worktree", "add", "--detach", wt, "HEAD"])
    head = sh(["git", "-C", "/repo", "rev-parse", "--short", "HEAD"]).stdout.strip()
    meta = dict(id=sid, property=sid[:3], patch="patch.diff", demonstration=os.path.basename(demos[0]) if demos else None,
                base_commit=head)
    try:
        os.makedirs(wt + "/_d", exist_ok=True)
        env = dict(os.environ, ASAN_OPTIONS="detect_leaks=0")
        # the demo's own build hints (defines) from its header comment
        extra = []
        if demos:
            head = open(demos[0]).read()[:3000]
            extra = sorted(set(re.findall(r"(-D[A-Za-z_]\w*(?:=[\w]+)?)", head)))
            extra = [x for x in extra if not x.startswith("-D_FORTIFY")]
        # unchanged library: demo must pass
        if demos:
            b0 = build_demo(wt, demos[0], wt + "/_d/demo0", extra)
            r0 = sh([wt + "/_d/demo0"], env=env, cwd=wt + "/_d", timeout=600) if b0.returncode == 0 else None
            meta["demo_unchanged"] = dict(built=b0.returncode == 0, exit=(r0.returncode if r0 else None), tail=(r0.stdout[-300:] if r0 else b0.stdout[-500:]))
        a = sh(["git", "-C", wt, "apply", patch])
        meta["patch_applies"] = a.returncode == 0
        sh(["cmake", "-G", "Ninja", "-B", wt + "/_build", "-S", wt])
        b = sh(["cmake", "--build", wt + "/_build"])
        t = sh(["ctest", "--test-dir", wt + "/_build", "-j1", "--timeout", "900"])
        m = re.search(r"(\d+)% tests passed, (\d+) tests failed out of (\d+)", t.stdout)
        meta["builds_with_change"] = b.returncode == 0
        meta["tests_with_change"] = m.group(0) if m else t.stdout[-200:]
        if demos:
            b1 = build_demo(wt, demos[0], wt + "/_d/demo1", extra)
            r1 = sh([wt + "/_d/demo1"], env=env, cwd=wt + "/_d", timeout=600) if b1.returncode == 0 else None
            meta["demo_with_change"] = dict(built=b1.returncode == 0, exit=(r1.returncode if r1 else None), tail=(r1.stdout[-400:] if r1 else b1.stdout[-500:]))
        meta["demo_build_flags"] = extra
    finally:
        sh(["git", "-C", "/repo", "worktree", "remove", "--force", wt])
        sh(["rm", "-rf", wt])
    ok = (meta.get("patch_applies") and meta.get("builds_with_change") and "100% tests passed" in str(meta.get("tests_with_change"))
          and (not demos or (meta["demo_unchanged"]["exit"] == 0 and meta["demo_with_change"]["exit"] not in (0, None))))
    meta["confirmed"] = bool(ok)
    notes = os.path.join(d, "notes.md")
    if os.path.exists(notes):
        meta["needs_to_manifest"] = open(notes).read()[:1500]
    if checks:
        r = sh(["python3", os.path.join(ROOT, "tools", "seedtest.py"), patch] + checks)
        try:
            res = json.loads(r.stdout.strip().splitlines()[-1])
        except Exception:
            res = {"error": r.stdout[-500:]}
        meta["checks_run"] = {k: dict(reported=v.get("violations", 0) > 0, with_failing_input=v.get("violations", 0) - v.get("nofail", 0),
                                      no_failing_input_found=v.get("nofail", 0), first=v.get("first", "")[:300]) for k, v in res.items() if isinstance(v, dict)}
    meta["what_was_run"] = ("scratch worktree of /repo HEAD under /tmp (removed): git apply patch.diff; cmake -G Ninja + ctest (26 tests); "
                            "demo built with gcc -fsanitize=address,undefined against src/*.c with and without the patch; "
                            "then tools/seedtest.py (git -C /repo apply; python3 check.py <ids> --tier quick; git -C /repo checkout -- .)")
    json.dump(meta, open(os.path.join(d, "meta.json"), "w"), indent=1)
    print(sid, "confirmed=%s" % meta["confirmed"], {k: v["reported"] for k, v in meta.get("checks_run", {}).items()},
          "demo0=%s demo1=%s tests=%s" % (meta.get("demo_unchanged", {}).get("exit"), meta.get("demo_with_change", {}).get("exit"), meta.get("tests_with_change")))


if __name__ == "__main__":
    main()
