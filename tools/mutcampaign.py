#!/usr/bin/env python3
"""tools/mutcampaign.py --seed S --count N --wt DIR [--out FILE] [--files a.c,b.c]

A generic mutation campaign against the machinery (not against /repo: every mutant lives in a
scratch worktree of /repo's HEAD, DIR, which is removed at the end).  Mutation sites are sampled
from /repo/src/*.c with a seeded PRNG; operators: relational swap, boundary shift, logical swap,
off-by-one on small constants, dropped `+ 1`/`- 1`, swapped status constants.  For every mutant
that still compiles and passes the 26 tests the quick checks run in a fixed order (SBDF_REPO=DIR)
until the first one reports; a mutant no check reports is a *survivor* and is written with its
diff for triage (equivalent, harmless for every property, or a blind spot of the checks).

One JSON object per mutant goes to --out (default: mutcampaign-<seed>.jsonl next to this file's
parent).  Safe to run in a `vp run` snapshot while /verif itself is being edited."""
import argparse
import json
import os
import random
import re
import subprocess
import time

ROOT = os.path.dirname(os.path.dirname(os.path.abspath(__file__)))
REPO = "/repo"
ORDER = ["C07", "C01", "C09", "C05", "C02", "C03", "C10", "C11", "C16", "C19", "C15", "C13", "C14",
         "C04", "C06", "C08", "C17", "C12", "C18", "C20"]

OPS = [
    (r"(?<![<>=!\-])<(?![<=])", "<="), (r"<=", "<"), (r"(?<![<>=!\-])>(?![>=])", ">="), (r">=", ">"),
    (r"==", "!="), (r"!=", "=="), (r"&&", "||"), (r"\|\|", "&&"),
    (r"\+ 1\b", ""), (r"- 1\b", ""), (r"\+ 1\b", "+ 2"), (r"\b0x7f\b", "0x3f"), (r"\b0x80\b", "0x40"),
    (r"\b128\b", "127"), (r"\b256\b", "255"), (r"\b7\b", "8"), (r"\b8\b", "7"), (r"\b32\b", "31"),
    (r"\+\+", "--"), (r"SBDF_ERROR_INVALID_SIZE", "SBDF_ERROR_IO"), (r"SBDF_ERROR_IO", "SBDF_ERROR_OUT_OF_MEMORY"),
    (r"\bbreak;", "continue;"), (r"\bif \(", "if (!("),
]


def sh(cmd, **kw):
    return subprocess.run(cmd, stdout=subprocess.PIPE, stderr=subprocess.STDOUT, text=True, **kw)


def sites(files):
    out = []
    for f in files:
        src = open(os.path.join(REPO, "src", f)).read().split("\n")
        incomment = False
        for i, line in enumerate(src):
            s = line.strip()
            if incomment:
                if "*/" in s:
                    incomment = False
                continue
            if s.startswith("/*"):
                if "*/" not in s:
                    incomment = True
                continue
            if not s or s.startswith("#") or s.startswith("//") or s.startswith("*"):
                continue
            code = line.split("/*")[0]
            # null-argument guards: no property speaks about null arguments, the harness passes none
            nxt = " ".join(x.strip() for x in src[i + 1:i + 3])
            if "SBDF_ERROR_ARGUMENT_NULL" in nxt or "SBDF_ERROR_ARGUMENT_NULL" in code:
                continue
            for k, (pat, rep) in enumerate(OPS):
                for m in re.finditer(pat, code):
                    out.append((f, i, m.start(), m.end(), k))
    return out


def mutate(line, a, z, k):
    pat, rep = OPS[k]
    if rep == "if (!(":
        # negate a whole condition: needs the matching parenthesis on the same line
        depth, j = 0, z - 1
        for j in range(z - 1, len(line)):
            if line[j] == "(":
                depth += 1
            elif line[j] == ")":
                depth -= 1
                if depth == 0:
                    break
        else:
            return None
        if depth != 0:
            return None
        return line[:a] + "if (!(" + line[z:j] + "))" + line[j + 1:]
    return line[:a] + rep + line[z:]


def main():
    ap = argparse.ArgumentParser()
    ap.add_argument("--seed", type=int, default=1)
    ap.add_argument("--count", type=int, default=20)
    ap.add_argument("--wt", required=True)
    ap.add_argument("--out")
    ap.add_argument("--files")
    a = ap.parse_args()
    out = a.out or os.path.join(ROOT, "mutcampaign-%d.jsonl" % a.seed)
    files = a.files.split(",") if a.files else sorted(f for f in os.listdir(os.path.join(REPO, "src")) if f.endswith(".c"))
    r = random.Random(a.seed)
    allsites = sites(files)
    r.shuffle(allsites)
    sh(["git", "-C", REPO, "worktree", "remove", "--force", a.wt])
    w = sh(["git", "-C", REPO, "worktree", "add", "--detach", a.wt, "HEAD"])
    assert w.returncode == 0, w.stdout
    sh(["cmake", "-G", "Ninja", "-B", a.wt + "/_build", "-S", a.wt])
    env = dict(os.environ, SBDF_REPO=a.wt, VERIF_EVIDENCE_DIR=os.path.join(ROOT, ".cache", "seed-evidence"))
    done = 0
    try:
        with open(out, "a") as fo:
            for (f, i, s0, s1, k) in allsites:
                if done >= a.count:
                    break
                sh(["git", "-C", a.wt, "checkout", "--", "."])
                path = os.path.join(a.wt, "src", f)
                src = open(path).read().split("\n")
                new = mutate(src[i], s0, s1, k)
                if new is None or new == src[i]:
                    continue
                rec = dict(file=f, line=i + 1, op=OPS[k][0] + " -> " + OPS[k][1], old=src[i].strip(), new=new.strip())
                src[i] = new
                open(path, "w").write("\n".join(src))
                b = sh(["cmake", "--build", a.wt + "/_build"])
                if b.returncode != 0:
                    continue            # does not compile: not a mutant
                t = sh(["timeout", "600", "ctest", "--test-dir", a.wt + "/_build", "-j4", "--timeout", "120"])
                done += 1
                if "100% tests passed" not in t.stdout:
                    rec["outcome"] = "killed by the 26 tests"
                    fo.write(json.dumps(rec) + "\n")
                    fo.flush()
                    continue
                rec["outcome"] = "survivor"
                t0 = time.time()
                for pid in ORDER:
                    c = sh(["python3", os.path.join(ROOT, "check.py"), pid, "--tier", "quick"], cwd=ROOT, env=env)
                    v = [l for l in c.stdout.splitlines() if l.startswith("VIOLATION")]
                    if v or c.returncode != 0:
                        why = [l for l in c.stdout.splitlines() if l.startswith("violation:")]
                        rec["outcome"] = "reported"
                        rec["by"] = pid
                        rec["nofail"] = all("no-failing-input-found" in l for l in v) if v else None
                        rec["why"] = (why[0][:300] if why else c.stdout[-300:])
                        break
                rec["secs"] = round(time.time() - t0, 1)
                if rec["outcome"] == "survivor":
                    rec["diff"] = sh(["git", "-C", a.wt, "diff", "--", "src"]).stdout
                fo.write(json.dumps(rec) + "\n")
                fo.flush()
                print(json.dumps({k2: rec[k2] for k2 in rec if k2 != "diff"}), flush=True)
    finally:
        sh(["git", "-C", REPO, "worktree", "remove", "--force", a.wt])
        sh(["git", "-C", REPO, "worktree", "prune"])
        sh(["python3", os.path.join(ROOT, "tools", "extract.py")])


if __name__ == "__main__":
    main()
