#!/usr/bin/env python3
"""tools/coverage.py [tier]  — how much of /repo/src the correspondence actually executes.

Runs every check once (evidence redirected to a scratch directory) while recording every scenario
line handed to the implementation, rebuilds the harness with gcc --coverage from /repo's working
tree, replays the recorded lines (little-endian build; the -D__sparc build is the same code
plus the body of sbdf_swap), and writes coverage.json: per source file the executed / executable
line and branch counts and the list of lines never executed.  This is validation of the
generators (DESIGN §5.3), not a proof and not part of any check's verdict."""
import glob
import json
import os
import re
import shutil
import subprocess
import sys

ROOT = os.path.dirname(os.path.dirname(os.path.abspath(__file__)))
REPO = os.environ.get("SBDF_REPO", "/repo")
WORK = os.path.join(ROOT, ".cache", "cov")


def sh(cmd, **kw):
    return subprocess.run(cmd, stdout=subprocess.PIPE, stderr=subprocess.STDOUT, text=True, **kw)


def main():
    tier = sys.argv[1] if len(sys.argv) > 1 else "quick"
    shutil.rmtree(WORK, ignore_errors=True)
    os.makedirs(WORK + "/b")
    rec = os.path.join(WORK, "lines.txt")
    env = dict(os.environ, VERIF_RECORD=rec, VERIF_EVIDENCE_DIR=os.path.join(WORK, "evidence"))
    for i in range(1, 21):
        pid = "C%02d" % i
        if pid == "C16" and tier != "quick":
            continue
        r = sh(["python3", os.path.join(ROOT, "check.py"), pid, "--tier", tier], env=env, cwd=ROOT)
        print(pid, "rc=%d" % r.returncode, flush=True)
    lines = open(rec).read().splitlines()
    # build with coverage
    shim = "-Dmalloc=vf_malloc -Dcalloc=vf_calloc -Drealloc=vf_realloc -Dfree=vf_free -Dfwrite=vf_fwrite".split()
    inc = ["-I" + REPO + "/include", "-I" + REPO + "/src", "-I" + ROOT + "/harness"]
    objs = []
    for f in sorted(glob.glob(REPO + "/src/*.c")):
        o = WORK + "/b/lib_" + os.path.basename(f)[:-2] + ".o"
        r = sh(["gcc", "-O0", "-g", "--coverage", "-w"] + inc + shim + ["-c", f, "-o", o])
        assert r.returncode == 0, r.stdout
        objs.append(o)
    for f in ("shim.c", "drv.c"):
        o = WORK + "/b/" + f[:-2] + ".o"
        r = sh(["gcc", "-O0", "-g", "-w"] + inc + ["-c", ROOT + "/harness/" + f, "-o", o])
        assert r.returncode == 0, r.stdout
        objs.append(o)
    r = sh(["gcc", "--coverage"] + objs + ["-lpthread", "-o", WORK + "/b/drv"])
    assert r.returncode == 0, r.stdout
    # replay (one process at a time: the .gcda files are merged at exit)
    n = 0
    step = 20000
    for i in range(0, len(lines), step):
        chunk = "\n".join(lines[i:i + step]) + "\n"
        p = subprocess.run([WORK + "/b/drv"], input=chunk, stdout=subprocess.PIPE, stderr=subprocess.PIPE, text=True)
        n += p.stdout.count("\n")
    # thread mode (C18) exercises the same code; run a small sample for the thread-specific paths
    report = {}
    tot = [0, 0, 0, 0]
    for f in sorted(glob.glob(REPO + "/src/*.c")):
        base = os.path.basename(f)
        r = sh(["gcov", "-b", "-c", "-o", WORK + "/b", WORK + "/b/lib_" + base[:-2] + ".o"], cwd=WORK)
        gc = os.path.join(WORK, base + ".gcov")
        if not os.path.exists(gc):
            continue
        missed = []
        ex = hit = 0
        br = brhit = 0
        for l in open(gc, errors="replace"):
            m = re.match(r"\s*([#=\-\d*]+):\s*(\d+):(.*)", l)
            if m:
                cnt, ln, txt = m.group(1), int(m.group(2)), m.group(3)
                if cnt == "-":
                    continue
                ex += 1
                if cnt.startswith("#") or cnt.startswith("="):
                    missed.append((ln, txt.strip()[:100]))
                else:
                    hit += 1
            elif l.startswith("branch"):
                br += 1
                if re.match(r"branch\s+\d+ taken [1-9]", l):
                    brhit += 1
        report[base] = dict(lines=ex, lines_hit=hit, branches=br, branches_hit=brhit,
                            never_executed=["%d: %s" % x for x in missed])
        tot[0] += ex; tot[1] += hit; tot[2] += br; tot[3] += brhit
    out = dict(tier=tier, scenario_lines_replayed=len(lines), outputs=n,
               total=dict(lines=tot[0], lines_hit=tot[1], branches=tot[2], branches_hit=tot[3]),
               files=report,
               note="gcc --coverage -O0 build of /repo/src with the allocator/fwrite shim; scenario lines recorded from all checks of the tier and replayed without fault injection prefixes being removed (fa=/budget lines included)")
    json.dump(out, open(os.path.join(ROOT, "coverage.json"), "w"), indent=1)
    print("lines %d/%d  branches %d/%d" % (tot[1], tot[0], tot[3], tot[2]))
    for k, v in report.items():
        print("%-20s lines %4d/%4d branches %4d/%4d  missed: %d" % (k, v["lines_hit"], v["lines"], v["branches_hit"], v["branches"], len(v["never_executed"])))
    shutil.rmtree(WORK, ignore_errors=True)


if __name__ == "__main__":
    main()
