import Sbdf.Basic
import Sbdf.Prim
import Sbdf.Object
import Sbdf.ValueArray
import Sbdf.Metadata
import Sbdf.TableMetadata
import Sbdf.Slice
import Sbdf.Str
