/-
  Line-protocol driver for the executable model.  Reads scenario lines on stdin, prints one
  canonical line per scenario — the same protocol as /verif/harness/drv.c, which runs the
  real library.  Imports model files only (no proofs, no Mathlib) so it links as a lean_exe.
-/
import Sbdf.Basic
import Sbdf.Prim
import Sbdf.Object
import Sbdf.ValueArray
import Sbdf.Metadata
import Sbdf.TableMetadata
import Sbdf.Slice
import Sbdf.Str
open Sbdf

namespace Drv

/-! ### text helpers -/

def hexDigit (n : Nat) : Char := if n < 10 then Char.ofNat (48 + n) else Char.ofNat (87 + n)

def hexOf (b : Bytes) : String :=
  if b.isEmpty then "-" else
  String.ofList (b.flatMap (fun x => [hexDigit (x.toNat / 16), hexDigit (x.toNat % 16)]))

def hv (c : Char) : Nat := if c.toNat ≤ 57 then c.toNat - 48 else c.toNat - 87

def unhexAux : List Char → Bytes → Bytes
  | a :: b :: rest, acc => unhexAux rest (UInt8.ofNat (hv a * 16 + hv b) :: acc)
  | _, acc => acc.reverse

def unhex (s : String) : Bytes := if s == "-" then [] else unhexAux s.toList []

def fnv (s : String) : UInt64 :=
  s.toUTF8.foldl (fun h b => (h ^^^ b.toUInt64) * 1099511628211) 1469598103934665603

def hex16 (h : UInt64) : String :=
  String.ofList ((List.range 16).map (fun i => hexDigit ((h.toNat / 16 ^ (15 - i)) % 16)))

structure DCfg where
  cfg : Cfg := {}
  full : Bool := false

def squash (d : DCfg) (lim : Nat) (s : String) : String :=
  if s.utf8ByteSize > lim && !d.full then s!"#{s.utf8ByteSize}:{hex16 (fnv s)}" else s

def hexq (d : DCfg) (b : Bytes) : String := squash d 512 (hexOf b)

def stI (s : Status) : String := toString s.toInt

def failS : Fail → String
  | .st s => stI s
  | .ub w => s!"UB({w})"

/-! ### tokens -/

abbrev Tk := StateM (List String)
def nx : Tk String := fun l => match l with | [] => ("", []) | t :: ts => (t, ts)
def nxN : Tk Nat := do let t ← nx; pure t.toNat!
def nxI : Tk Int := do let t ← nx; pure (t.toInt?.getD 0)
def nxB : Tk Bytes := do let t ← nx; pure (unhex t)
def hasTok : Tk Bool := fun l => (!l.isEmpty, l)

def nxMany (n : Nat) (p : Tk α) : Tk (List α) := do
  let mut acc := #[]
  for _ in [0:n] do acc := acc.push (← p)
  pure acc.toList

/-! ### objects -/

/-- OBJ := tid count e1..ecount ; `sbdf_obj_create_arr` -/
def parseObj : Tk (Except Status Obj) := do
  let tid ← nxN
  let count ← nxN
  let es ← nxMany count nxB
  if isArr tid then pure (.ok ⟨tid, es⟩) else
  match fixedSize tid with
  | .error e => pure (.error e)
  | .ok _ => pure (.ok ⟨tid, es⟩)

def dumpObj (d : DCfg) (o : Obj) : String :=
  if !isArr o.tid && (fixedSize o.tid).toOption.isNone then s!"{o.tid}:{o.count}:?" else
  squash d 256 (s!"{o.tid}:{o.count}:" ++ ",".intercalate (o.elems.map hexOf))

def dumpOptObj (d : DCfg) : Option Obj → String
  | none => "-"
  | some o => dumpObj d o

/-! ### value arrays -/

def emitAll (w : WOut) : Status × Bytes := emit none w

def dumpVA (d : DCfg) (va : VA) : String :=
  let vals := match getValues d.cfg va with
    | .ok o => "0:" ++ dumpObj d o
    | .error e => failS e
  let w := emitAll (writeVA d.cfg va)
  s!"rows={va.rowCnt},vals={vals},w={stI w.1}:{hexq d w.2}"

/-- VASPEC := enc OBJ -/
def parseVA : Tk (Except Status VA) := do
  let enc ← nxI
  let o ← parseObj
  match o with
  | .error e => pure (.error e)
  | .ok o => pure (if enc = 0 then createDflt o else vaCreate enc o)

/-! ### metadata -/

def dumpMd (d : DCfg) (m : Md) : String :=
  squash d 4096 (s!"m{if m.modifiable then 1 else 0}" ++ "{" ++
    String.join (m.entries.map (fun e =>
      hexOf e.name ++ "=" ++ dumpOptObj d e.value ++ "/" ++ dumpOptObj d e.dflt ++ ";")) ++ "}")

def probeMd (d : DCfg) (m : Md) : String :=
  squash d 4096 (s!"c{m.cnt}[" ++
    String.join ((m.entries.take 64).map (fun e =>
      (match Md.get e.name m with
        | .ok o => "g0:" ++ dumpObj d o
        | .error s => "g" ++ stI s) ++
      (match Md.getDflt e.name m with
        | .ok o => "d0:" ++ dumpOptObj d o
        | .error s => "d" ++ stI s) ++
      s!"e{if m.exists_ e.name then 1 else 0},")) ++ "]")

def dumpTM (d : DCfg) (t : TM) (probe : Bool) : String :=
  squash d 16384 ("T" ++ dumpMd d t.table ++ (if probe then probeMd d t.table else "") ++
    s!"N{t.cols.length}" ++
    String.join (t.cols.zipIdx.map (fun (col, i) =>
      "C" ++ dumpMd d col ++
      (if probe && i < 64 then
        probeMd d col ++
        (match cmGetName col with
          | .ok n => "n0:" ++ hexOf n
          | .error s => "n" ++ stI s) ++
        (match cmGetType col with
          | .ok t => s!"t0:{t}"
          | .error s => "t" ++ stI s)
       else ""))))

/-- MD := n (name OBJ hasd [OBJ]){n}; first error stops adding (tokens still consumed) -/
def parseMd : Tk (Md × Status) := do
  let n ← nxN
  let mut m := Md.empty
  let mut first := Status.ok
  for _ in [0:n] do
    let name ← nxB
    let v ← parseObj
    let hasd ← nxN
    let dv ← (if hasd ≠ 0 then do let x ← parseObj; pure (some x) else pure none)
    if first = .ok then
      match v with
      | .error e => first := e
      | .ok v =>
        match dv with
        | some (.error e) => first := e
        | some (.ok dd) =>
          match Md.add name v (some dd) m with
          | .ok m' => m := m'
          | .error e => first := e
        | none =>
          match Md.add name v none m with
          | .ok m' => m := m'
          | .error e => first := e
  pure (m, first)

/-! ### slices -/

def dumpCS (d : DCfg) : Option CS → String
  | none => "-"
  | some cs =>
    squash d 8192 ("V(" ++ dumpVA d cs.values ++ s!")r{cs.values.rowCnt}P{cs.propCnt}" ++ "{" ++
      String.join (cs.props.map (fun p =>
        hexOf p.1 ++ "=(" ++ dumpVA d p.2 ++ ")" ++
        (match csGetPropertyIdx cs p.1 with
          | some j => s!"g0@{j}"
          | none => "g" ++ stI .propNotFound) ++ ";")) ++ "}")

def dumpTS (d : DCfg) (ts : TS) : String :=
  squash d 32768 (s!"S{ts.cols.length}[" ++ "|".intercalate (ts.cols.map (dumpCS d)) ++ "]")

/-- TABLE, built in the order the harness builds it; first non-OK status -/
def parseTable : Tk (Table × Status) := do
  let (tmd, st0) ← parseMd
  let mut first := st0
  let mut tm : TM := ⟨Md.empty, []⟩
  if first = .ok then
    match tmCreate tmd with
    | .ok t => tm := t
    | .error e => first := e
  let ncols ← nxN
  for _ in [0:ncols] do
    let (cmd, st) ← parseMd
    if first = .ok then first := st
    if first = .ok then
      match tmAdd cmd tm with
      | .ok t => tm := t
      | .error e => first := e
  let nsl ← nxN
  let mut slices : Array TS := #[]
  for _ in [0:nsl] do
    let ncs ← nxN
    let mut tsl : TS := tsCreate
    for _ in [0:ncs] do
      let va ← parseVA
      let mut cs : CS := csCreate (.bit 0 0 [])
      if first = .ok then
        match va with
        | .error e => first := e
        | .ok v => cs := csCreate v
      let np ← nxN
      for _ in [0:np] do
        let name ← nxB
        let pv ← parseVA
        if first = .ok then
          match pv with
          | .error e => first := e
          | .ok v =>
            match csAddProperty cs name v with
            | .ok cs' => cs := cs'
            | .error e => first := e
      if first = .ok then tsl := tsAdd tsl cs
    if first = .ok then slices := slices.push tsl
  pure (⟨tm, slices.toList⟩, first)

/-- write calls until the first failure; (text, overall status, bytes) -/
def writeTableCalls (d : DCfg) (t : Table) : String × Status × Bytes := Id.run do
  let fh := emitAll fhWrite
  let mut out := s!"fh={stI fh.1}"
  let mut bytes := fh.2
  if fh.1 ≠ .ok then return (out, fh.1, bytes)
  let tm := emitAll (writeTM d.cfg t.tm)
  out := out ++ s!" tm={stI tm.1}"
  bytes := bytes ++ tm.2
  if tm.1 ≠ .ok then return (out, tm.1, bytes)
  out := out ++ " ts="
  let mut i := 0
  for ts in t.slices do
    let r := emitAll (writeTSOf d.cfg t.tm ts)
    out := out ++ (if i > 0 then "," else "") ++ stI r.1
    bytes := bytes ++ r.2
    if r.1 ≠ .ok then return (out, r.1, bytes)
    i := i + 1
  let e := emitAll writeTSEnd
  out := out ++ s!" end={stI e.1}"
  bytes := bytes ++ e.2
  return (out, e.1, bytes)

def parseSubset (s : String) : Option (List Bool) :=
  if s == "-" then none else some (s.toList.map (· == '1'))

/-- decode a value array and re-encode it with the default encoding -/
def reencVA (d : DCfg) (va : VA) : Except Status VA :=
  match getValues d.cfg va with
  | .error (.st s) => .error s
  | .error (.ub _) => .error .unknownError
  | .ok o => createDflt o

def reencCS (d : DCfg) (cs : CS) : Except Status CS := do
  let v ← reencVA d cs.values
  let mut out := csCreate v
  for p in cs.props do
    let pv ← reencVA d p.2
    out ← csAddProperty out p.1 pv
  pure out

def reencTS (d : DCfg) (ts : TS) : Except Status TS := do
  let mut cols : Array (Option CS) := #[]
  for c in ts.cols do
    match c with
    | none => throw .argNull
    | some cs => cols := cols.push (some (← reencCS d cs))
  pure ⟨cols.toList⟩

/-- ` rd:fh=.. tm=.. ts=.. end=.. bytes=..` -/
def reencodeDflt (d : DCfg) (tm : TM) (slices : List TS) : String := Id.run do
  let fh := emitAll fhWrite
  let mut out := s!" rd:fh={stI fh.1}"
  let mut bytes := fh.2
  let mut st := fh.1
  if st = .ok then
    let r := emitAll (writeTM d.cfg tm)
    out := out ++ s!" tm={stI r.1}"
    bytes := bytes ++ r.2
    st := r.1
  for ts in slices do
    if st = .ok then
      match reencTS d ts with
      | .error e => st := e; out := out ++ s!" ts={stI e}"
      | .ok ts' =>
        let r := emitAll (writeTSOf d.cfg tm ts')
        out := out ++ s!" ts={stI r.1}"
        bytes := bytes ++ r.2
        st := r.1
  if st = .ok then
    let e := emitAll writeTSEnd
    out := out ++ s!" end={stI e.1}"
    bytes := bytes ++ e.2
  return out ++ " bytes=" ++ hexq d bytes

def readFileDump (d : DCfg) (data : Bytes) (subset : Option (List Bool)) (probe : Bool) (rewrite : Nat) :
    String :=
  let r := readFile d.cfg subset data.toArray
  match r.fh with
  | .error e => s!"fh={failS e} pos=-"
  | .ok (ma, mi) =>
    let s0 := s!"fh=0:{ma}.{mi}"
    match r.tm with
    | none => s0 ++ " pos=-"
    | some (.error e) => s0 ++ s!" tm={failS e} pos=-"
    | some (.ok tm) =>
      let s1 := s0 ++ " tm=0:" ++ dumpTM d tm probe
      let s2 := s1 ++ String.join (r.slices.map (fun ts => " ts=0:" ++ dumpTS d ts))
      let s3 := s2 ++ (match r.last with
        | some (.tableEnd p) => s!" ts=-1000 pos={p}"
        | some (.failed e) => s!" ts={failS e} pos=-"
        | some (.fuel p) => s!" ts=FUEL pos={p}"
        | none => " pos=-")
      if rewrite > 0 then
        let (txt, _, bytes) := writeTableCalls d ⟨tm, r.slices⟩
        let s4 := s3 ++ " rw:" ++ txt ++ " bytes=" ++ hexq d bytes
        let ended := match r.last with | some (.tableEnd _) => true | some (.fuel _) => true | _ => false
        if rewrite = 2 && ended then s4 ++ reencodeDflt d tm r.slices else s4
      else s3

/-! ### scenarios -/

def c16One (d : DCfg) (n : Nat) : String :=
  let v := toInt32 (n % 4294967296)
  let w7 := bytes7 v
  let r7 := match read7 w7.toArray 0 with
    | .ok (x, p) => s!"0:{x}:{p}"
    | .error e => failS e
  let w32 := int32Bytes d.cfg v
  let r32 := match readInt32 d.cfg w32.toArray 0 with
    | .ok (x, _) => s!"0:{x}"
    | .error e => failS e
  s!"w7=0:{hexOf w7} len7={len7 v} r7={r7} w32=0:{hexOf w32} r32={r32}"

def scC16d (d : DCfg) (lo hi step : Nat) : String := Id.run do
  let mut h : UInt64 := 1469598103934665603
  let mut cnt := 0
  let mut n := lo
  while n < hi do
    let t := c16One d n
    h := t.toUTF8.foldl (fun h b => (h ^^^ b.toUInt64) * 1099511628211) h
    h := (h ^^^ 10) * 1099511628211
    cnt := cnt + 1
    n := n + step
  return s!"n={cnt} h={hex16 h}"

def sgnS (i : Int) : String := toString i

def scStrmk (a : Bytes) : String :=
  let c := cstr a
  s!"len={a.length} {hexOf (a ++ [0])} copy={a.length} {hexOf (a ++ [0])} cstr={c.length} {hexOf (c ++ [0])} ba={a.length} {hexOf a}"

def b01 (b : Bool) : String := if b then "1" else "0"

def scObjeq : Tk String := do
  let a ← parseObj
  let b ← parseObj
  match a, b with
  | .ok a, .ok b => pure s!"eq={b01 (objEq a b)} rev={b01 (objEq b a)} self=1 copy={b01 (objEq a a)}"
  | a, b =>
    let e := fun (x : Except Status Obj) => match x with | .ok _ => "0" | .error s => stI s
    pure s!"create={e a},{e b}"

def scConv (u2i : Bool) (inp : Bytes) : String :=
  let buf := cstr inp ++ [0]
  let size := if u2i then utf8ToLatin1Size buf else i2uSize buf
  let out := if u2i then utf8ToLatin1 buf else i2uOut buf
  match size, out with
  | .ok n, .ok o => s!"size={n} written={o.length + 1} out={hexOf (o ++ [0])}"
  | .error e, _ => s!"size={failS e}"
  | _, .error e => s!"out={failS e}"

def errStrModel (code : Int) : String :=
  -- the model of errors.c is the generated table Gen.Errors (checked by theorems);
  -- the driver does not duplicate it: errstr lines are compared by check.py against Gen
  s!"{code}"

def scVa (d : DCfg) : Tk String := do
  let enc ← nxI
  let o ← parseObj
  match o with
  | .error e => pure s!"obj={stI e}"
  | .ok o =>
    match (if enc = 0 then createDflt o else vaCreate enc o) with
    | .error e => pure s!"create={stI e} live=0"
    | .ok va =>
      let w := emitAll (writeVA d.cfg va)
      let data := (w.2 ++ [0xde, 0xad, 0xbe, 0xef, 1, 2, 3, 4]).toArray
      let rd := match readVA d.cfg data 0 with
        | .ok (v, p) => s!"0@{p}:" ++ dumpVA d v
        | .error e => failS e
      let sk := match skipVA d.cfg data 0 with
        | .ok (_, p) => s!"0@{p}"
        | .error e => failS e
      pure s!"create=0 {dumpVA d va} rd={rd} sk={sk} len={w.2.length} live=0"

def scVaread (d : DCfg) (b : Bytes) : String :=
  let data := b.toArray
  let rd := match readVA d.cfg data 0 with
    | .ok (v, p) => s!"0@{p}:" ++ dumpVA d v
    | .error e => failS e
  let sk := match skipVA d.cfg data 0 with
    | .ok (_, p) => s!"0@{p}"
    | .error e => failS e
  s!"rd={rd} sk={sk} live=0"

def scOarr (d : DCfg) : Tk String := do
  let o ← parseObj
  match o with
  | .error e => pure s!"obj={stI e}"
  | .ok o =>
    let pass := fun (u : Bool) =>
      let tag := if u then "u" else "a"
      let w := emitAll (if u then writeObj d.cfg o else writeObjArr d.cfg o)
      if w.1 ≠ .ok then s!"w{tag}={stI w.1}" else
      let data := (w.2 ++ [0xde, 0xad, 0xbe, 0xef]).toArray
      let rd := match (if u then readObj d.cfg o.tid else readObjArr d.cfg o.tid) data 0 with
        | .ok (v, p) => s!"0@{p}:" ++ dumpObj d v ++ s!":eq={if objEq o v then 1 else 0}"
        | .error e => failS e
      let sk := match (if u then skipObj d.cfg o.tid else skipObjArr d.cfg o.tid) data 0 with
        | .ok (_, p) => s!"0@{p}"
        | .error e => failS e
      s!"w{tag}=0:{hexq d w.2} r{tag}={rd} s{tag}={sk}"
    let one := if o.count = 1 then s!" one=0:{dumpObj d o}:eq=1" else ""
    pure (pass false ++ " " ++ pass true ++ one ++ " live=0")

/-- `radd HEX K`: appending to what the readers returned -/
def scRadd (d : DCfg) (b : Bytes) (k : Nat) : String := Id.run do
  let arr := b.toArray
  match fhRead arr 0 with
  | .error e => return s!"fh={failS e} live=0"
  | .ok (_, p) =>
    match readTM d.cfg arr p with
    | .error e => return s!"fh=0 tm={failS e} live=0"
    | .ok (tm0, p2) =>
      let mut out := "fh=0 tm=0"
      let tsr := readTS d.cfg tm0.cols.length none arr p2
      let ts : Option TS := match tsr with
        | .ok (some t, _) => some t
        | _ => none
      out := out ++ (match tsr with
        | .ok (some _, _) => " ts=0"
        | .ok (none, _) => " ts=-1000"
        | .error e => s!" ts={failS e}")
      -- a new table-metadata object made from the pieces the reader returned
      match tmCreate tm0.table with
      | .error e => out := out ++ s!" cp={stI e}"
      | .ok t2 =>
        let mut t := t2
        let mut e : Status := .ok
        for col in tm0.cols do
          if e = .ok then
            match tmAdd col t with
            | .ok t' => t := t'
            | .error x => e := x
        out := out ++ s!" cp=0,{stI e}:{t.cols.length}"
        let w2 := emitAll (writeTM d.cfg t)
        out := out ++ s!" cpw={stI w2.1}:{hexq d w2.2}"
      -- K columns added to the table metadata
      let mut tm := tm0
      let mut sts : List String := []
      for i in [0:k] do
        let name := (s!"x{i}").toUTF8.toList
        let (cm, st) := cmSetValues name 2 Md.empty
        if st ≠ .ok then sts := sts ++ [stI st] else
        match tmAdd cm tm with
        | .ok t' => tm := t'; sts := sts ++ ["0"]
        | .error e => sts := sts ++ [stI e]
      out := out ++ s!" tmadd={",".intercalate sts}:{tm.cols.length}"
      let w := emitAll (writeTM d.cfg tm)
      out := out ++ s!" tmw={stI w.1}:{hexq d w.2}"
      match ts with
      | none => return out ++ " live=0"
      | some t =>
        let mut cols := t.cols
        match cols.head? with
        | some (some c0) =>
          let rows := c0.values.rowCnt.toNat
          let mut c := c0
          let mut ps : List String := []
          for i in [0:k] do
            let name := (s!"q{i}").toUTF8.toList
            let va := VA.plain ⟨2, List.replicate rows [0, 0, 0, 0]⟩
            match csAddProperty c name va with
            | .ok c' => c := c'; ps := ps ++ ["0"]
            | .error e => ps := ps ++ [stI e]
          out := out ++ s!" padd={",".intercalate ps}:{c.propCnt}"
          cols := some c :: cols.tail
        | _ => pure ()
        let mut cs : List String := []
        for i in [0:k] do
          let va := VA.plain ⟨2, [[7, UInt8.ofNat i, 0, 0]]⟩
          cols := cols ++ [some (csCreate va)]
          cs := cs ++ ["0"]
        out := out ++ s!" cadd={",".intercalate cs}:{cols.length}"
        let tw := emitAll (writeTSOf d.cfg tm ⟨cols⟩)
        out := out ++ s!" tsw={stI tw.1}:{hexq d tw.2}"
        return out ++ " live=0"

def scFsk (d : DCfg) (b : Bytes) : String :=
  let arr := b.toArray
  match fhRead arr 0 with
  | .error e => s!"fh={failS e} pos=- live=0"
  | .ok ((ma, mi), p) =>
    match readTM d.cfg arr p with
    | .error e => s!"fh=0:{ma}.{mi} tm={failS e} pos=- live=0"
    | .ok (tm, p2) =>
      let n := tm.cols.length
      let r := readSlices d.cfg n (some (List.replicate n false)) arr (arr.size + 8) p2
      let s := String.join (r.1.map (fun _ => " ts=0"))
      let e := match r.2 with
        | .tableEnd p => s!" ts=-1000 pos={p}"
        | .failed e => s!" ts={failS e} pos=-"
        | .fuel p => s!" ts=FUEL pos={p}"
      s!"fh=0:{ma}.{mi} tm=0" ++ s ++ e ++ " live=0"

def scOskip (d : DCfg) (tid : Nat) (b : Bytes) : String :=
  let data := b.toArray
  let rd := match readObj d.cfg tid data 0 with
    | .ok (v, p) => s!"0@{p}:" ++ dumpObj d v
    | .error e => failS e
  let sk := match skipObj d.cfg tid data 0 with
    | .ok (_, p) => s!"0@{p}"
    | .error e => failS e
  s!"rd={rd} sk={sk} live=0"

def exS (r : Except Status α) : String := match r with | .ok _ => "0" | .error e => stI e

partial def scMd (d : DCfg) : Tk String := do
  let mut r : Array (Option Md) := Array.replicate 8 none
  let mut tms : Array TM := #[]
  let mut out := ""
  while (← hasTok) do
    let op ← nx
    if op == "new" then
      let a ← nxN
      r := r.set! a (some Md.empty)
      out := out ++ "0~"
    else if op == "add" then
      let a ← nxN
      let name ← nxB
      let v ← parseObj
      let hasd ← nxN
      let dv ← (if hasd ≠ 0 then do let x ← parseObj; pure (some x) else pure none)
      let m := (r[a]!).getD Md.empty
      let res : Except Status Md := match v, dv with
        | .error e, _ => .error e
        | _, some (.error e) => .error e
        | .ok v, some (.ok dd) => Md.add name v (some dd) m
        | .ok v, none => Md.add name v none m
      match res with
      | .ok m' => r := r.set! a (some m'); out := out ++ "0~"
      | .error e => out := out ++ stI e ++ "~"
    else if op == "addstr" then
      let a ← nxN
      let name ← nxB
      let v ← nxB
      let hasd ← nxN
      let dv ← (if hasd ≠ 0 then do let x ← nxB; pure (some x) else pure none)
      let m := (r[a]!).getD Md.empty
      match Md.addStr name v dv m with
      | .ok m' => r := r.set! a (some m'); out := out ++ "0~"
      | .error e => out := out ++ stI e ++ "~"
    else if op == "addint" then
      let a ← nxN
      let name ← nxB
      let v ← nxI
      let dv ← nxI
      let m := (r[a]!).getD Md.empty
      match Md.addInt d.cfg name v dv m with
      | .ok m' => r := r.set! a (some m'); out := out ++ "0~"
      | .error e => out := out ++ stI e ++ "~"
    else if op == "rm" then
      let a ← nxN
      let name ← nxB
      let m := (r[a]!).getD Md.empty
      match Md.remove name m with
      | .ok m' => r := r.set! a (some m'); out := out ++ "0~"
      | .error e => out := out ++ stI e ++ "~"
    else if op == "get" then
      let a ← nxN
      let name ← nxB
      let m := (r[a]!).getD Md.empty
      match Md.get name m with
      | .ok o => out := out ++ "0:" ++ dumpObj d o ++ "~"
      | .error e => out := out ++ stI e ++ "~"
    else if op == "getd" then
      let a ← nxN
      let name ← nxB
      let m := (r[a]!).getD Md.empty
      match Md.getDflt name m with
      | .ok o => out := out ++ "0:" ++ dumpOptObj d o ++ "~"
      | .error e => out := out ++ stI e ++ "~"
    else if op == "ex" then
      let a ← nxN
      let name ← nxB
      let m := (r[a]!).getD Md.empty
      out := out ++ b01 (m.exists_ name) ++ "~"
    else if op == "cnt" then
      let a ← nxN
      out := out ++ toString ((r[a]!).getD Md.empty).cnt ++ "~"
    else if op == "copy" then
      let a ← nxN
      let b ← nxN
      match Md.copy ((r[a]!).getD Md.empty) ((r[b]!).getD Md.empty) with
      | .ok m' => r := r.set! b (some m'); out := out ++ "0~"
      | .error e => out := out ++ stI e ++ "~"
    else if op == "freeze" then
      let a ← nxN
      r := r.set! a (some ((r[a]!).getD Md.empty).freeze)
      out := out ++ "0~"
    else if op == "dump" then
      let a ← nxN
      out := out ++ dumpMd d ((r[a]!).getD Md.empty) ++ "~"
    else if op == "setcm" then
      let a ← nxN
      let name ← nxB
      let tid ← nxN
      let (m', st) := cmSetValues name tid ((r[a]!).getD Md.empty)
      r := r.set! a (some m')
      out := out ++ stI st ++ "~"
    else if op == "getcm" then
      let a ← nxN
      let m := (r[a]!).getD Md.empty
      out := out ++ (match cmGetName m with
          | .ok n => "n0:" ++ hexOf n
          | .error s => "n" ++ stI s) ++
        (match cmGetType m with
          | .ok t => s!"t0:{t}"
          | .error s => "t" ++ stI s) ++ "~"
    else if op == "tm" then
      let a ← nxN
      let res := tmCreate ((r[a]!).getD Md.empty)
      out := out ++ exS res
      let mut tm : TM := ⟨Md.empty, []⟩
      if let .ok t := res then tm := t
      let mut go := true
      while go do
        let t ← nx
        if t == "end" || t == "" then go := false
        else if let .ok _ := res then
          match tmAdd ((r[t.toNat!]!).getD Md.empty) tm with
          | .ok t' => tm := t'; out := out ++ ",0"
          | .error e => out := out ++ "," ++ stI e
      if let .ok _ := res then
        out := out ++ ":" ++ dumpTM d tm false ++ ":" ++ exS (Md.remove "x".toUTF8.toList tm.table)
        if tms.size < 8 then tms := tms.push tm
      out := out ++ "~"
    else
      out := out ++ s!"BADOP({op})~"
  for tm in tms do
    out := out ++ "tms:" ++ dumpTM d tm false ++ "~"
  pure (out ++ "live=0")

def scRt (d : DCfg) (rewrite : Nat) : Tk String := do
  let (t, st) ← parseTable
  if st ≠ .ok then pure s!"build={stI st} live=0" else
  let (txt, wst, bytes) := writeTableCalls d t
  let s := s!"build=0 {txt} bytes={hexq d bytes}"
  if wst ≠ .ok then pure (s ++ " live=0") else
  pure (s ++ " | " ++ readFileDump d bytes none true rewrite ++ " live=0")

/-- cs VASPEC n (name VASPEC){n} m -/
def scCs (d : DCfg) : Tk String := do
  let values ← parseVA
  let n ← nxN
  let mut out := s!"values={exS values}"
  let mut cs : CS := csCreate (.bit 0 0 [])
  let ok := match values with | .ok _ => true | .error _ => false
  if let .ok v := values then
    cs := csCreate v
    out := out ++ " create=0"
  -- owner[i] = index of the addition that supplied property i of the slice
  let mut owner : Array Nat := #[]
  let mut names : Array Bytes := #[]
  for i in [0:n] do
    let name ← nxB
    let pv ← parseVA
    names := names.push name
    if ok then
      match pv with
      | .error e => out := out ++ s!" a{i}=va{stI e}"
      | .ok v =>
        match csAddProperty cs name v with
        | .ok cs' => cs := cs'; owner := owner.push i; out := out ++ s!" a{i}=0/{cs.propCnt}"
        | .error e => out := out ++ s!" a{i}={stI e}/{cs.propCnt}"
  let m ← nxN
  if ok then
    out := out ++ s!" rows={cs.values.rowCnt}"
    for i in [0:n] do
      match csGetPropertyIdx cs names[i]! with
      | some j => out := out ++ s!" g{i}=0@{owner[j]!}"
      | none => out := out ++ s!" g{i}={stI .propNotFound}"
    let w := emitAll (writeCS d.cfg cs)
    out := out ++ s!" w={stI w.1}:{hexq d w.2}"
    if w.1 = .ok then
      let data := w.2.toArray
      let csr := match readCS d.cfg data 0 with
        | .ok (x, p) => s!"0@{p}:{x.values.rowCnt}:{x.props.length}" ++ String.join (x.props.map (fun _ => ",0"))
        | .error e => failS e
      let css := match skipCS d.cfg data 0 with
        | .ok (_, p) => s!"0@{p}"
        | .error e => failS e
      out := out ++ s!" csr={csr} css={css}"
    out := out ++ s!" ts=0:{m}:1"
    let tw := emitAll (writeTS d.cfg ⟨List.replicate m (some cs)⟩)
    out := out ++ s!" tsw={stI tw.1}:{hexq d tw.2}"
  pure (out ++ " live=0")

def scFw (d : DCfg) : Tk String := do
  let budget ← nxN
  let (t, st) ← parseTable
  if st ≠ .ok then pure s!"build={stI st} live=0" else
  -- every call is made; the stream keeps refusing after the first refusal
  let calls : List WOut :=
    [fhWrite, writeTM d.cfg t.tm] ++ t.slices.map (writeTSOf d.cfg t.tm) ++ [writeTSEnd]
  let step := fun (acc : Nat × List Status × Bytes) (w : WOut) =>
    let r := emit (some acc.1) w
    -- after a refusal the budget is 0; otherwise it shrinks by what was written
    let refused := (emitChunks (some acc.1) w.chunks).1 ≠ .ok
    ((if refused then 0 else acc.1 - r.2.length), acc.2.1 ++ [r.1], acc.2.2 ++ r.2)
  let res := calls.foldl step (budget, [], [])
  let sts := res.2.1
  let fh := sts.headD .ok
  let tm := (sts.drop 1).headD .ok
  let tss := ((sts.drop 2).take t.slices.length)
  let en := sts.getLastD .ok
  -- the same calls again on a stream that accepts everything (the objects are unchanged)
  let res2 := calls.foldl (fun (acc : List Status × Bytes) (w : WOut) =>
    let r := emit none w
    (acc.1 ++ [r.1], acc.2 ++ r.2)) ([], [])
  let sts2 := res2.1
  let again := s!" again:fh={stI (sts2.headD .ok)} tm={stI ((sts2.drop 1).headD .ok)} ts={",".intercalate (((sts2.drop 2).take t.slices.length).map stI)} end={stI (sts2.getLastD .ok)} bytes={hexq d res2.2}"
  pure (s!"build=0 fh={stI fh} tm={stI tm} ts={",".intercalate (tss.map stI)} end={stI en} bytes={hexq d res.2.2}" ++ again ++ " live=0")

partial def scenario (d : DCfg) : Tk String := do
  let kind ← nx
  if kind.startsWith "cap=" then
    scenario { d with cfg := { d.cfg with cap := (kind.drop 4).toString.toNat! } }
  else if kind == "full" then scenario { d with full := true }
  else if kind == "c16" then do let n ← nxN; pure (c16One d n)
  else if kind == "c16d" then do
    let lo ← nxN; let hi ← nxN; let step ← nxN; pure (scC16d d lo hi step)
  else if kind == "r7" then do
    let b ← nxB
    pure (match read7 b.toArray 0 with
      | .ok (x, p) => s!"r7=0:{x} pos={p}"
      | .error e => s!"r7={failS e}")
  else if kind == "strcmp" then do
    let a ← nxB; let b ← nxB
    pure s!"str={strCmp a b} ba={strCmp a b}"
  else if kind == "strmk" then do let a ← nxB; pure (scStrmk a)
  else if kind == "objeq" then scObjeq
  else if kind == "u2i" then do let a ← nxB; pure (scConv true a)
  else if kind == "i2u" then do let a ← nxB; pure (scConv false a)
  else if kind == "errstr" then do let c ← nxI; pure (errStrModel c)
  else if kind == "va" then scVa d
  else if kind == "varead" then do let b ← nxB; pure (scVaread d b)
  else if kind == "oarr" then scOarr d
  else if kind == "radd" then do let b ← nxB; let k ← nxN; pure (scRadd d b k)
  else if kind == "fsk" then do let b ← nxB; pure (scFsk d b)
  else if kind == "oskip" then do let t ← nxN; let b ← nxB; pure (scOskip d t b)
  else if kind == "md" then scMd d
  else if kind.startsWith "fa=" then scenario d
  else if kind.startsWith "pipe=" then scenario { d with cfg := { d.cfg with pipe := true } }
  else if kind == "rt" then scRt d 0
  else if kind == "rtw" then scRt d 1
  else if kind == "rtd" then scRt d 2
  else if kind == "cs" then scCs d
  else if kind == "fr" || kind == "frw" then do
    let b ← nxB
    let sub ← nx
    pure (readFileDump d b (parseSubset sub) true (if kind == "frw" then 1 else 0) ++ " live=0")
  else if kind == "fw" then scFw d
  else if kind == "" then pure ""
  else pure s!"UNKNOWN({kind})"

partial def loop (h : IO.FS.Stream) (out : IO.FS.Stream) (d : DCfg) : IO Unit := do
  let line ← h.getLine
  if line.isEmpty then return ()
  let toks := (line.trimAscii.toString.splitOn " ").filter (· ≠ "")
  let (res, _) := (scenario d).run toks
  out.putStrLn res
  out.flush
  loop h out d

end Drv

def main (args : List String) : IO Unit := do
  let d : Drv.DCfg := { cfg := { swap := args.contains "--be" } }
  Drv.loop (← IO.getStdin) (← IO.getStdout) d
