/-
  Sbdf.ValueArray — model of src/valuearray.c.
-/
import Sbdf.Object
namespace Sbdf

/-- `struct sbdf_valuearray` by encoding.  Exactly what the C struct keeps:
    plain: object1 (valuetype = its type); rle: value1 = rows, object1 = run bytes,
    object2 = values (valuetype = its type); bit: valuetype byte as stored, value1 = rows,
    object1 = one binary element holding the packed bits. -/
inductive VA where
  | plain (o : Obj)
  | rle (rows : Int) (runs : Bytes) (vals : Obj)
  | bit (vt : Nat) (rows : Int) (bits : Bytes)
  deriving Repr, DecidableEq, Inhabited

/-! ### run-length encoder (valuearray.c:144-222) -/

/-- the loop with a current run (`run ≥ 1` copies of `prev` seen) -/
def rleLoop : List Bytes → Nat → Bytes → List (UInt8 × Bytes)
  | [], run, prev => [(UInt8.ofNat (run - 1), prev)]
  | cur :: rest, run, prev =>
    if run = 256 ∨ prev ≠ cur then (UInt8.ofNat (run - 1), prev) :: rleLoop rest 1 cur
    else rleLoop rest (run + 1) cur

/-- empty input: no runs (repair F2) -/
def rleEncode : List Bytes → List (UInt8 × Bytes)
  | [] => []
  | e :: es => rleLoop es 1 e

/-- decoder loop (valuearray.c:448-470): `run+1` copies per entry -/
def rleExpand : List (UInt8 × Bytes) → List Bytes
  | [] => []
  | (r, v) :: rest => List.replicate (r.toNat + 1) v ++ rleExpand rest

def rleTotal (runs : Bytes) : Nat := runs.foldl (fun acc r => acc + r.toNat + 1) 0

/-! ### bit packing (valuearray.c:293-343, 477-526) -/

/-- value of a bit list, most significant bit first -/
def bitsVal : List Bool → Nat
  | [] => 0
  | b :: bs => (if b then 1 else 0) * 2 ^ bs.length + bitsVal bs

/-- one output byte from up to 8 bits: MSB first, the missing low bits are zero -/
def byteOfBits (g : List Bool) : UInt8 := UInt8.ofNat (bitsVal (g ++ List.replicate (8 - g.length) false))

/-- the 8 bits of a byte, MSB first (`value & 128`, then shift left) -/
def bitsOfByte (x : UInt8) : List Bool := (List.range 8).map (fun j => (x.toNat / 2 ^ (7 - j)) % 2 = 1)

/-- pack MSB-first, left-align the last partial byte (zero padded) -/
def packBits : List Bool → Bytes
  | [] => []
  | b :: bs => byteOfBits ((b :: bs).take 8) :: packBits ((b :: bs).drop 8)
termination_by l => l.length
decreasing_by simp [List.length_drop]; omega

/-- `sbdf_get_bitarray_values` loop: one output element per row, walking the bytes MSB first -/
def unpackBits (rows : Nat) (bits : Bytes) : List Bool := (bits.flatMap bitsOfByte).take rows

def boolByte (b : Bool) : Bytes := [if b then 1 else 0]

/-- C `/` and `%` on ints: `v / 8 + !!(v % 8)` -/
def packedSize (v : Int) : Int := Int.tdiv v 8 + (if Int.tmod v 8 ≠ 0 then 1 else 0)

/-! ### constructors -/

def isZeroElem (e : Bytes) : Bool := e.all (· == 0)

/-- `sbdf_va_create_plain` -/
def createPlain (o : Obj) : Except Status VA :=
  if isArr o.tid then .ok (.plain o) else
  match fixedSize o.tid with
  | .error e => .error e
  | .ok _ => .ok (.plain o)

/-- `sbdf_va_create_rle` -/
def createRle (o : Obj) : Except Status VA :=
  let mk := fun (_ : Unit) =>
    let rs := rleEncode o.elems
    VA.rle o.count (rs.map (·.1)) ⟨o.tid, rs.map (·.2)⟩
  if isArr o.tid then .ok (mk ()) else
  match fixedSize o.tid with
  | .error e => .error e
  | .ok _ => .ok (mk ())

/-- `sbdf_va_create_bit`: fixed-size elements are tested against zero bytes; for
    string/binary the element *pointer* is tested, which is never null for objects built
    through the API, so every bit is 1. -/
def createBit (o : Obj) : Except Status VA :=
  if isArr o.tid then .ok (.bit 1 o.count (packBits (o.elems.map (fun _ => true)))) else
  match fixedSize o.tid with
  | .error e => .error e
  | .ok _ => .ok (.bit 1 o.count (packBits (o.elems.map (fun e => !isZeroElem e))))

/-- `sbdf_va_create_dflt` -/
def createDflt (o : Obj) : Except Status VA :=
  if o.tid = 1 then createBit o else createPlain o

/-- `sbdf_va_create` -/
def vaCreate (enc : Int) (o : Obj) : Except Status VA :=
  if enc = 1 then createPlain o else if enc = 2 then createRle o
  else if enc = 3 then createBit o else .error .unknownEncoding

/-! ### accessors -/

/-- `sbdf_va_row_cnt` -/
def VA.rowCnt : VA → Int
  | .plain o => o.count
  | .rle rows _ _ => rows
  | .bit _ rows _ => rows

/-- stored valuetype byte -/
def VA.vt : VA → Nat
  | .plain o => o.tid
  | .rle _ _ vals => vals.tid
  | .bit vt _ _ => vt

def VA.enc : VA → Nat
  | .plain _ => 1 | .rle .. => 2 | .bit .. => 3

/-- element size the decoders use: pointer size for string/binary -/
def elemSizeOrPtr (tid : Nat) : Except Status Nat :=
  if isArr tid then .ok 8 else fixedSize tid

/-- `sbdf_va_get_values`.  `Except Fail`: the ghost checks state what the buffer-filling
    loops need; after the repairs (F5) inconsistent run-length arrays are refused with
    INVALID_SIZE before the loops run. -/
def getValues (c : Cfg) : VA → Except Fail Obj
  | .plain o => .ok o
  | .rle rows runs vals =>
    match elemSizeOrPtr vals.tid with
    | .error e => .error (.st e)
    | .ok sz =>
      if runs.length ≠ vals.count then .error (.st .invalidSize)
      else if (rleTotal runs : Int) ≠ rows then .error (.st .invalidSize)
      else if rows > INT_MAX / sz then .error (.st .invalidSize)
      else if (sz : Int) * rows > c.cap then .error (.st .oom)
      else
        let out := rleExpand (runs.zip vals.elems)
        if out.length ≠ rows.toNat then .error (.ub "rle expansion does not fill the row count")
        else .ok ⟨vals.tid, out⟩
  | .bit _ rows bits =>
    if rows < 0 ∨ rows > c.cap then .error (.st .oom)
    else if bits.length * 8 < rows.toNat then .error (.ub "bit decode reads past the packed buffer")
    else .ok ⟨1, (unpackBits rows.toNat bits).map boolByte⟩

/-! ### stream form (valuearray.c:548-779) -/

def runsObj (runs : Bytes) : Obj := ⟨254, runs.map (fun b => [b])⟩

/-- `sbdf_va_write` -/
def writeVA (c : Cfg) : VA → WOut
  | .plain o => writeInt8 1 ++ writeInt8 o.tid ++ writeObjArr c o
  | .rle rows runs vals =>
    writeInt8 2 ++ writeInt8 vals.tid ++ writeInt32 c rows ++ writeObjArr c (runsObj runs) ++
    writeObjArr c vals
  | .bit vt rows bits => writeInt8 3 ++ writeInt8 vt ++ writeInt32 c rows ++ WOut.one bits

/-- `sbdf_va_read` -/
def readVA (c : Cfg) : P VA := do
  let e ← readInt8
  let vt ← readInt8
  if e = 1 then do
    let o ← readObjArr c vt
    P.pure (.plain o)
  else if e = 2 then do
    let rows ← readInt32 c
    let runs ← readObjArr c 254
    let vals ← readObjArr c vt
    P.pure (.rle rows runs.elems.flatten vals)
  else if e = 3 then do
    let v ← readInt32 c
    -- repair F20: a negative row count is refused (the skip branch would seek backwards)
    if v < 0 then P.fail .invalidSize else
    let ps := packedSize v
    alloc c ps
    let bits ← readN ps.toNat
    allocBa c ps
    P.pure (.bit vt v bits)
  else P.fail .unknownEncoding

/-- `sbdf_va_skip` (the shared routine with `handle == NULL`) -/
def skipVA (c : Cfg) : P Unit := do
  let e ← readInt8
  let vt ← readInt8
  if e = 1 then skipObjArr c vt
  else if e = 2 then do
    let _ ← readInt32 c      -- row count (repair: the skip branch did not consume it)
    skipObjArr c 254
    skipObjArr c vt
  else if e = 3 then do
    let v ← readInt32 c
    if v < 0 then P.fail .invalidSize else
    skipBytes c (packedSize v)
  else P.fail .unknownEncoding

end Sbdf
