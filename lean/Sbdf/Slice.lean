/-
  Sbdf.Slice — model of src/columnslice.c and src/tableslice.c, and the whole-file
  reader/writer loops a caller runs.
-/
import Sbdf.ValueArray
import Sbdf.TableMetadata
namespace Sbdf

/-- `sbdf_columnslice`: values, `prop_cnt` as stored (a stream may carry a non-positive
    count, then there are no properties), and the (name, array) pairs in order. -/
structure CS where
  values : VA
  propCnt : Int
  props : List (Bytes × VA)
  deriving Repr, DecidableEq, Inhabited

/-- `sbdf_tableslice.columns`: `none` = NULL (skipped by a column subset) -/
structure TS where
  cols : List (Option CS)
  deriving Repr, DecidableEq, Inhabited

/-! ### column slice API (columnslice.c:20-122) -/

def csCreate (values : VA) : CS := ⟨values, 0, []⟩

/-- `sbdf_cs_add_property`: row counts must agree, name must be new -/
def csAddProperty (cs : CS) (name : Bytes) (va : VA) : Except Status CS :=
  if cs.values.rowCnt ≠ va.rowCnt then .error .rowCountMismatch
  else if cs.props.any (fun p => Md.nameEq p.1 name) then .error .propExists
  else .ok { cs with propCnt := cs.propCnt + 1, props := cs.props ++ [(cstr name, va)] }

/-- `sbdf_cs_get_property`: index of the stored array (identity), if any -/
def csGetPropertyIdx (cs : CS) (name : Bytes) : Option Nat :=
  cs.props.findIdx? (fun p => Md.nameEq p.1 name)

def csGetProperty (cs : CS) (name : Bytes) : Except Status VA :=
  match cs.props.find? (fun p => Md.nameEq p.1 name) with
  | some p => .ok p.2
  | none => .error .propNotFound

/-! ### column slice stream form (columnslice.c:177-326) -/

def readProp (c : Cfg) : P (Bytes × VA) := do
  let name ← readString c
  let va ← readVA c
  P.pure (name, va)

/-- `sbdf_cs_read` -/
def readCS (c : Cfg) : P CS := do
  secExpect 4
  let values ← readVA c
  let v ← readInt32 c
  -- repair F21: a negative property count is refused, as `sbdf_cs_skip` always did
  if v < 0 then P.fail .invalidSize else
  if v > 0 then do
    -- repair F9: `v * sizeof(void*)` must fit the `int` parameter of sbdf_alloc
    if v > INT_MAX / 8 then P.fail .invalidSize else
    guardUB (decide (v * 8 ≤ INT_MAX)) "v*sizeof(void*) truncated to int in sbdf_cs_read"
    alloc c (v * 8)
    let props ← readMany v.toNat (readProp c)
    P.pure ⟨values, v, props⟩
  else P.pure ⟨values, v, []⟩

/-- `sbdf_cs_write` -/
def writeCS (c : Cfg) (cs : CS) : WOut :=
  secWrite 4 ++ writeVA c cs.values ++ writeInt32 c cs.propCnt ++
  WOut.seqAll (cs.props.map (fun p => writeString c p.1 ++ writeVA c p.2))

/-- `sbdf_cs_skip` -/
def skipCS (c : Cfg) : P Unit := do
  secExpect 4
  skipVA c
  let v ← readInt32 c
  if v < 0 then P.fail .invalidSize else
  skipMany v.toNat (do skipString c; skipVA c)

/-! ### table slice (tableslice.c) -/

/-- `!subset || subset[i]` -/
def wantCol (sub : Option (List Bool)) (i : Nat) : Bool :=
  match sub with | none => true | some s => s.getD i false

/-- columns of a slice, chosen per column by the subset (`none` = read all) -/
def readCols (c : Cfg) : Nat → Option (List Bool) → Nat → P (List (Option CS))
  | 0, _, _ => P.pure []
  | n+1, subset, i => do
    let col ← (if wantCol subset i then do let cs ← readCS c; P.pure (some cs)
               else do skipCS c; P.pure none)
    let rest ← readCols c n subset (i + 1)
    P.pure (col :: rest)

/-- `sbdf_ts_read`; `none` = the end-of-table marker was read (the C function then returns the
    status SBDF_TABLEEND and no slice; the stream is positioned after the marker) -/
def readTS (c : Cfg) (ncols : Nat) (subset : Option (List Bool)) : P (Option TS) := do
  let v ← secRead
  if v = 5 then P.pure none
  else if v ≠ 3 then P.fail .unexpectedSection else
  let cc ← readInt32 c
  if cc < 0 then P.fail .invalidSize
  else if cc ≠ ncols then P.fail .colCountMismatch else
  alloc c (cc * 8)
  let cols ← readCols c ncols subset 0
  P.pure (some ⟨cols⟩)

/-- `sbdf_ts_skip` = read with an all-zero subset; `false` = end of table -/
def skipTS (c : Cfg) (ncols : Nat) : P Bool := do
  let r ← readTS c ncols (some (List.replicate ncols false))
  P.pure r.isSome

/-- `sbdf_ts_create` / `sbdf_ts_add`: a table slice is the list of the column slices added, in
    order (no check is made; the column count is compared with the metadata when reading) -/
def tsCreate : TS := ⟨[]⟩
def tsAdd (ts : TS) (cs : CS) : TS := ⟨ts.cols ++ [some cs]⟩

/-- `sbdf_ts_write` (a NULL column — from a subset read — is refused by sbdf_cs_write) -/
def writeTS (c : Cfg) (ts : TS) : WOut :=
  secWrite 3 ++ writeInt32 c ts.cols.length ++
  WOut.seqAll (ts.cols.map (fun o => match o with
    | some cs => writeCS c cs
    | none => WOut.err .argNull))

def writeTSEnd : WOut := secWrite 5

/-- `sbdf_ts_write` of a slice created against table metadata `tm` (`sbdf_ts_create(tm, ..)`, or
    returned by `sbdf_ts_read(.., tm, ..)`): a slice that does not have the columns of its metadata
    is refused before anything is written (repair F26 — it could not be read back) -/
def writeTSOf (c : Cfg) (tm : TM) (ts : TS) : WOut :=
  if ts.cols.length ≠ tm.cols.length then WOut.err .colCountMismatch else writeTS c ts

/-! ### whole file -/

structure Table where
  tm : TM
  slices : List TS
  deriving Repr, DecidableEq, Inhabited

/-- the calls a writer makes, in order -/
def writeFile (c : Cfg) (t : Table) : WOut :=
  fhWrite ++ writeTM c t.tm ++ WOut.seqAll (t.slices.map (writeTSOf c t.tm)) ++ writeTSEnd

/-- how the caller loop ended -/
inductive LoopEnd where
  | tableEnd (pos : Nat)      -- SBDF_TABLEEND, stream positioned after the marker
  | failed (e : Fail)         -- an error status
  | fuel (pos : Nat)          -- still OK after the maximal number of calls
  deriving Repr, DecidableEq

/-- the caller loop `sbdf_ts_read` until a non-OK status, at most `fuel` calls. -/
def readSlices (c : Cfg) (ncols : Nat) (subset : Option (List Bool)) (d : Array UInt8) :
    Nat → Nat → (List TS × LoopEnd)
  | 0, pos => ([], .fuel pos)
  | fuel+1, pos =>
    match readTS c ncols subset d pos with
    | .error e => ([], .failed e)
    | .ok (none, pos') => ([], .tableEnd pos')
    | .ok (some ts, pos') =>
      let r := readSlices c ncols subset d fuel pos'
      (ts :: r.1, r.2)

structure FileResult where
  fh : Except Fail (Nat × Nat)
  tm : Option (Except Fail TM)
  slices : List TS
  last : Option LoopEnd         -- how the slice loop ended
  deriving Repr

/-- `sbdf_fh_read; sbdf_tm_read; sbdf_ts_read*` with at most `fuel` slice reads -/
def readFileF (c : Cfg) (subset : Option (List Bool)) (fuel : Nat) (d : Array UInt8) : FileResult :=
  match fhRead d 0 with
  | .error e => ⟨.error e, none, [], none⟩
  | .ok (v, pos) =>
    match readTM c d pos with
    | .error e => ⟨.ok v, some (.error e), [], none⟩
    | .ok (tm, pos') =>
      let r := readSlices c tm.cols.length subset d fuel pos'
      ⟨.ok v, some (.ok tm), r.1, some r.2⟩

/-- the bound both drivers use: the file length plus 8 calls -/
def readFile (c : Cfg) (subset : Option (List Bool)) (d : Array UInt8) : FileResult :=
  readFileF c subset (d.size + 8) d

end Sbdf
