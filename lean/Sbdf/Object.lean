/-
  Sbdf.Object — model of src/object.c, the size table of src/internals.c, and the comparison
  helpers of src/sbdfstring.c / src/bytearray.c.
-/
import Sbdf.Prim
namespace Sbdf

/-- `sbdf_object`: raw host-order bytes per element.  For string/binary each element is the
    payload (the length lives in the array header, the string terminator is implicit). -/
structure Obj where
  tid : Nat
  elems : List Bytes
  deriving Repr, DecidableEq, Inhabited

def Obj.count (o : Obj) : Nat := o.elems.length

def TID_BOOL := 1
def TID_INT := 2
def TID_STRING := 10
def TID_BINARY := 12
def TID_BYTE := 254

/-- `sbdf_get_unpacked_size` (`none` = SBDF_ERROR_UNKNOWN_TYPEID, `some 0` = dynamic). -/
def unpackedSize (tid : Nat) : Option Nat :=
  match tid with
  | 254 => some 1 | 4 => some 4 | 5 => some 8 | 6 => some 8 | 7 => some 8 | 8 => some 8
  | 9 => some 8 | 10 => some 0 | 12 => some 0 | 13 => some 16 | 1 => some 1 | 2 => some 4
  | 3 => some 8 | _ => none

/-- `sbdf_ti_is_arr` -/
def isArr (tid : Nat) : Bool := tid == 10 || tid == 12

/-- element size of a fixed-size type; the error the C code returns otherwise
    (`sz < 0` → that value = UNKNOWN_TYPEID, `sz == 0` → UNKNOWN_TYPEID) -/
def fixedSize (tid : Nat) : Except Status Nat :=
  match unpackedSize tid with
  | none => .error .unknownTypeid
  | some 0 => .error .unknownTypeid
  | some n => .ok n

def Obj.WF (o : Obj) : Prop :=
  if isArr o.tid then True
  else ∃ n, fixedSize o.tid = .ok n ∧ ∀ e ∈ o.elems, e.length = n

instance (o : Obj) : Decidable o.WF := by
  unfold Obj.WF
  split
  · exact inferInstance
  · cases h : fixedSize o.tid with
    | error e => exact isFalse (by intro ⟨n, hn, _⟩; simp at hn)
    | ok n =>
      exact decidable_of_iff (∀ e ∈ o.elems, e.length = n)
        ⟨fun h' => ⟨n, rfl, h'⟩, fun ⟨m, hm, h'⟩ => by cases hm; exact h'⟩

/-- split a flat buffer into `cnt` elements of `sz` bytes -/
def chunksOf (sz : Nat) : Nat → Bytes → List Bytes
  | 0, _ => []
  | n+1, b => b.take sz :: chunksOf sz n (b.drop sz)

/-! ### reading (object.c:198-338) -/

/-- one string/binary element: length (7-bit or int32), allocation, payload -/
def readElem (c : Cfg) (isString packed : Bool) : P Bytes := do
  let l ← if packed then read7 else readInt32 c
  if l < 0 then P.fail .invalidSize else
  (if isString then allocStr c l else allocBa c l)
  readN l.toNat

/-- `sbdf_read_objects` -/
def readObjects (c : Cfg) (tid : Nat) (count : Int) (packed : Bool) : P Obj := do
  if count < 0 then P.fail .invalidSize else
  if isArr tid then do
    alloc c (count * 8)
    (if packed then do let _ ← readInt32 c; P.pure () else P.pure ())
    let es ← readMany count.toNat (readElem c (tid == 10) packed)
    P.pure ⟨tid, es⟩
  else
    match fixedSize tid with
    | .error e => P.fail e
    | .ok sz => do
      -- repair F4: `sz * count` must not overflow `int`
      if count > INT_MAX / sz then P.fail .invalidSize else
      guardUB (decide (sz * count ≤ INT_MAX)) "sz*count overflows int in sbdf_read_objects"
      alloc c (sz * count)
      let raw ← readN (sz * count.toNat)
      P.pure ⟨tid, (chunksOf sz count.toNat raw).map (swapElem c)⟩

/-- `sbdf_obj_read_arr` -/
def readObjArr (c : Cfg) (tid : Nat) : P Obj := do
  let count ← readInt32 c
  readObjects c tid count true

/-- `sbdf_obj_read` -/
def readObj (c : Cfg) (tid : Nat) : P Obj := readObjects c tid 1 false

/-! ### skipping (object.c:528-607) -/

def skipObjects (c : Cfg) (tid : Nat) (count : Int) (packed : Bool) : P Unit := do
  if count < 0 then P.fail .invalidSize else
  if isArr tid then
    -- repair F20: a negative distance is refused (the stream must never move backwards)
    if packed then do
      let skip ← readInt32 c
      if skip < 0 then P.fail .invalidSize else skipBytes c skip
    else
      skipMany count.toNat (do let skip ← readInt32 c; if skip < 0 then P.fail .invalidSize else skipBytes c skip)
  else
    match fixedSize tid with
    | .error e => P.fail e
    | .ok sz => do
      if count > INT_MAX / sz then P.fail .invalidSize else
      guardUB (decide (sz * count ≤ INT_MAX)) "c*sz overflows int in sbdf_skip_objects"
      skipBytes c (count * sz)

def skipObjArr (c : Cfg) (tid : Nat) : P Unit := do
  let count ← readInt32 c
  skipObjects c tid count true

def skipObj (c : Cfg) (tid : Nat) : P Unit := skipObjects c tid 1 false

/-! ### writing (object.c:340-463) -/

/-- byte-size header of a packed string/binary array: Σ (len7 l + l) -/
def byteSize (es : List Bytes) : Int :=
  es.foldl (fun acc e => acc + (len7 e.length : Int) + e.length) 0

def writeElem (c : Cfg) (packed : Bool) (e : Bytes) : WOut :=
  (if packed then write7 e.length else writeInt32 c e.length) ++
  (if e.length = 0 then WOut.nil else WOut.one e .oom)   -- object.c:401 reports OOM

/-- `sbdf_write_objects` -/
def writeObjects (c : Cfg) (o : Obj) (packed : Bool) : WOut :=
  if isArr o.tid then
    (if packed then writeInt32 c (byteSize o.elems) else WOut.nil) ++
    WOut.seqAll (o.elems.map (writeElem c packed))
  else
    match fixedSize o.tid with
    | .error e => WOut.err e
    | .ok _ => WOut.one (o.elems.flatMap (swapElem c))

/-- `sbdf_obj_write_arr` -/
def writeObjArr (c : Cfg) (o : Obj) : WOut := writeInt32 c o.count ++ writeObjects c o true
/-- `sbdf_obj_write` -/
def writeObj (c : Cfg) (o : Obj) : WOut := writeObjects c o false

/-! ### comparison helpers (sbdfstring.c:42-55, bytearray.c:32-45, object.c:609-663) -/

/-- sign of `memcmp` over the common prefix (unsigned bytes) -/
def memcmpSign : Bytes → Bytes → Int
  | a :: as, b :: bs => if a < b then -1 else if a > b then 1 else memcmpSign as bs
  | _, _ => 0

/-- sign of `sbdf_str_cmp` / `sbdf_ba_memcmp` -/
def strCmp (a b : Bytes) : Int :=
  let r := memcmpSign a b
  if r ≠ 0 then r else
  if a.length < b.length then -1 else if a.length > b.length then 1 else 0

/-- `sbdf_obj_eq` (after the repair of F1: any differing element gives 0) for non-null
    arguments -/
def objEq (a b : Obj) : Bool :=
  if a.tid ≠ b.tid then false
  else if a.count ≠ b.count then false
  else if isArr a.tid then
    (a.elems.zip b.elems).all (fun p => strCmp p.1 p.2 == 0)
  else a.elems.flatten == b.elems.flatten

/-- `sbdf_obj_eq` on possibly-null pointers (`lhs == rhs` short cut covers null = null) -/
def objEqOpt : Option Obj → Option Obj → Bool
  | none, none => true
  | some a, some b => objEq a b
  | _, _ => false

end Sbdf
