/-
  Sbdf.Basic — bytes, status codes, the reader monad `P` (a FILE* open on a regular
  file), and the writer side (`Chunk`, `WOut`, `emit`).

  Core Lean only.  Everything here is executable; the driver imports it.
-/
namespace Sbdf

abbrev Bytes := List UInt8

/-- The status codes of include/errors.h (cross-checked against `Gen.Errors`). -/
inductive Status where
  | ok | argNull | oom | unknownTypeid | io | unknownEncoding | arrayLen1
  | mdNotFound | mdExists | incorrectMd | mdReadonly | incorrectColMd | valuetypesEq
  | unexpectedSection | propExists | propNotFound | incorrectPropType | rowCountMismatch
  | unknownVersion | colCountMismatch | magicMissing | invalidSize | tableEnd | unknownError
  deriving DecidableEq, Repr, Inhabited

def Status.toInt : Status → Int
  | .ok => 0 | .argNull => -1 | .oom => -2 | .unknownTypeid => -3 | .io => -4
  | .unknownEncoding => -5 | .arrayLen1 => -6 | .mdNotFound => -7 | .mdExists => -8
  | .incorrectMd => -9 | .mdReadonly => -10 | .incorrectColMd => -11 | .valuetypesEq => -12
  | .unexpectedSection => -13 | .propExists => -14 | .propNotFound => -15
  | .incorrectPropType => -16 | .rowCountMismatch => -17 | .unknownVersion => -18
  | .colCountMismatch => -19 | .magicMissing => -20 | .invalidSize => -21
  | .tableEnd => -1000 | .unknownError => -32767

def Status.all : List Status :=
  [.ok, .argNull, .oom, .unknownTypeid, .io, .unknownEncoding, .arrayLen1, .mdNotFound,
   .mdExists, .incorrectMd, .mdReadonly, .incorrectColMd, .valuetypesEq, .unexpectedSection,
   .propExists, .propNotFound, .incorrectPropType, .rowCountMismatch, .unknownVersion,
   .colCountMismatch, .magicMissing, .invalidSize, .tableEnd, .unknownError]

/-- A failed model call: either a status code the C function returns, or `ub`: the C code
    would execute an operation whose precondition does not hold (ghost check). -/
inductive Fail where
  | st (s : Status)
  | ub (why : String)
  deriving DecidableEq, Repr, Inhabited

/-- Build configuration: `swap` = big-endian branch of bswap.c (`-D__sparc`);
    `cap` = largest single allocation the allocator grants (VF_CAP in the harness). -/
structure Cfg where
  swap : Bool := false
  cap : Nat := 16777216
  /-- the stream cannot seek (a pipe, a socket, stdin): `fseek` answers ESPIPE -/
  pipe : Bool := false
  deriving Repr, DecidableEq

def INT_MAX : Int := 2147483647

/-! ## Reader monad -/

/-- A reader: the file contents (never modified) and the current offset. -/
def P (α : Type) := Array UInt8 → Nat → Except Fail (α × Nat)

namespace P
@[inline] def pure (a : α) : P α := fun _ pos => .ok (a, pos)
@[inline] def bind (p : P α) (f : α → P β) : P β := fun d pos =>
  match p d pos with
  | .error e => .error e
  | .ok (a, pos') => f a d pos'
instance : Monad P where
  pure := P.pure
  bind := P.bind
def fail (s : Status) : P α := fun _ _ => .error (.st s)
def ub (why : String) : P α := fun _ _ => .error (.ub why)
def pos : P Nat := fun _ p => .ok (p, p)
end P

/-- `fread(buf, 1, n, f) == n` (or `fread(buf, sz, cnt, f) == cnt` with `n = sz*cnt`):
    succeeds iff `n` bytes are available; a zero-byte request always succeeds. -/
def readN (n : Nat) : P Bytes := fun d pos =>
  if n = 0 then .ok ([], pos)
  else if pos + n ≤ d.size then .ok ((d.extract pos (pos + n)).toList, pos + n)
  else .error (.st .io)

/-- `fseek(f, d, SEEK_CUR)`: any non-negative resulting offset is accepted (past EOF too),
    a negative one is refused. -/
def seek (delta : Int) : P Unit := fun _ pos =>
  if 0 ≤ (pos : Int) + delta then .ok ((), ((pos : Int) + delta).toNat)
  else .error (.st .io)

/-- `sbdf_skip_bytes` on a stream that cannot seek (a pipe, a socket: `fseek` answers ESPIPE):
    the bytes are read and dropped.  On a stream that can seek it is `seek`. -/
def discard (n : Int) : P Unit := P.bind (readN n.toNat) (fun _ => P.pure ())

/-- `sbdf_skip_bytes(f, n)`: `fseek(f, n, SEEK_CUR)`, and where the stream refuses, read and drop -/
def skipBytes (c : Cfg) (n : Int) : P Unit := if c.pipe then discard n else seek n

/-- `malloc(n)` of an input-derived size (`n` as the mathematical value of the `size_t`
    argument; a negative `int` converted to `size_t` is huge): refused above the cap. -/
def alloc (c : Cfg) (n : Int) : P Unit :=
  if n < 0 ∨ n > c.cap then P.fail .oom else P.pure ()

/-- ghost check -/
def guardUB (cond : Bool) (why : String) : P Unit :=
  if cond then P.pure () else P.ub why

/-- `n` times `p`, collecting results (structural recursion: readers terminate). -/
def readMany : Nat → P α → P (List α)
  | 0, _ => P.pure []
  | n+1, p => do let a ← p; let as ← readMany n p; P.pure (a :: as)

/-- iterate over a list with a reader -/
def mapMP (f : α → P β) : List α → P (List β)
  | [] => P.pure []
  | x :: xs => do let b ← f x; let bs ← mapMP f xs; P.pure (b :: bs)

/-- run `p` n times discarding results -/
def skipMany : Nat → P Unit → P Unit
  | 0, _ => P.pure ()
  | n+1, p => do p; skipMany n p

/-! ## Writer side -/

/-- One `fwrite` call: its bytes and the status the call site returns if it is short. -/
structure Chunk where
  bytes : Bytes
  onFail : Status
  deriving Repr, DecidableEq

/-- Output of a model writer: the `fwrite` calls it makes if none fails, and the status it
    returns after them (OK, or a logical error raised after some output). -/
structure WOut where
  chunks : List Chunk
  st : Status
  deriving Repr, DecidableEq

namespace WOut
def nil : WOut := ⟨[], .ok⟩
def err (s : Status) : WOut := ⟨[], s⟩
def one (b : Bytes) (onFail : Status := .io) : WOut := ⟨[⟨b, onFail⟩], .ok⟩
/-- sequencing with first-error propagation -/
def seq (a b : WOut) : WOut :=
  if a.st = .ok then ⟨a.chunks ++ b.chunks, b.st⟩ else a
instance : Append WOut := ⟨seq⟩
def seqAll : List WOut → WOut
  | [] => nil
  | w :: ws => w ++ seqAll ws
def bytes (w : WOut) : Bytes := w.chunks.flatMap (·.bytes)
end WOut

/-- The stream accepts `budget` more bytes (`none` = unlimited).  The first chunk that does not
    fit is accepted partially and its call site's failure status is returned; zero-length
    writes never fail. -/
def emitChunks : Option Nat → List Chunk → Status × Bytes
  | _, [] => (.ok, [])
  | none, c :: cs => let r := emitChunks none cs; (r.1, c.bytes ++ r.2)
  | some b, c :: cs =>
    if c.bytes.length ≤ b then
      let r := emitChunks (some (b - c.bytes.length)) cs; (r.1, c.bytes ++ r.2)
    else (c.onFail, c.bytes.take b)

/-- run a writer against a stream with the given budget -/
def emit (budget : Option Nat) (w : WOut) : Status × Bytes :=
  let r := emitChunks budget w.chunks
  if r.1 = .ok then (w.st, r.2) else r

end Sbdf
