/-
  C15 — Equality and ordering helpers agree with content.
-/
import Sbdf.Object
namespace Sbdf.C15

/-- lexicographic comparison on unsigned bytes, a proper prefix ordered first (the specification) -/
def lexCmp : Bytes → Bytes → Int
  | [], [] => 0
  | [], _ :: _ => -1
  | _ :: _, [] => 1
  | a :: as, b :: bs => if a < b then -1 else if a > b then 1 else lexCmp as bs

theorem memcmpSign_cases (a b : Bytes) :
    memcmpSign a b = -1 ∨ memcmpSign a b = 0 ∨ memcmpSign a b = 1 := by
  induction a generalizing b with
  | nil => simp [memcmpSign]
  | cons x xs ih =>
    cases b with
    | nil => simp [memcmpSign]
    | cons y ys => simp only [memcmpSign]; split; · simp
                   split; · simp
                   exact ih ys

/-- `sbdf_str_cmp` / `sbdf_ba_memcmp` (memcmp over the common prefix, then the length
    difference) is exactly lexicographic byte order with a proper prefix first -/
theorem strCmp_eq_lexCmp (a b : Bytes) : strCmp a b = lexCmp a b := by
  induction a generalizing b with
  | nil => cases b <;> simp [strCmp, memcmpSign, lexCmp]
  | cons x xs ih =>
    cases b with
    | nil => simp [strCmp, memcmpSign, lexCmp]
    | cons y ys =>
      have := ih ys
      simp only [strCmp, memcmpSign, lexCmp, List.length_cons] at this ⊢
      by_cases h1 : x < y
      · simp [h1]
      · by_cases h2 : x > y
        · simp [h1, h2]
        · simp only [h1, h2, if_false]
          rw [← this]
          simp only [Nat.add_lt_add_iff_right, gt_iff_lt]

theorem lexCmp_self (a : Bytes) : lexCmp a a = 0 := by
  induction a with
  | nil => rfl
  | cons x xs ih => simp [lexCmp, ih]

theorem lexCmp_eq_zero (a b : Bytes) : lexCmp a b = 0 → a = b := by
  induction a generalizing b with
  | nil => cases b <;> simp [lexCmp]
  | cons x xs ih =>
    cases b with
    | nil => simp [lexCmp]
    | cons y ys =>
      simp only [lexCmp]
      split; · simp
      split; · simp
      intro h
      have hxy : x = y := by
        have := UInt8.lt_or_lt_of_ne (a := x) (b := y)
        rcases Decidable.em (x = y) with e | e
        · exact e
        · rcases this e with h' | h' <;> simp_all
      rw [hxy, ih ys h]

/-- zero exactly for identical content -/
theorem strCmp_zero_iff (a b : Bytes) : strCmp a b = 0 ↔ a = b := by
  rw [strCmp_eq_lexCmp]
  exact ⟨lexCmp_eq_zero a b, fun h => h ▸ lexCmp_self a⟩

/-- antisymmetry: swapping the arguments flips the sign -/
theorem strCmp_antisymm (a b : Bytes) : strCmp b a = - strCmp a b := by
  rw [strCmp_eq_lexCmp, strCmp_eq_lexCmp]
  induction a generalizing b with
  | nil => cases b <;> simp [lexCmp]
  | cons x xs ih =>
    cases b with
    | nil => simp [lexCmp]
    | cons y ys =>
      simp only [lexCmp]
      by_cases h1 : x < y
      · have h2 : ¬ y < x := by
          intro h; exact absurd (UInt8.lt_trans h1 h) (UInt8.lt_irrefl x)
        simp [h1, h2]
      · by_cases h2 : y < x
        · simp [h1, h2]
        · simp [h1, h2, ih ys]

/-- transitivity of the induced order -/
theorem strCmp_trans (a b c : Bytes) (h1 : strCmp a b ≤ 0) (h2 : strCmp b c ≤ 0) : strCmp a c ≤ 0 := by
  rw [strCmp_eq_lexCmp] at *
  induction a generalizing b c with
  | nil => cases c <;> simp [lexCmp]
  | cons x xs ih =>
    cases b with
    | nil => simp [lexCmp] at h1
    | cons y ys =>
      cases c with
      | nil => simp [lexCmp] at h2
      | cons z zs =>
        simp only [lexCmp] at h1 h2 ⊢
        by_cases hxy : x < y
        · by_cases hyz : y < z
          · simp [UInt8.lt_trans hxy hyz]
          · by_cases hzy : y > z
            · simp [hyz, hzy] at h2
            · have : y = z := by
                rcases Decidable.em (y = z) with e | e
                · exact e
                · rcases UInt8.lt_or_lt_of_ne e with h' | h' <;> simp_all
              subst this; simp [hxy]
        · by_cases hyx : x > y
          · simp [hxy, hyx] at h1
          · have : x = y := by
              rcases Decidable.em (x = y) with e | e
              · exact e
              · rcases UInt8.lt_or_lt_of_ne e with h' | h' <;> simp_all
            subst this
            simp only [hxy, hyx, if_false] at h1
            by_cases hyz : x < z
            · simp [hyz]
            · by_cases hzy : x > z
              · simp [hyz, hzy] at h2
              · simp only [hyz, hzy, if_false] at h2 ⊢
                exact ih ys zs h1 h2

/-! ### object equality -/

theorem all_zip_strCmp (as bs : List Bytes) (h : as.length = bs.length) :
    ((as.zip bs).all (fun p => strCmp p.1 p.2 == 0)) = true ↔ as = bs := by
  induction as generalizing bs with
  | nil => cases bs <;> simp_all
  | cons x xs ih =>
    cases bs with
    | nil => simp at h
    | cons y ys =>
      simp only [List.length_cons, Nat.add_right_cancel_iff] at h
      simp only [List.zip_cons_cons, List.all_cons, Bool.and_eq_true, beq_iff_eq, strCmp_zero_iff,
        ih ys h, List.cons.injEq]

theorem flatten_inj (n : Nat) (hn : 0 < n) (as bs : List Bytes) (ha : ∀ e ∈ as, e.length = n)
    (hb : ∀ e ∈ bs, e.length = n) (h : as.flatten = bs.flatten) : as = bs := by
  induction as generalizing bs with
  | nil =>
    cases bs with
    | nil => rfl
    | cons y ys =>
      have := hb y (by simp)
      have hl := congrArg List.length h
      simp only [List.flatten_nil, List.length_nil, List.flatten_cons, List.length_append] at hl
      omega
  | cons x xs ih =>
    cases bs with
    | nil =>
      have := ha x (by simp)
      have hl := congrArg List.length h
      simp only [List.flatten_nil, List.length_nil, List.flatten_cons, List.length_append] at hl
      omega
    | cons y ys =>
      simp only [List.flatten_cons] at h
      have hx := ha x (by simp)
      have hy := hb y (by simp)
      have h1 := List.append_inj h (by omega)
      rw [h1.1, ih ys (fun e he => ha e (by simp [he])) (fun e he => hb e (by simp [he])) h1.2]

theorem fixedSize_pos {t n : Nat} (h : fixedSize t = .ok n) : 0 < n := by
  unfold fixedSize at h
  cases hu : unpackedSize t with
  | none => simp [hu] at h
  | some k =>
    cases k with
    | zero => simp [hu] at h
    | succ k => simp [hu] at h; omega

/-- `sbdf_obj_eq` is true exactly when type, element count and every element coincide -/
theorem objEq_iff (a b : Obj) (ha : a.WF) (hb : b.WF) : objEq a b = true ↔ a = b := by
  unfold objEq
  constructor
  · intro h
    by_cases ht : a.tid = b.tid
    · by_cases hc : a.count = b.count
      · simp only [ht, ne_eq, not_true_eq_false, if_false, hc] at h
        cases a with | mk at_ ae => cases b with | mk bt be =>
        simp only at ht; subst ht
        simp only [Obj.count] at hc
        by_cases harr : isArr at_ = true
        · simp only [harr, if_true] at h
          rw [(all_zip_strCmp ae be hc).mp h]
        · simp only [harr] at h
          simp only [Obj.WF, harr] at ha hb
          obtain ⟨n, hn, hea⟩ := ha
          obtain ⟨m, hm, heb⟩ := hb
          have hnm : n = m := by rw [hn] at hm; cases hm; rfl
          subst hnm
          have hpos : 0 < n := fixedSize_pos hn
          have := flatten_inj n hpos ae be hea heb (by simpa using h)
          rw [this]
      · simp [ht, hc] at h
    · simp [ht] at h
  · intro h
    subst h
    simp only [ne_eq, not_true_eq_false, if_false]
    split
    · exact (all_zip_strCmp a.elems a.elems rfl).mpr rfl
    · simp

/-- hence reflexive, symmetric and transitive on well-formed objects -/
theorem objEq_refl (a : Obj) (ha : a.WF) : objEq a a = true := (objEq_iff a a ha ha).mpr rfl

theorem objEq_symm (a b : Obj) (ha : a.WF) (hb : b.WF) : objEq a b = objEq b a := by
  by_cases h : objEq a b = true
  · rw [h, ((objEq_iff a b ha hb).mp h), objEq_refl b hb]
  · have h' : ¬ objEq b a = true := fun hba => h ((objEq_iff b a hb ha).mp hba ▸ objEq_refl b hb)
    simp [Bool.not_eq_true] at h h'
    rw [h, h']

theorem objEq_trans (a b c : Obj) (ha : a.WF) (hb : b.WF) (hc : c.WF)
    (h1 : objEq a b = true) (h2 : objEq b c = true) : objEq a c = true := by
  rw [(objEq_iff a b ha hb).mp h1]; exact h2

/-- the C-string view is a NUL-free prefix, and the whole string iff it holds no NUL -/
theorem cstr_prefix (b : Bytes) : ∃ t, b = cstr b ++ t ∧ (0 : UInt8) ∉ cstr b := by
  refine ⟨b.dropWhile (· ≠ 0), ?_, ?_⟩
  · simp [cstr, List.takeWhile_append_dropWhile]
  · unfold cstr
    induction b with
    | nil => simp
    | cons x xs ih =>
      simp only [List.takeWhile_cons]
      split
      · rename_i hx
        simp only [List.mem_cons, not_or]
        exact ⟨fun h0 => by simp [← h0] at hx, ih⟩
      · simp

theorem cstr_eq_self (b : Bytes) (h : (0 : UInt8) ∉ b) : cstr b = b := by
  unfold cstr
  induction b with
  | nil => rfl
  | cons x xs ih =>
    simp only [List.mem_cons, not_or] at h
    have hx : x ≠ 0 := fun e => h.1 e.symm
    have := ih h.2
    simp only [ne_eq, decide_not] at this
    simp [hx, this]

/-- non-vacuity and the witness that motivated the repair of `sbdf_obj_eq` -/
example : (⟨10, ["abc".toUTF8.toList]⟩ : Obj).WF ∧
    objEq ⟨10, [[97, 98, 99]]⟩ ⟨10, [[97, 98, 100]]⟩ = false ∧
    strCmp [97, 98] [97, 98, 99] = -1 := by decide

end Sbdf.C15
