import Sbdf.Slice
namespace Sbdf.C08
end Sbdf.C08
