/-
  C08 — Re-serialising what was read reproduces the file byte for byte.

  Proved: (1) for EVERY well-formed physical layout (library-written or foreign), what the reader
  returns for a value array, a column slice and a table slice is written back as exactly the
  bytes that were read — the reader stores every field the writer needs; (2) decode + default
  re-encode is idempotent, so a default-encoded file is reproduced by decode/re-encode; (3) the
  table-level metadata entries are written back unchanged.
  (4) `rewrite_identity`: for every file written by the library from an API-built table, reading
  it and writing the returned structures back emits the very same bytes — this needs that
  first-appearance folding is idempotent on the column metadata the reader rebuilds
  (`tm_rewrite_identity`, via the combinatorial lemma `fa_rebuilt` of Sbdf/Lemmas/FirstApp.lean).
  (5) `foreign_rewrite`: for EVERY well-formed physical stream (the layouts the reader accepts:
  any name list, repeated or unused names, repeated table-level names), writing what the reader
  returned either fails in sbdf_tm_write with INCORRECT_METADATA (exactly when the column
  metadata does not fold) or emits a stream that reads back OK to the same table-level entries,
  the same slices, end-of-table, and per column the same value under every name
  (`reader_output_api`: the reader's output meets the hypotheses of C01.api_roundtrip).
  `absent_table_value_refused`: the one accepted layout outside PhysTM (a table-level entry
  without a value) makes sbdf_tm_write fail.
  (6) `post_readTM` + `accepted_rewrite`: for EVERY byte string on which sbdf_tm_read returns OK
  the returned structure is one of the two forms above (Sbdf/Lemmas/Post.lean: postconditions of
  the readers on arbitrary input), so the foreign clause holds for every accepted table-metadata
  section, not only for the canonical encodings.  The slices enter `accepted_rewrite` with the
  hypothesis that their sizes are within the limits (TSFits): that the byte-size header of a
  re-written string array fits an int is a property of the input size, not of the reader.
  (7) `accepted_file_rewrite` removes that hypothesis too (Lemmas/PostSlice.lean: postconditions
  of sbdf_va_read / sbdf_cs_read / sbdf_ts_read on arbitrary input): for EVERY byte string the
  readers accept to the end, assuming only that the byte-size headers to be written fit an int,
  the in-memory form is stable under serialisation.
-/
import Sbdf.Props.C03
import Sbdf.Props.C04
import Sbdf.Props.C07
import Sbdf.Props.C01
import Sbdf.Lemmas.FirstApp
import Sbdf.Props.C15
import Sbdf.Lemmas.Post
import Sbdf.Lemmas.PostSlice
namespace Sbdf.C08
open Spec

/-- value arrays: read then write gives back the bytes read, for every layout -/
theorem va_rewrite (c : Cfg) (va : VA) (hf : va.Fits c) (hw : va.Writable) :
    Reads (readVA c) (Spec.va c va) va ∧ Emits (writeVA c va) (Spec.va c va) :=
  ⟨reads_va c va hf, emits_va c va hw⟩

/-- column slices -/
theorem cs_rewrite (c : Cfg) (x : CS) (hf : x.Fits c) (hw : x.Writable) :
    Reads (readCS c) (Spec.cs c x) x ∧ Emits (writeCS c x) (Spec.cs c x) :=
  ⟨reads_cs c x hf, emits_cs c x hw⟩

/-- table slices (full read) -/
theorem ts_rewrite (c : Cfg) (cols : List CS) (hf : TSFits c cols) (hw : ∀ x ∈ cols, x.Writable) :
    Reads (readTS c cols.length none) (Spec.ts c cols) (some ⟨cols.map some⟩) ∧
    Emits (writeTS c ⟨cols.map some⟩) (Spec.ts c cols) :=
  ⟨(C07.ts_subset c cols hf none).2.1, emits_ts c cols hw⟩

/-- the slices of a whole file: everything the caller loop returned is written back as the very
    bytes of the slice sections, followed by the end marker -/
theorem slices_rewrite (c : Cfg) (slices : List (List CS)) (hw : ∀ s ∈ slices, ∀ x ∈ s, x.Writable) :
    Emits (WOut.seqAll ((slices.map (fun s => (⟨s.map some⟩ : TS))).map (writeTS c)) ++ writeTSEnd)
      (slices.flatMap (Spec.ts c) ++ Spec.tsEnd) := by
  rw [List.map_map]
  exact Emits.append (Emits.seqAllMap slices _ (Spec.ts c) (fun s hs => emits_ts c s (hw s hs))) emits_end

/-- whole file, partial (see the header of this file): reading a well-formed physical file and
    writing back header, the table-level entries and every slice reproduces those sections
    byte for byte -/
theorem rewrite_identity_partial (c : Cfg) (p : PhysTM) (cols : List Md) (slices : List (List CS))
    (hp : p.Ok c cols) (hn : ∀ s ∈ slices, s.length = p.cols.length) (hf : ∀ s ∈ slices, TSFits c s)
    (hw : ∀ s ∈ slices, ∀ x ∈ s, x.Writable) (fuel : Nat) (hfuel : slices.length < fuel) :
    let r := readFileF c none fuel (C04.file c p slices).toArray
    r.slices = slices.map (fun s => ⟨s.map some⟩) ∧
    Emits (WOut.seqAll (r.slices.map (writeTS c)) ++ writeTSEnd) (slices.flatMap (Spec.ts c) ++ Spec.tsEnd) ∧
    Emits fhWrite header := by
  have h := C04.reads_wellformed c p cols slices hp hn hf none [] fuel hfuel
  simp only [List.append_nil] at h
  simp only [h]
  refine ⟨?_, ?_, emits_fh⟩
  · congr 1; funext s; rw [maskFrom_none]
  · have e : slices.map (fun s => (⟨maskFrom none 0 s⟩ : TS)) = slices.map (fun s => ⟨s.map some⟩) := by
      congr 1; funext s; rw [maskFrom_none]
    rw [e]; exact slices_rewrite c slices hw

/-! ### decode + default re-encode -/

theorem isZero_boolByte (b : Bool) : isZeroElem (boolByte b) = !b := by cases b <;> rfl

/-- decoding a default-encoded array and re-encoding it with the default encoding gives the
    same encoded array (hence the same bytes) -/
theorem dflt_reencode (c : Cfg) (o : Obj) (va : VA) (h : createDflt o = .ok va)
    (hcap : (o.count : Int) ≤ c.cap) :
    ∃ o', getValues c va = .ok o' ∧ createDflt o' = .ok va := by
  unfold createDflt at h
  by_cases hb : o.tid = 1
  · simp only [hb, if_true] at h
    have hfix : isArr o.tid = false := by rw [hb]; rfl
    obtain ⟨hg, _⟩ := C02.bit_values c o va hfix h hcap
    refine ⟨_, hg, ?_⟩
    unfold createDflt createBit at *
    simp only [hfix, Bool.false_eq_true, if_false, hb] at h ⊢
    have hfs : fixedSize 1 = .ok 1 := rfl
    simp only [hfs] at h ⊢
    simp only [isArr, show ((1 : Nat) == 10) = false from rfl, show ((1 : Nat) == 12) = false from rfl,
      Bool.or_false, Bool.false_eq_true, if_false, if_true]
    rw [← h]
    simp only [Obj.count, List.length_map, List.map_map]
    congr 3
    apply List.map_congr_left
    intro e _
    simp [isZero_boolByte]
  · simp only [hb, if_false] at h
    obtain ⟨hg, _⟩ := C02.plain_lossless c o va h
    exact ⟨o, hg, by unfold createDflt; simp only [hb, if_false]; exact h⟩


/-- the column function of a column: the entry it holds under the name of a name-list row, as the
    reader rebuilds it (the row's name and default, the column's value) -/
def gOf (col : Md) : ColFn := fun k =>
  ((col.find k.name).bind (·.value)).map (fun v => ⟨cstr k.name, some v, k.dflt⟩)

theorem rebuilt_eq_filterMap (col : Md) (l : List MdEntry) :
    C01.rebuilt (l.map (fun k => (⟨k.name, entryTid k, k.dflt⟩ : NameRow)))
      (l.map (fun k => (col.find k.name).bind (·.value))) = l.filterMap (gOf col) := by
  induction l with
  | nil => rfl
  | cons k ks ih =>
    simp only [List.map_cons, List.filterMap_cons, gOf]
    cases hv : (col.find k.name).bind (·.value) with
    | none => simp only [C01.rebuilt, Option.map_none]; exact ih
    | some v => simp only [C01.rebuilt, Option.map_some]; rw [ih]

theorem rebuilt_all (tm : TM) (kept : List MdEntry) :
    ((C01.rebuiltCols tm kept).map Md.freeze).flatMap (·.entries) = rebuiltAll (tm.cols.map gOf) kept := by
  unfold C01.rebuiltCols rebuiltAll
  simp only [List.map_map, List.flatMap_map]
  congr 1
  funext col
  simp only [Function.comp, Md.freeze]
  exact rebuilt_eq_filterMap col kept

theorem find_some_of_mem (col : Md) (k : MdEntry) (hk : k ∈ col.entries) : ∃ e, col.find k.name = some e ∧ e ∈ col.entries := by
  unfold Md.find
  cases hf : col.entries.find? (fun e => Md.nameEq e.name k.name) with
  | some e => exact ⟨e, rfl, List.mem_of_find?_eq_some hf⟩
  | none =>
    have := List.find?_eq_none.mp hf k hk
    simp [Md.nameEq] at this

/-- the name list produced by folding lists the names in order of first appearance over the
    columns: for every column index the names seen so far form a prefix -/
theorem kept_prefixCompat (c : Cfg) (tm : TM) (kept : List MdEntry) (h : C01.ApiTM c tm kept) :
    PrefixCompat (tm.cols.map gOf) kept := by
  intro pre g post hsplit
  -- the corresponding split of the columns
  obtain ⟨cpre, crest, hc1, hpre, hrest⟩ := List.map_eq_append_iff.mp hsplit
  obtain ⟨colj, cpost, hc2, hg, hpost⟩ := List.map_eq_cons_iff.mp hrest
  have hcols : tm.cols = cpre ++ colj :: cpost := by rw [hc1, hc2]
  have hkept : kept = firstAppearance [] (tm.cols.flatMap (·.entries)) := C03.fold_order _ kept h.fold
  have hall : tm.cols.flatMap (·.entries) =
      (cpre ++ [colj]).flatMap (·.entries) ++ cpost.flatMap (·.entries) := by
    rw [hcols]; simp [List.flatMap_append]
  rw [hall, fa_append] at hkept
  refine ⟨_, _, hkept, ?_, ?_⟩
  · intro k hk
    have hmem := fa_subset _ _ k hk
    rw [List.mem_flatMap] at hmem
    obtain ⟨col, hcol, hkc⟩ := hmem
    have hcolm : col ∈ tm.cols := by
      rw [hcols]
      rcases List.mem_append.mp hcol with h1 | h1
      · exact List.mem_append.mpr (.inl h1)
      · have := List.mem_singleton.mp h1; subst this; simp
    refine ⟨gOf col, ?_, ?_⟩
    · rw [← hpre, ← hg]
      simp only [List.mem_append, List.mem_map, List.mem_singleton] at hcol ⊢
      rcases hcol with h1 | h1
      · exact .inl ⟨col, h1, rfl⟩
      · exact .inr (by rw [h1])
    · obtain ⟨e, hfe, hem⟩ := find_some_of_mem col k hkc
      obtain ⟨v, hv, _⟩ := (h.colInv col hcolm).single e hem
      simp [gOf, hfe, hv]
  · intro k hk g' hg'
    have hun := fa_unseen _ _ k hk
    simp only [List.append_nil] at hun
    rw [← hpre, ← hg] at hg'
    have : ∃ col ∈ cpre ++ [colj], g' = gOf col := by
      simp only [List.mem_append, List.mem_map, List.mem_singleton] at hg' ⊢
      rcases hg' with ⟨col, h1, rfl⟩ | rfl
      · exact ⟨col, .inl h1, rfl⟩
      · exact ⟨colj, .inr rfl, rfl⟩
    obtain ⟨col, hcol, rfl⟩ := this
    have hnone : col.find k.name = none := by
      unfold Md.find
      rw [List.find?_eq_none]
      intro e he
      rw [List.any_eq_false] at hun
      have := hun e (by
        rw [List.mem_reverse, List.mem_flatMap]; exact ⟨col, hcol, he⟩)
      simpa [sameName] using this
    simp [gOf, hnone]

theorem filterMap_map_eq {α β γ : Type} (l : List α) (f : α → Option β) (r : β → γ) (r' : α → γ)
    (h : ∀ k ∈ l, ∃ e, f k = some e ∧ r e = r' k) : (l.filterMap f).map r = l.map r' := by
  induction l with
  | nil => rfl
  | cons k ks ih =>
    obtain ⟨e, he, hr⟩ := h k (by simp)
    simp only [List.filterMap_cons, he, List.map_cons, hr]
    rw [ih (fun x hx => h x (by simp [hx]))]

theorem wf_of_fits {c : Cfg} {o : Obj} (h : o.Fits c) : o.WF := by
  unfold Obj.Fits at h
  unfold Obj.WF
  split
  · trivial
  · rename_i ha
    simp only [ha] at h
    obtain ⟨sz, hsz, hlen, _⟩ := h
    exact ⟨sz, hsz, hlen⟩

theorem objEqOpt_refl (d : Option Obj) (h : ∀ x, d = some x → x.WF) : objEqOpt d d = true := by
  cases d with
  | none => rfl
  | some x => exact C15.objEq_refl x (h x rfl)

/-- shape of what a column function returns -/
theorem gOf_some (col : Md) (k e : MdEntry) (h : gOf col k = some e) :
    ∃ v, (col.find k.name).bind (·.value) = some v ∧ e = ⟨cstr k.name, some v, k.dflt⟩ := by
  unfold gOf at h
  cases hv : (col.find k.name).bind (·.value) with
  | none => simp [hv] at h
  | some v => simp only [hv, Option.map_some, Option.some.injEq] at h; exact ⟨v, rfl, h.symm⟩

/-- C08, table metadata of a library-written file: folding the column metadata the reader
    rebuilt yields the same name list, and the canonical physical layout of what was read is the
    canonical physical layout of what was written — so `sbdf_tm_write` of the read structure emits
    the very bytes that were read (with `C03.tm_bytes`). -/
theorem tm_rewrite_identity (c : Cfg) (tm : TM) (kept : List MdEntry) (h : C01.ApiTM c tm kept)
    (hnul : ∀ col ∈ tm.cols, ∀ e ∈ col.entries, cstr e.name = e.name) :
    let tm' : TM := ⟨⟨tm.table.entries, false⟩, (C01.rebuiltCols tm kept).map Md.freeze⟩
    ∃ kept', foldCols (tm'.cols.flatMap (·.entries)) = .ok kept' ∧
      C03.canonPhys tm' kept' = C03.canonPhys tm kept := by
  intro tm'
  obtain ⟨hrep, hall, hdist⟩ := fold_facts _ kept h.fold
  have hAll : tm'.cols.flatMap (·.entries) = rebuiltAll (tm.cols.map gOf) kept := rebuilt_all tm kept
  have hkey : ∀ g ∈ tm.cols.map gOf, ∀ k e, g k = some e → sameName e k = true := by
    intro g hg k e hge
    simp only [List.mem_map] at hg
    obtain ⟨col, _, rfl⟩ := hg
    obtain ⟨v, _, rfl⟩ := gOf_some col k e hge
    simp [sameName, C11.nameEq_cstr, C11.nameEq_refl]
  have hfa := fa_rebuilt (tm.cols.map gOf) hkey kept hdist
    (pairwise_before_of_prefixCompat _ _ (kept_prefixCompat c tm kept h))
  -- every element of what the reader rebuilt comes from a column and a name-list row
  have hmemAll : ∀ e ∈ rebuiltAll (tm.cols.map gOf) kept, ∃ col ∈ tm.cols, ∃ k ∈ kept, gOf col k = some e := by
    intro e he
    simp only [rebuiltAll, List.mem_flatMap, List.mem_map, List.mem_filterMap] at he
    obtain ⟨g, ⟨col, hcol, rfl⟩, k, hk, hge⟩ := he
    exact ⟨col, hcol, k, hk, hge⟩
  have kdflt_wf : ∀ k ∈ kept, ∀ x, k.dflt = some x → x.WF := by
    intro k hk x hx
    obtain ⟨col, hcol, hkc⟩ := C01.entry_of_kept hall hk
    exact wf_of_fits ((h.colFit col hcol k hkc).2.2 x hx).1
  -- the fold of the rebuilt columns succeeds
  obtain ⟨kept', hfold'⟩ := C03.fold_accepts (rebuiltAll (tm.cols.map gOf) kept) (by
    intro pre e post hdec p hp hpe
    have he : e ∈ rebuiltAll (tm.cols.map gOf) kept := by rw [hdec]; simp
    have hpm : p ∈ rebuiltAll (tm.cols.map gOf) kept := by rw [hdec]; simp [hp]
    obtain ⟨c1, hc1, k1, hk1, hg1⟩ := hmemAll p hpm
    obtain ⟨c2, hc2, k2, hk2, hg2⟩ := hmemAll e he
    obtain ⟨v1, hv1, rfl⟩ := gOf_some c1 k1 p hg1
    obtain ⟨v2, hv2, rfl⟩ := gOf_some c2 k2 e hg2
    have hkk : k1 = k2 := by
      apply C01.same_name_same_entry kept hdist k1 k2 hk1 hk2
      simp only at hpe
      have := hpe
      rw [C11.nameEq_cstr, C11.nameEq_symm, C11.nameEq_cstr, C11.nameEq_symm] at this
      exact this
    subst hkk
    have t1 := (C01.present_value c tm kept h c1 hc1 k1 hk1 v1 hv1).2.1
    have t2 := (C01.present_value c tm kept h c2 hc2 k1 hk1 v2 hv2).2.1
    exact ⟨by simp [entryTid, t1, t2], objEqOpt_refl _ (kdflt_wf k1 hk1)⟩)
  have hkept' : kept' = kept.filterMap (firstCol (tm.cols.map gOf)) := by
    rw [← hfa]; exact C03.fold_order _ kept' hfold'
  refine ⟨kept', by rw [hAll]; exact hfold', ?_⟩
  -- what the first column holding a name contributes for a name-list row
  have hfirst : ∀ k ∈ kept, ∃ e, firstCol (tm.cols.map gOf) k = some e ∧ ∃ col ∈ tm.cols, ∃ v,
      (col.find k.name).bind (·.value) = some v ∧ e = ⟨cstr k.name, some v, k.dflt⟩ := by
    intro k hk
    obtain ⟨col, hcol, hkc⟩ := C01.entry_of_kept hall hk
    have hsome : (gOf col k).isSome = true := by
      obtain ⟨e', hfe, hem⟩ := find_some_of_mem col k hkc
      obtain ⟨v, hv, _⟩ := (h.colInv col hcol).single e' hem
      simp [gOf, hfe, hv]
    cases hfc : firstCol (tm.cols.map gOf) k with
    | none =>
      have := firstCol_none _ k hfc (gOf col) (by simp only [List.mem_map]; exact ⟨col, hcol, rfl⟩)
      rw [this] at hsome; simp at hsome
    | some e =>
      unfold firstCol at hfc
      obtain ⟨g, hg, hge⟩ := List.exists_of_findSome?_eq_some hfc
      simp only [List.mem_map] at hg
      obtain ⟨col', hcol', rfl⟩ := hg
      obtain ⟨v, hv, he⟩ := gOf_some col' k e hge
      exact ⟨e, rfl, col', hcol', v, hv, he⟩
  have hnulk : ∀ k ∈ kept, cstr k.name = k.name := by
    intro k hk
    obtain ⟨col, hcol, hkc⟩ := C01.entry_of_kept hall hk
    exact hnul col hcol k hkc
  unfold C03.canonPhys
  simp only [PhysTM.mk.injEq]
  refine ⟨rfl, ?_, ?_⟩
  · -- the name rows
    rw [hkept']
    apply filterMap_map_eq
    intro k hk
    obtain ⟨e, hfe, col, hcol, v, hv, he⟩ := hfirst k hk
    refine ⟨e, hfe, ?_⟩
    subst he
    have t := (C01.present_value c tm kept h col hcol k hk v hv).2.1
    simp [entryTid, hnulk k hk, t]
  · -- the per-column values
    show (List.map Md.freeze (C01.rebuiltCols tm kept)).map _ = _
    unfold C01.rebuiltCols
    rw [List.map_map, List.map_map]
    apply List.map_congr_left
    intro col hcol
    simp only [Function.comp]
    rw [hkept']
    apply filterMap_map_eq
    intro k hk
    obtain ⟨e, hfe, col', hcol', v, hv, he⟩ := hfirst k hk
    refine ⟨e, hfe, ?_⟩
    subst he
    simp only
    have hl := C01.rebuilt_lookup col kept (fun e' he' => by
      obtain ⟨k', hk', hn, _⟩ := hrep e' (by simp only [List.mem_flatMap]; exact ⟨col, hcol, he'⟩)
      exact ⟨k', hk', hn⟩) (cstr k.name)
    have hfr : ∀ (m : Md) (n : Bytes), m.freeze.find n = m.find n := fun _ _ => rfl
    rw [hfr, hl, C01.find_congr col (cstr k.name) k.name (by rw [C11.nameEq_cstr]; exact C11.nameEq_refl _)]


/-- C08, main clause: for every table built through the API (C10 invariants, NUL-free names as the
    API stores them, allocation limits of the reader) and every list of slices, the file the
    library writes, read back in full and written again from the returned structures, is the same
    byte string. -/
theorem rewrite_identity (c : Cfg) (tm : TM) (slices : List (List CS)) (kept : List MdEntry)
    (h : C01.ApiTM c tm kept) (hnul : ∀ col ∈ tm.cols, ∀ e ∈ col.entries, cstr e.name = e.name)
    (hn : ∀ s ∈ slices, s.length = tm.cols.length) (hf : ∀ s ∈ slices, TSFits c s)
    (fuel : Nat) (hfuel : slices.length < fuel) :
    ∃ bytes, Emits (writeFile c ⟨tm, slices.map (fun s => ⟨s.map some⟩)⟩) bytes ∧
      ∃ tm' slices', readFileF c none fuel bytes.toArray = ⟨.ok (1, 0), some (.ok tm'), slices', some (.tableEnd bytes.length)⟩ ∧
        Emits (writeFile c ⟨tm', slices'⟩) bytes := by
  obtain ⟨bytes, hem, hread⟩ := C01.api_roundtrip c tm slices kept h hn hf none [] fuel hfuel
  simp only [List.append_nil] at hread
  refine ⟨bytes, hem, _, _, hread, ?_⟩
  -- the bytes are those of the canonical layout
  have hb : bytes = C04.file c (C03.canonPhys tm kept) slices := by
    obtain ⟨_, hall, _⟩ := fold_facts _ kept h.fold
    have mdw : ∀ (m : Md), (∀ e ∈ m.entries, ∃ v, e.value = some v ∧ v.count = 1 ∧
        (∀ d, e.dflt = some d → d.tid = v.tid ∧ d.count = 1)) → (∀ e ∈ m.entries, fitsStr c e.name.length ∧
        (∀ v, e.value = some v → v.Fits c ∧ v.tid < 256) ∧ (∀ d, e.dflt = some d → d.Fits c ∧ d.tid < 256)) →
        C03.MdWritable m := by
      intro m hi hfit e he
      obtain ⟨v, hv, _, _⟩ := hi e he
      obtain ⟨_, hfv, hfd⟩ := hfit e he
      exact ⟨⟨v, hv, C01.writable_of_fits (hfv v hv).1⟩, fun d hd => C01.writable_of_fits (hfd d hd).1⟩
    have := C03.file_bytes c tm slices kept h.fold (mdw _ h.tabSingle h.tabFit)
      (fun col hcol => mdw col (h.colInv col hcol).single (h.colFit col hcol))
      (fun k hk d hd => by
        obtain ⟨col, hcol, hkc⟩ := C01.entry_of_kept hall hk
        exact C01.writable_of_fits ((h.colFit col hcol k hkc).2.2 d hd).1)
      (fun s hs x hx => C01.cs_writable_of_fits ((hf s hs).1 x hx)) hn
    rw [← hem.2, this.2]
  obtain ⟨kept', hfold', hcanon⟩ := tm_rewrite_identity c tm kept h hnul
  obtain ⟨_, hall, _⟩ := fold_facts _ kept h.fold
  have hmask : slices.map (fun s => (⟨maskFrom none 0 s⟩ : TS)) = slices.map (fun s => ⟨s.map some⟩) := by
    congr 1; funext s; rw [maskFrom_none]
  rw [hmask, hb, ← hcanon]
  apply C03.file_bytes c _ slices kept' hfold'
  · -- table-level entries of what was read are those that were written
    intro e he
    obtain ⟨v, hv, _, _⟩ := h.tabSingle e he
    obtain ⟨_, hfv, hfd⟩ := h.tabFit e he
    exact ⟨⟨v, hv, C01.writable_of_fits (hfv v hv).1⟩, fun d hd => C01.writable_of_fits (hfd d hd).1⟩
  · -- the rebuilt column metadata is serialisable
    intro col' hcol' e he
    simp only [C01.rebuiltCols, List.map_map, List.mem_map, Function.comp] at hcol'
    obtain ⟨col, hcol, rfl⟩ := hcol'
    simp only [Md.freeze] at he
    rw [rebuilt_eq_filterMap, List.mem_filterMap] at he
    obtain ⟨k, hk, hge⟩ := he
    obtain ⟨v, hv, rfl⟩ := gOf_some col k e hge
    obtain ⟨hok, _, _⟩ := C01.present_value c tm kept h col hcol k hk v hv
    obtain ⟨colk, hcolk, hkc⟩ := C01.entry_of_kept hall hk
    exact ⟨⟨v, rfl, C01.writable_of_fits hok.1⟩, fun d hd => C01.writable_of_fits ((h.colFit colk hcolk k hkc).2.2 d hd).1⟩
  · -- defaults of the new name list
    intro k' hk' d hd
    have hk'mem := (fold_facts _ kept' hfold').2.1 k' hk'
    rw [rebuilt_all] at hk'mem
    simp only [rebuiltAll, List.mem_flatMap, List.mem_map, List.mem_filterMap] at hk'mem
    obtain ⟨g, ⟨col, hcol, rfl⟩, k, hk, hge⟩ := hk'mem
    obtain ⟨v, hv, rfl⟩ := gOf_some col k k' hge
    obtain ⟨colk, hcolk, hkc⟩ := C01.entry_of_kept hall hk
    exact C01.writable_of_fits ((h.colFit colk hcolk k hkc).2.2 d hd).1
  · intro s hs x hx
    exact C01.cs_writable_of_fits ((hf s hs).1 x hx)
  · -- the slices still have the column count of the metadata that was read back
    intro s hs
    simp [C01.rebuiltCols, hn s hs]


/-! ### foreign streams: whatever the reader accepts is stable under serialisation -/

/-- what the column builder of the reader leaves behind: the entries it started with followed by
    one entry per present value, and the C10 invariant is kept -/
theorem buildCol_entries (names : List NameRow) (pc : List (Option Obj)) (m m' : Md)
    (hlen : pc.length = names.length) (h : buildCol names pc m = .ok m') :
    m'.entries = m.entries ++ C01.rebuilt names pc ∧ (C10.Inv m → C10.Inv m') := by
  induction names generalizing pc m with
  | nil =>
    cases pc with
    | nil => simp [buildCol] at h; subst h; simp [C01.rebuilt]
    | cons o os => simp at hlen
  | cons r rs ih =>
    cases pc with
    | nil => simp at hlen
    | cons o os =>
      simp only [List.length_cons, Nat.add_right_cancel_iff] at hlen
      cases o with
      | none =>
        simp only [buildCol] at h
        simpa [C01.rebuilt] using ih os m hlen h
      | some v =>
        simp only [buildCol] at h
        cases ha : Md.add r.name v r.dflt m with
        | error e => simp [ha] at h
        | ok m1 =>
          simp only [ha] at h
          obtain ⟨he, hi⟩ := ih os m1 hlen h
          obtain ⟨he1, _⟩ := C10.add_ok _ _ _ _ _ ha
          refine ⟨by rw [he, he1]; simp [C01.rebuilt], fun hm => hi (C10.add_inv _ _ _ _ _ hm ha)⟩

/-- an entry of a rebuilt column comes from a name row and a present value at the same position -/
theorem mem_rebuilt (names : List NameRow) (pc : List (Option Obj)) (e : MdEntry) (h : e ∈ C01.rebuilt names pc) :
    ∃ q ∈ names.zip pc, ∃ v, q.2 = some v ∧ e = ⟨cstr q.1.name, some v, q.1.dflt⟩ := by
  induction names generalizing pc with
  | nil => simp [C01.rebuilt] at h
  | cons r rs ih =>
    cases pc with
    | nil => simp [C01.rebuilt] at h
    | cons o os =>
      cases o with
      | none =>
        simp only [C01.rebuilt] at h
        obtain ⟨q, hq, v, hv, he⟩ := ih os h
        exact ⟨q, by simp [hq], v, hv, he⟩
      | some v =>
        simp only [C01.rebuilt, List.mem_cons] at h
        rcases h with h | h
        · exact ⟨(r, some v), by simp, v, rfl, h⟩
        · obtain ⟨q, hq, v', hv, he⟩ := ih os h
          exact ⟨q, by simp [hq], v', hv, he⟩

theorem cstr_length_le (b : Bytes) : (cstr b).length ≤ b.length := by
  unfold cstr; exact (List.takeWhile_sublist _).length_le

theorem fitsStr_mono (c : Cfg) {a b : Nat} (h : a ≤ b) (hb : fitsStr c b) : fitsStr c a := by
  unfold fitsStr at *; omega

/-- the in-memory form the reader returns for a well-formed physical table-metadata section -/
def readerTM (p : PhysTM) (cols : List Md) : TM :=
  ⟨⟨p.table.map (fun e => ⟨e.1, some e.2.1, e.2.2⟩), false⟩, cols.map Md.freeze⟩

theorem all2_mem {α β : Type} {R : α → β → Prop} {as : List α} {bs : List β} (h : All2 R as bs) :
    ∀ b ∈ bs, ∃ a ∈ as, R a b := by
  induction h with
  | nil => simp
  | cons hr _ ih =>
    intro b hb
    simp only [List.mem_cons] at hb
    rcases hb with hb | hb
    · subst hb; exact ⟨_, by simp, hr⟩
    · obtain ⟨a, ha, hab⟩ := ih b hb; exact ⟨a, by simp [ha], hab⟩

/-- Whatever the reader returns for a stream it accepts satisfies everything the writer and the
    round-trip theorems ask of an API-built table (duplicate table-level names, which only the
    reader can produce, included) as soon as its column metadata folds. -/
theorem reader_output_api (c : Cfg) (p : PhysTM) (cols : List Md) (h : p.Ok c cols) (kept : List MdEntry)
    (hfold : foldCols ((readerTM p cols).cols.flatMap (·.entries)) = .ok kept) :
    C01.ApiTM c (readerTM p cols) kept := by
  -- facts about the entries of a rebuilt column
  have colFacts : ∀ col ∈ cols, C10.Inv col ∧ ∀ e ∈ col.entries,
      (∃ r ∈ p.names, e.name = cstr r.name ∧ e.dflt = r.dflt ∧ ∃ v, e.value = some v ∧ MdObjOk c v ∧ v.tid = r.vt) := by
    intro col hcol
    obtain ⟨pc, _, hlen, hval, hb⟩ := all2_mem h.col col hcol
    obtain ⟨he, hi⟩ := buildCol_entries p.names pc Md.empty col hlen hb
    refine ⟨hi C10.inv_empty, ?_⟩
    intro e hee
    rw [he] at hee
    simp only [Md.empty, List.nil_append] at hee
    obtain ⟨q, hq, v, hv, rfl⟩ := mem_rebuilt _ _ e hee
    have hqn : q.1 ∈ p.names := (List.of_mem_zip hq).1
    obtain ⟨hok, ht⟩ := hval q hq v hv
    exact ⟨q.1, hqn, rfl, rfl, v, rfl, hok, ht⟩
  have hcolsMem : ∀ col ∈ (readerTM p cols).cols, ∃ col0 ∈ cols, col = col0.freeze := by
    intro col hcol
    simp only [readerTM, List.mem_map] at hcol
    obtain ⟨c0, h0, rfl⟩ := hcol
    exact ⟨c0, h0, rfl⟩
  refine ⟨hfold, ?_, ?_, ?_, ?_, ?_, ?_, ?_⟩
  · -- table-level entries: a value of count one, default of the same type
    intro e he
    simp only [readerTM, List.mem_map] at he
    obtain ⟨x, hx, rfl⟩ := he
    obtain ⟨_, hv, hd⟩ := h.table x hx
    exact ⟨x.2.1, rfl, hv.2.1, fun d hdd => ⟨(hd d hdd).2, (hd d hdd).1.2.1⟩⟩
  · intro col hcol
    obtain ⟨c0, h0, rfl⟩ := hcolsMem col hcol
    have := (colFacts c0 h0).1
    exact ⟨this.uniq, this.single⟩
  · intro e he
    simp only [readerTM, List.mem_map] at he
    obtain ⟨x, hx, rfl⟩ := he
    obtain ⟨hn, hv, hd⟩ := h.table x hx
    refine ⟨hn, ?_, ?_⟩
    · intro v hvv; simp only [Option.some.injEq] at hvv; subst hvv; exact ⟨hv.1, hv.2.2⟩
    · intro d hdd; exact ⟨(hd d hdd).1.1, (hd d hdd).1.2.2⟩
  · intro col hcol e he
    obtain ⟨c0, h0, rfl⟩ := hcolsMem col hcol
    obtain ⟨r, hr, hn, hd, v, hv, hok, _⟩ := (colFacts c0 h0).2 e he
    obtain ⟨hrn, _, hrd⟩ := h.names r hr
    refine ⟨by rw [hn]; exact fitsStr_mono c (cstr_length_le _) hrn, ?_, ?_⟩
    · intro v' hv'; rw [hv] at hv'; simp only [Option.some.injEq] at hv'; subst hv'; exact ⟨hok.1, hok.2.2⟩
    · intro d hdd; rw [hd] at hdd; exact ⟨(hrd d hdd).1.1, (hrd d hdd).1.2.2⟩
  · simpa [readerTM] using h.tcnt
  · simpa [readerTM, h.clen] using h.ccnt
  · -- the folded name list is no longer than the name list of the stream
    obtain ⟨_, hall, hdist⟩ := fold_facts _ kept hfold
    have hnd : (kept.map (fun k => cstr k.name)).Nodup := by
      rw [List.nodup_iff_pairwise_ne, List.pairwise_map]
      exact hdist.imp (fun hab => (nameEq_false_iff _ _).mp hab)
    have hsub : kept.map (fun k => cstr k.name) ⊆ p.names.map (fun r => cstr r.name) := by
      intro n hn
      simp only [List.mem_map] at hn
      obtain ⟨k, hk, rfl⟩ := hn
      have := hall k hk
      simp only [List.mem_flatMap] at this
      obtain ⟨col, hcol, hkc⟩ := this
      obtain ⟨c0, h0, rfl⟩ := hcolsMem col hcol
      obtain ⟨r, hr, hnm, _⟩ := (colFacts c0 h0).2 k hkc
      simp only [List.mem_map]
      refine ⟨r, hr, ?_⟩
      rw [hnm]
      have : cstr (cstr r.name) = cstr r.name := by
        have := (nameEq_iff (cstr r.name) r.name).mp (C11.nameEq_cstr r.name r.name ▸ by simp [Md.nameEq])
        exact this
      exact this.symm
    have hle := hnd.length_le_of_subset hsub
    simp only [List.length_map] at hle
    have := h.ncnt
    constructor <;> omega

/-- C08, foreign streams: for every well-formed physical stream (any name list, names repeated
    or unused, table-level names repeated, any order) — the layouts `C04.reads_wellformed` shows
    the reader accepts — writing the structures the reader returned either fails in
    `sbdf_tm_write` with INCORRECT_METADATA (and only when the column metadata does not fold), or
    produces a stream that reads back with OK on every call to the same table-level entries, the
    same slices, end-of-table at the end, and per column the same value under every name. -/
theorem foreign_rewrite (c : Cfg) (p : PhysTM) (cols : List Md) (slices : List (List CS)) (h : p.Ok c cols)
    (hn : ∀ s ∈ slices, s.length = p.cols.length) (hf : ∀ s ∈ slices, TSFits c s)
    (fuel : Nat) (hfuel : slices.length < fuel) :
    (∃ e, foldCols ((readerTM p cols).cols.flatMap (·.entries)) = .error e ∧
        (writeTM c (readerTM p cols)).st = .incorrectMd) ∨
    (∃ bytes cols', Emits (writeFile c ⟨readerTM p cols, slices.map (fun s => ⟨s.map some⟩)⟩) bytes ∧
      readFileF c none fuel bytes.toArray =
        ⟨.ok (1, 0), some (.ok ⟨(readerTM p cols).table, cols'⟩),
         slices.map (fun s => ⟨s.map some⟩), some (.tableEnd bytes.length)⟩ ∧
      All2 (fun (col col' : Md) => ∀ n, (col'.find n).bind (·.value) = (col.find n).bind (·.value))
        (readerTM p cols).cols cols') := by
  have htabW : C03.MdWritable (readerTM p cols).table := by
    intro e he
    simp only [readerTM, List.mem_map] at he
    obtain ⟨x, hx, rfl⟩ := he
    obtain ⟨_, hv, hd⟩ := h.table x hx
    exact ⟨⟨x.2.1, rfl, C01.writable_of_fits hv.1⟩, fun d hdd => C01.writable_of_fits (hd d hdd).1.1⟩
  cases hfold : foldCols ((readerTM p cols).cols.flatMap (·.entries)) with
  | error e =>
    exact .inl ⟨e, rfl, C01.unrepresentable_is_refused c _ e hfold htabW⟩
  | ok kept =>
    refine .inr ?_
    have hapi := reader_output_api c p cols h kept hfold
    have hn' : ∀ s ∈ slices, s.length = (readerTM p cols).cols.length := by
      intro s hs; rw [hn s hs]; simp [readerTM, h.clen]
    obtain ⟨bytes, hem, hread⟩ := C01.api_roundtrip c _ slices kept hapi hn' hf none [] fuel hfuel
    simp only [List.append_nil] at hread
    have hmask : slices.map (fun s => (⟨maskFrom none 0 s⟩ : TS)) = slices.map (fun s => ⟨s.map some⟩) := by
      congr 1; funext s; rw [maskFrom_none]
    rw [hmask] at hread
    refine ⟨bytes, _, hem, hread, ?_⟩
    obtain ⟨hrep, _, _⟩ := fold_facts _ kept hfold
    -- pointwise over the columns
    have key : ∀ (l : List Md), (∀ col ∈ l, col ∈ (readerTM p cols).cols) →
        All2 (fun (col col' : Md) => ∀ n, (col'.find n).bind (·.value) = (col.find n).bind (·.value)) l
          ((l.map (fun col => (⟨C01.rebuilt (kept.map (fun k => ⟨k.name, entryTid k, k.dflt⟩))
            (kept.map (fun k => (col.find k.name).bind (·.value))), true⟩ : Md))).map Md.freeze) := by
      intro l
      induction l with
      | nil => intro _; exact .nil
      | cons col rest ih =>
        intro hmem
        refine .cons ?_ (ih (fun x hx => hmem x (by simp [hx])))
        intro n
        have := C01.rebuilt_lookup col kept (fun e he => by
          obtain ⟨k, hk, hne, _⟩ := hrep e (by
            simp only [List.mem_flatMap]; exact ⟨col, hmem col (by simp), he⟩)
          exact ⟨k, hk, hne⟩) n
        simpa [Md.freeze, Md.find] using this
    exact key _ (fun _ hx => hx)

theorem fits_int4 (a b c d : UInt8) : Obj.Fits {} ⟨2, [[a, b, c, d]]⟩ := by
  unfold Obj.Fits
  refine ⟨4, by rfl, ?_, by simp [Obj.count], by simp [Obj.count]; decide⟩
  intro e he
  simp only [List.mem_cons, List.mem_nil_iff, or_false] at he
  subst he; rfl

theorem fitsStr_one (x : UInt8) : fitsStr {} [x].length := by unfold fitsStr; simp only [List.length_singleton]; decide

/-- non-vacuity: a foreign layout the library would never write (an unused name row, a repeated
    table-level name) is well formed, and its column metadata folds -/
example :
    let p : PhysTM := ⟨[([97], ⟨2, [[1, 0, 0, 0]]⟩, none), ([97], ⟨2, [[2, 0, 0, 0]]⟩, none)],
      [⟨[120], 10, none⟩, ⟨[121], 2, none⟩], [[none, some ⟨2, [[7, 0, 0, 0]]⟩]]⟩
    ∃ cols, p.Ok {} cols ∧ ∃ kept, foldCols ((readerTM p cols).cols.flatMap (·.entries)) = .ok kept := by
  refine ⟨[⟨[⟨[121], some ⟨2, [[7, 0, 0, 0]]⟩, none⟩], true⟩], ?_, _, rfl⟩
  refine ⟨?_, ?_, by decide, by decide, by decide, ?_⟩
  · intro e he
    simp only [List.mem_cons, List.mem_nil_iff, or_false] at he
    rcases he with rfl | rfl <;>
      exact ⟨fitsStr_one _, ⟨fits_int4 _ _ _ _, by decide, by decide⟩, by intro d hd; cases hd⟩
  · intro r hr
    simp only [List.mem_cons, List.mem_nil_iff, or_false] at hr
    rcases hr with rfl | rfl <;> exact ⟨fitsStr_one _, by decide, by intro d hd; cases hd⟩
  · refine .cons ⟨rfl, ?_, rfl⟩ .nil
    intro q hq x hx
    simp only [List.zip_cons_cons, List.zip_nil_right, List.mem_cons, List.mem_nil_iff, or_false] at hq
    rcases hq with rfl | rfl
    · cases hx
    · simp only [Option.some.injEq] at hx; subst hx
      exact ⟨⟨fits_int4 _ _ _ _, by decide, by decide⟩, rfl⟩


/-! the one accepted layout outside `PhysTM`: a table-level entry whose value is absent -/

theorem seq_st_ne_ok_left {a b : WOut} (h : a.st ≠ .ok) : (a ++ b).st ≠ .ok := by
  rw [WOut.append_err h]; exact h

theorem seq_st_ne_ok_right {a b : WOut} (h : b.st ≠ .ok) : (a ++ b).st ≠ .ok := by
  by_cases ha : a.st = .ok
  · rw [(WOut.append_ok ha).2]; exact h
  · exact seq_st_ne_ok_left ha

theorem seqAll_st_ne_ok (ws : List WOut) (w : WOut) (hw : w ∈ ws) (h : w.st ≠ .ok) : (WOut.seqAll ws).st ≠ .ok := by
  induction ws with
  | nil => simp at hw
  | cons x xs ih =>
    simp only [WOut.seqAll]
    simp only [List.mem_cons] at hw
    rcases hw with rfl | hw
    · exact seq_st_ne_ok_left h
    · exact seq_st_ne_ok_right (ih hw)

/-- The reader also accepts a table-level entry whose value is absent (presence flag 0), which no
    `PhysTM` describes: writing it back fails — `sbdf_tm_write` does not return OK (the status is
    INCORRECT_METADATA unless an earlier entry failed first). -/
theorem absent_table_value_refused (c : Cfg) (tm : TM) (e : MdEntry) (he : e ∈ tm.table.entries)
    (hv : e.value = none) : (writeTM c tm).st ≠ .ok := by
  unfold writeTM
  refine seq_st_ne_ok_left (seq_st_ne_ok_left (seq_st_ne_ok_right ?_))
  refine seqAll_st_ne_ok _ (writeTableEntry c e) (List.mem_map_of_mem he) ?_
  simp [writeTableEntry, hv]


/-! ### every accepted byte string: the reader's result is one of the forms above -/

theorem all2_of_forall_exists {α β : Type} {R : α → β → Prop} (bs : List β) (h : ∀ b ∈ bs, ∃ a, R a b) :
    ∃ as, All2 R as bs := by
  induction bs with
  | nil => exact ⟨[], .nil⟩
  | cons b bs ih =>
    obtain ⟨a, ha⟩ := h b (by simp)
    obtain ⟨as, has⟩ := ih (fun x hx => h x (by simp [hx]))
    exact ⟨a :: as, .cons ha has⟩

/-- the column reader, on any input: its result is what `buildCol` makes of SOME list of optional
    values, each a singleton of its row's type within the allocation limits -/
theorem post_readColumn (c : Cfg) (rows : List NameRow) (hrows : ∀ r ∈ rows, r.vt < 256) (m : Md) :
    Post (readColumn c rows m) (fun m' => ∃ pc : List (Option Obj), pc.length = rows.length ∧
      (∀ q ∈ rows.zip pc, ∀ x, q.2 = some x → MdObjOk c x ∧ x.tid = q.1.vt) ∧ buildCol rows pc m = .ok m') := by
  induction rows generalizing m with
  | nil => exact Post.pure ⟨[], rfl, by simp, rfl⟩
  | cons r rs ih =>
    simp only [readColumn, P.bind_def]
    refine Post.bind (Post.readOptObj c r.vt false (hrows r (by simp))) (fun o ho => ?_)
    have ih' := fun m1 => ih (fun r' hr' => hrows r' (by simp [hr'])) m1
    cases o with
    | none =>
      refine (ih' m).weaken (fun m' hm => ?_)
      obtain ⟨pc, hl, hv, hb⟩ := hm
      refine ⟨none :: pc, by simp [hl], ?_, by simpa [buildCol] using hb⟩
      intro q hq x hx
      simp only [List.zip_cons_cons, List.mem_cons] at hq
      rcases hq with rfl | hq
      · cases hx
      · exact hv q hq x hx
    | some v =>
      simp only
      cases ha : Md.add r.name v r.dflt m with
      | error e => exact Post.fail
      | ok m1 =>
        refine (ih' m1).weaken (fun m' hm => ?_)
        obtain ⟨pc, hl, hv, hb⟩ := hm
        refine ⟨some v :: pc, by simp [hl], ?_, by simp [buildCol, ha, hb]⟩
        intro q hq x hx
        simp only [List.zip_cons_cons, List.mem_cons] at hq
        rcases hq with rfl | hq
        · exact ho x hx
        · exact hv q hq x hx

theorem post_readMdValues (c : Cfg) (vt : Nat) (hvt : vt < 256) :
    Post (readMdValues c vt) (fun x => (∀ y, x.1 = some y → MdObjOk c y ∧ y.tid = vt) ∧
      (∀ y, x.2 = some y → MdObjOk c y ∧ y.tid = vt)) := by
  unfold readMdValues
  simp only [P.bind_def]
  exact Post.bind (Post.readOptObj c vt true hvt) (fun value hv =>
    Post.bind (Post.readOptObj c vt true hvt) (fun dflt hd => Post.pure ⟨hv, hd⟩))

theorem post_readTableEntry (c : Cfg) :
    Post (readTableEntry c) (fun e => fitsStr c e.name.length ∧
      ∀ v, e.value = some v → MdObjOk c v ∧ ∀ d, e.dflt = some d → MdObjOk c d ∧ d.tid = v.tid) := by
  unfold readTableEntry
  simp only [P.bind_def]
  refine Post.bind (Post.readString c) (fun name hn => ?_)
  refine Post.bind Post.readInt8 (fun vt hvt => ?_)
  refine Post.bind (post_readMdValues c vt hvt) (fun x hx => ?_)
  obtain ⟨value, dflt⟩ := x
  refine Post.pure ⟨hn, ?_⟩
  intro v hv
  obtain ⟨h1, h2⟩ := hx.1 v hv
  exact ⟨h1, fun d hd => ⟨(hx.2 d hd).1, by rw [(hx.2 d hd).2, h2]⟩⟩

theorem post_readNameRow (c : Cfg) : Post (readNameRow c) (NameRowOk c) := by
  unfold readNameRow
  simp only [P.bind_def]
  refine Post.bind (Post.readString c) (fun name hn => ?_)
  refine Post.bind Post.readInt8 (fun vt hvt => ?_)
  exact Post.bind (Post.readOptObj c vt false hvt) (fun dflt hd => Post.pure ⟨hn, hvt, hd⟩)

/-- `sbdf_tm_read` on ANY byte string: if it returns OK, the structure it returns either has a
    table-level entry without a value, or is exactly what the reader returns for some well-formed
    physical section (`readerTM p cols` with `p.Ok c cols`) — non-canonical encodings of the same
    content (column presence flags other than 0/1) decode to the same in-memory form. -/
theorem post_readTM (c : Cfg) :
    Post (readTM c) (fun tm => (∃ e ∈ tm.table.entries, e.value = none) ∨
      ∃ p cols, Spec.PhysTM.Ok c p cols ∧ tm = readerTM p cols) := by
  unfold readTM
  simp only [P.bind_def]
  refine Post.bind (Q := fun _ => True) Post.trivial (fun _ _ => ?_)
  refine Post.bind (Post.readInt32 c) (fun count hcount => ?_)
  refine Post.ite (fun _ => Post.fail) (fun hc0 => ?_)
  refine Post.bind (Post.readMany (post_readTableEntry c) count.toNat) (fun entries hent => ?_)
  refine Post.bind (Post.readInt32 c) (fun colCnt hcc => ?_)
  refine Post.ite (fun _ => Post.fail) (fun _ => ?_)
  refine Post.bind (Post.alloc c _) (fun _ hca => ?_)
  refine Post.bind (Post.remapErr .oom (Post.readInt32 c)) (fun mdCnt hmc => ?_)
  refine Post.ite (fun _ => Post.fail) (fun _ => ?_)
  refine Post.bind (Post.alloc c _) (fun _ hma => ?_)
  refine Post.bind (Post.readMany (post_readNameRow c) mdCnt.toNat) (fun rows hrows => ?_)
  refine Post.bind (Post.readMany (post_readColumn c rows (fun r hr => (hrows.2 r hr).2.1) Md.empty) colCnt.toNat)
    (fun cols hcols => Post.pure ?_)
  by_cases hall : ∀ e ∈ entries, ∃ v, e.value = some v
  · right
    obtain ⟨pcs, hpcs⟩ := all2_of_forall_exists (R := ColOk c rows) cols (fun m hm => by
      obtain ⟨pc, h1, h2, h3⟩ := hcols.2 m hm; exact ⟨pc, h1, h2, h3⟩)
    have hcc0 : (0 : Int) ≤ colCnt := by omega
    have hmc0 : (0 : Int) ≤ mdCnt := by omega
    refine ⟨⟨C03.tableTriples entries, rows, pcs⟩, cols, ⟨?_, hrows.2, ?_, ?_, ?_, hpcs⟩, ?_⟩
    · intro t ht
      simp only [C03.tableTriples, List.mem_filterMap] at ht
      obtain ⟨e, he, hte⟩ := ht
      obtain ⟨v, hv⟩ := hall e he
      simp only [hv, Option.map_some, Option.some.injEq] at hte
      subst hte
      obtain ⟨hn, hvv⟩ := hent.2 e he
      exact ⟨hn, (hvv v hv).1, (hvv v hv).2⟩
    · have : (C03.tableTriples entries).length ≤ entries.length := by
        unfold C03.tableTriples; exact List.length_filterMap_le _ _
      have h1 := hent.1
      unfold isInt32 at hcount; unfold INT_MAX
      simp only
      omega
    · have := hpcs.length_eq
      simp only
      rw [this, hcols.1]
      have : ((colCnt.toNat : Nat) : Int) = colCnt := Int.toNat_of_nonneg hcc0
      unfold isInt32 at hcc; unfold INT_MAX
      omega
    · simp only
      rw [hrows.1]
      have : ((mdCnt.toNat : Nat) : Int) = mdCnt := Int.toNat_of_nonneg hmc0
      unfold isInt32 at hmc; unfold INT_MAX
      omega
    · simp only [readerTM]
      rw [C01.triples_roundtrip entries hall]
  · left
    false_or_by_contra
    rename_i hno
    apply hall
    intro e he
    cases hv : e.value with
    | none => exact absurd ⟨e, he, hv⟩ hno
    | some v => exact ⟨v, rfl⟩

/-- C08, foreign clause at full strength for the table metadata: for EVERY byte string, at every
    offset, on which `sbdf_tm_read` returns OK, and every list of slices within the limits
    (what `sbdf_ts_read` returned), writing the returned structures back either fails in
    `sbdf_tm_write`, or produces a file that reads back OK to the same table-level entries, the
    same slices, end-of-table, and per column the same value under every name. -/
theorem accepted_rewrite (c : Cfg) (d : Array UInt8) (pos pos' : Nat) (tm : TM)
    (hread : readTM c d pos = .ok (tm, pos'))
    (slices : List (List CS)) (hn : ∀ s ∈ slices, s.length = tm.cols.length) (hf : ∀ s ∈ slices, TSFits c s)
    (fuel : Nat) (hfuel : slices.length < fuel) :
    (writeTM c tm).st ≠ .ok ∨
    (∃ bytes cols', Emits (writeFile c ⟨tm, slices.map (fun s => ⟨s.map some⟩)⟩) bytes ∧
      readFileF c none fuel bytes.toArray =
        ⟨.ok (1, 0), some (.ok ⟨tm.table, cols'⟩),
         slices.map (fun s => ⟨s.map some⟩), some (.tableEnd bytes.length)⟩ ∧
      All2 (fun (col col' : Md) => ∀ n, (col'.find n).bind (·.value) = (col.find n).bind (·.value))
        tm.cols cols') := by
  rcases post_readTM c d pos tm pos' hread with ⟨e, he, hv⟩ | ⟨p, cols, hok, rfl⟩
  · exact .inl (absent_table_value_refused c tm e he hv)
  · have hn' : ∀ s ∈ slices, s.length = p.cols.length := by
      intro s hs; rw [hn s hs]; simp [readerTM, hok.clen]
    rcases foreign_rewrite c p cols slices hok hn' hf fuel hfuel with ⟨e, _, hst⟩ | h
    · exact .inl (by rw [hst]; decide)
    · exact .inr h


/-! ### every accepted file -/

/-- every slice the caller loop returned was returned by a successful `sbdf_ts_read` -/
theorem readSlices_from_readTS (c : Cfg) (n : Nat) (sub : Option (List Bool)) (d : Array UInt8) :
    ∀ (fuel pos : Nat) (ts : TS), ts ∈ (readSlices c n sub d fuel pos).1 →
      ∃ p p', readTS c n sub d p = .ok (some ts, p') := by
  intro fuel
  induction fuel with
  | zero => intro pos ts h; simp [readSlices] at h
  | succ f ih =>
    intro pos ts h
    simp only [readSlices] at h
    split at h
    · simp at h
    · simp at h
    · rename_i t pos' hr
      simp only [List.mem_cons] at h
      rcases h with rfl | h
      · exact ⟨pos, pos', hr⟩
      · exact ih pos' ts h

theorem map_some_filterMap_id {α : Type} (l : List (Option α)) (h : ∀ o ∈ l, ∃ x, o = some x) :
    (l.filterMap id).map some = l := by
  induction l with
  | nil => rfl
  | cons o os ih =>
    obtain ⟨x, rfl⟩ := h o (by simp)
    simp only [List.filterMap_cons, id, List.map_cons]
    rw [ih (fun o' ho' => h o' (by simp [ho']))]

/-- C08, foreign clause for whole files: for EVERY byte string that the readers accept to the end
    (header OK, table metadata OK, every `sbdf_ts_read` OK until end-of-table), provided only that
    the byte-size header of every string/binary array read fits an `int` (true of every input
    below 400 MiB): writing the returned structures
    back either fails in `sbdf_tm_write`, or produces a file that reads back OK to the same
    table-level entries, the very same slices, end-of-table at its end, and per column the same
    value under every name.  Nothing else is assumed about the input. -/
theorem accepted_file_rewrite (c : Cfg) (d : Array UInt8) (fuel : Nat) (v : Nat × Nat) (tm : TM)
    (tss : List TS) (e : Nat)
    (h : readFileF c none fuel d = ⟨.ok v, some (.ok tm), tss, some (.tableEnd e)⟩)
    (hin : ∀ ts ∈ tss, ∀ x, some x ∈ ts.cols → x.BSOk)
    (fuel' : Nat) (hfuel : tss.length < fuel') :
    (writeTM c tm).st ≠ .ok ∨
    (∃ bytes cols', Emits (writeFile c ⟨tm, tss⟩) bytes ∧
      readFileF c none fuel' bytes.toArray =
        ⟨.ok (1, 0), some (.ok ⟨tm.table, cols'⟩), tss, some (.tableEnd bytes.length)⟩ ∧
      All2 (fun (col col' : Md) => ∀ n, (col'.find n).bind (·.value) = (col.find n).bind (·.value))
        tm.cols cols') := by
  -- what the successful calls were
  unfold readFileF at h
  split at h
  · simp at h
  · rename_i v0 pos hfh
    split at h
    · simp at h
    · rename_i tm0 pos' hread
      simp only [FileResult.mk.injEq, Option.some.injEq, Except.ok.injEq] at h
      obtain ⟨_, htm, hts, _⟩ := h
      subst htm
      -- facts about every slice
      have hfacts : ∀ ts ∈ tss, ts.cols.length = tm0.cols.length ∧ (tm0.cols.length : Int) * 8 ≤ c.cap ∧
          (tm0.cols.length : Int) ≤ INT_MAX ∧ ∀ o ∈ ts.cols, ∃ x, o = some x ∧ CS.FitsR c x := by
        intro ts hmem
        rw [← hts] at hmem
        obtain ⟨p, p', hr⟩ := readSlices_from_readTS c _ none d fuel pos' ts hmem
        exact Post.readTS c _ d p (some ts) p' hr ts rfl
      let slices : List (List CS) := tss.map (fun ts => ts.cols.filterMap id)
      have hback : slices.map (fun s => (⟨s.map some⟩ : TS)) = tss := by
        simp only [slices, List.map_map]
        have : ∀ ts ∈ tss, ((fun s => (⟨s.map some⟩ : TS)) ∘ (fun ts : TS => ts.cols.filterMap id)) ts = ts := by
          intro ts hmem
          simp only [Function.comp]
          rw [map_some_filterMap_id ts.cols (fun o ho => by
            obtain ⟨x, hx, _⟩ := (hfacts ts hmem).2.2.2 o ho; exact ⟨x, hx⟩)]
        rw [List.map_congr_left this]; simp
      have hlen : ∀ ts ∈ tss, (ts.cols.filterMap id).length = ts.cols.length := by
        intro ts hmem
        have := congrArg List.length (map_some_filterMap_id ts.cols (fun o ho => by
          obtain ⟨x, hx, _⟩ := (hfacts ts hmem).2.2.2 o ho; exact ⟨x, hx⟩))
        simpa using this
      have hn : ∀ s ∈ slices, s.length = tm0.cols.length := by
        intro s hs
        simp only [slices, List.mem_map] at hs
        obtain ⟨ts, hmem, rfl⟩ := hs
        rw [hlen ts hmem]; exact (hfacts ts hmem).1
      have hf : ∀ s ∈ slices, TSFits c s := by
        intro s hs
        simp only [slices, List.mem_map] at hs
        obtain ⟨ts, hmem, rfl⟩ := hs
        obtain ⟨h1, h2, h3, h4⟩ := hfacts ts hmem
        refine ⟨?_, by rw [hlen ts hmem, h1]; exact h2, by rw [hlen ts hmem, h1]; exact h3⟩
        intro x hx
        simp only [List.mem_filterMap, id] at hx
        obtain ⟨o, ho, hox⟩ := hx
        subst hox
        obtain ⟨x', hx', hfit⟩ := h4 (some x) ho
        simp only [Option.some.injEq] at hx'
        subst hx'
        exact CS.fits_of hfit (hin ts hmem x ho)
      have hfl : slices.length < fuel' := by simp only [slices, List.length_map]; exact hfuel
      rcases accepted_rewrite c d pos pos' tm0 hread slices hn hf fuel' hfl with hw | ⟨bytes, cols', h1, h2, h3⟩
      · exact .inl hw
      · rw [hback] at h1 h2
        exact .inr ⟨bytes, cols', h1, h2, h3⟩


/-- non-vacuity of `accepted_file_rewrite`: a concrete byte string the readers accept to the end
    whose slices meet the two side conditions (evaluated by the kernel) -/
example :
    let colMd : Md := ⟨[⟨[78, 97, 109, 101], some ⟨10, [[99]]⟩, none⟩], false⟩
    let tm : TM := ⟨⟨[], false⟩, [colMd]⟩
    let cs : CS := ⟨.rle 3 [1, 0] ⟨10, [[120], [121, 122]]⟩, 0, []⟩
    let d := (writeFile {} ⟨tm, [⟨[some cs]⟩]⟩).bytes.toArray
    readFileF {} none 5 d = ⟨.ok (1, 0), some (.ok tm), [⟨[some cs]⟩], some (.tableEnd d.size)⟩ ∧
    (∀ ts ∈ [(⟨[some cs]⟩ : TS)], ∀ x, some x ∈ ts.cols → x.BSOk) := by
  refine ⟨rfl, ?_⟩
  intro ts hts x hx
  simp only [List.mem_singleton] at hts
  subst hts
  simp only [List.mem_singleton, Option.some.injEq] at hx
  subst hx
  exact ⟨fun _ => by decide, by simp⟩

end Sbdf.C08
