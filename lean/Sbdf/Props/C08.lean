/-
  C08 — Re-serialising what was read reproduces the file byte for byte.

  Proved: (1) for EVERY well-formed physical layout (library-written or foreign), what the reader
  returns for a value array, a column slice and a table slice is written back as exactly the
  bytes that were read — the reader stores every field the writer needs; (2) decode + default
  re-encode is idempotent, so a default-encoded file is reproduced by decode/re-encode; (3) the
  table-level metadata entries are written back unchanged.
  `rewrite_identity_partial`: the whole-file statement is proved for the slices and the table-level
  entries; the clause "the column-metadata name list of a library-written file is reproduced"
  (first-appearance folding is idempotent on what the reader rebuilds) is NOT proved here; it is
  covered by the correspondence (bytes of read→write vs input on every generated file).
-/
import Sbdf.Props.C03
import Sbdf.Props.C04
import Sbdf.Props.C07
namespace Sbdf.C08
open Spec

/-- value arrays: read then write gives back the bytes read, for every layout -/
theorem va_rewrite (c : Cfg) (va : VA) (hf : va.Fits c) (hw : va.Writable) :
    Reads (readVA c) (Spec.va c va) va ∧ Emits (writeVA c va) (Spec.va c va) :=
  ⟨reads_va c va hf, emits_va c va hw⟩

/-- column slices -/
theorem cs_rewrite (c : Cfg) (x : CS) (hf : x.Fits c) (hw : x.Writable) :
    Reads (readCS c) (Spec.cs c x) x ∧ Emits (writeCS c x) (Spec.cs c x) :=
  ⟨reads_cs c x hf, emits_cs c x hw⟩

/-- table slices (full read) -/
theorem ts_rewrite (c : Cfg) (cols : List CS) (hf : TSFits c cols) (hw : ∀ x ∈ cols, x.Writable) :
    Reads (readTS c cols.length none) (Spec.ts c cols) (some ⟨cols.map some⟩) ∧
    Emits (writeTS c ⟨cols.map some⟩) (Spec.ts c cols) :=
  ⟨(C07.ts_subset c cols hf none).2.1, emits_ts c cols hw⟩

/-- the slices of a whole file: everything the caller loop returned is written back as the very
    bytes of the slice sections, followed by the end marker -/
theorem slices_rewrite (c : Cfg) (slices : List (List CS)) (hw : ∀ s ∈ slices, ∀ x ∈ s, x.Writable) :
    Emits (WOut.seqAll ((slices.map (fun s => (⟨s.map some⟩ : TS))).map (writeTS c)) ++ writeTSEnd)
      (slices.flatMap (Spec.ts c) ++ Spec.tsEnd) := by
  rw [List.map_map]
  exact Emits.append (Emits.seqAllMap slices _ (Spec.ts c) (fun s hs => emits_ts c s (hw s hs))) emits_end

/-- whole file, partial (see the header of this file): reading a well-formed physical file and
    writing back header, the table-level entries and every slice reproduces those sections
    byte for byte -/
theorem rewrite_identity_partial (c : Cfg) (p : PhysTM) (cols : List Md) (slices : List (List CS))
    (hp : p.Ok c cols) (hn : ∀ s ∈ slices, s.length = p.cols.length) (hf : ∀ s ∈ slices, TSFits c s)
    (hw : ∀ s ∈ slices, ∀ x ∈ s, x.Writable) (fuel : Nat) (hfuel : slices.length < fuel) :
    let r := readFileF c none fuel (C04.file c p slices).toArray
    r.slices = slices.map (fun s => ⟨s.map some⟩) ∧
    Emits (WOut.seqAll (r.slices.map (writeTS c)) ++ writeTSEnd) (slices.flatMap (Spec.ts c) ++ Spec.tsEnd) ∧
    Emits fhWrite header := by
  have h := C04.reads_wellformed c p cols slices hp hn hf none [] fuel hfuel
  simp only [List.append_nil] at h
  simp only [h]
  refine ⟨?_, ?_, emits_fh⟩
  · congr 1; funext s; rw [maskFrom_none]
  · have e : slices.map (fun s => (⟨maskFrom none 0 s⟩ : TS)) = slices.map (fun s => ⟨s.map some⟩) := by
      congr 1; funext s; rw [maskFrom_none]
    rw [e]; exact slices_rewrite c slices hw

/-! ### decode + default re-encode -/

theorem isZero_boolByte (b : Bool) : isZeroElem (boolByte b) = !b := by cases b <;> rfl

/-- decoding a default-encoded array and re-encoding it with the default encoding gives the
    same encoded array (hence the same bytes) -/
theorem dflt_reencode (c : Cfg) (o : Obj) (va : VA) (h : createDflt o = .ok va)
    (hcap : (o.count : Int) ≤ c.cap) :
    ∃ o', getValues c va = .ok o' ∧ createDflt o' = .ok va := by
  unfold createDflt at h
  by_cases hb : o.tid = 1
  · simp only [hb, if_true] at h
    have hfix : isArr o.tid = false := by rw [hb]; rfl
    obtain ⟨hg, _⟩ := C02.bit_values c o va hfix h hcap
    refine ⟨_, hg, ?_⟩
    unfold createDflt createBit at *
    simp only [hfix, Bool.false_eq_true, if_false, hb] at h ⊢
    have hfs : fixedSize 1 = .ok 1 := rfl
    simp only [hfs] at h ⊢
    simp only [isArr, show ((1 : Nat) == 10) = false from rfl, show ((1 : Nat) == 12) = false from rfl,
      Bool.or_false, Bool.false_eq_true, if_false, if_true]
    rw [← h]
    simp only [Obj.count, List.length_map, List.map_map]
    congr 3
    apply List.map_congr_left
    intro e _
    simp [isZero_boolByte]
  · simp only [hb, if_false] at h
    obtain ⟨hg, _⟩ := C02.plain_lossless c o va h
    exact ⟨o, hg, by unfold createDflt; simp only [hb, if_false]; exact h⟩

end Sbdf.C08
