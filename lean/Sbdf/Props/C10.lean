import Sbdf.Slice
namespace Sbdf.C10
end Sbdf.C10
