/-
  C10 — Metadata collections behave as an insertion-ordered map with a one-way freeze.
-/
import Sbdf.TableMetadata
import Sbdf.Lemmas.P
import Sbdf.Props.C11
namespace Sbdf.C10
open Md

/-- the abstract view: an insertion-ordered association list keyed by the C-string name -/
def keys (m : Md) : List Bytes := m.entries.map (fun e => cstr e.name)

/-- invariant of metadata built through the API -/
structure Inv (m : Md) : Prop where
  uniq : m.entries.Pairwise (fun a b => nameEq a.name b.name = false)
  single : ∀ e ∈ m.entries, ∃ v, e.value = some v ∧ v.count = 1 ∧
    (∀ d, e.dflt = some d → d.tid = v.tid ∧ d.count = 1)

theorem inv_empty : Inv Md.empty := ⟨by simp [Md.empty], by simp [Md.empty]⟩

theorem find_none_iff (m : Md) (n : Bytes) : m.find n = none ↔ ∀ e ∈ m.entries, nameEq e.name n = false := by
  simp [Md.find, List.find?_eq_none]

/-! ### add -/

/-- the checks of `sbdf_md_add`, in the order of the C code -/
theorem add_status (n : Bytes) (v : Obj) (d : Option Obj) (m : Md) :
    (m.modifiable = false → add n v d m = .error .mdReadonly) ∧
    (m.modifiable = true → dfltTypeMismatch v d = true → add n v d m = .error .valuetypesEq) ∧
    (m.modifiable = true → dfltTypeMismatch v d = false → (v.count ≠ 1 ∨ dfltBadCount d = true) →
      add n v d m = .error .arrayLen1) ∧
    (m.modifiable = true → dfltTypeMismatch v d = false → v.count = 1 → dfltBadCount d = false →
      m.exists_ n = true → add n v d m = .error .mdExists) := by
  refine ⟨?_, ?_, ?_, ?_⟩
  · intro h; simp [add, h]
  · intro h ht; simp [add, h, ht]
  · intro h ht hc
    rcases hc with hc | hc <;> simp [add, h, ht, hc]
  · intro h ht hc hb he
    simp [add, h, ht, hc, hb, he]

/-- what the two helper predicates say -/
theorem dflt_checks (v : Obj) (d : Option Obj) :
    (dfltTypeMismatch v d = false ↔ ∀ dd, d = some dd → dd.tid = v.tid) ∧
    (dfltBadCount d = false ↔ ∀ dd, d = some dd → dd.count = 1) := by
  cases d with
  | none => simp [dfltTypeMismatch, dfltBadCount]
  | some dd =>
    simp only [dfltTypeMismatch, dfltBadCount, bne_eq_false_iff_eq, Option.some.injEq]
    exact ⟨⟨fun h x hx => by rw [← hx]; exact h.symm, fun h => (h dd rfl).symm⟩,
           ⟨fun h x hx => by rw [← hx]; exact h, fun h => h dd rfl⟩⟩

/-- a successful add appends one entry at the end (insertion order), nothing else changes -/
theorem add_ok (n : Bytes) (v : Obj) (d : Option Obj) (m m' : Md) (h : add n v d m = .ok m') :
    m'.entries = m.entries ++ [⟨cstr n, some v, d⟩] ∧ m'.modifiable = m.modifiable ∧
    m.modifiable = true ∧ m.exists_ n = false ∧ v.count = 1 ∧
    (∀ dd, d = some dd → dd.tid = v.tid ∧ dd.count = 1) := by
  unfold add at h
  split at h; · simp at h
  split at h; · simp at h
  split at h; · simp at h
  split at h; · simp at h
  rename_i h1 h2 h3 h4
  simp at h; subst h
  simp only [Bool.or_eq_true, not_or, bne_iff_ne, ne_eq, Decidable.not_not, Bool.not_eq_true] at h3
  refine ⟨rfl, rfl, by simpa using h1, by simpa using h4, h3.1, ?_⟩
  intro dd hd
  exact ⟨((dflt_checks v d).1.mp (by simpa using h2)) dd hd, ((dflt_checks v d).2.mp h3.2) dd hd⟩

theorem add_inv (n : Bytes) (v : Obj) (d : Option Obj) (m m' : Md) (hi : Inv m) (h : add n v d m = .ok m') :
    Inv m' := by
  obtain ⟨he, _, _, hex, hc, hd⟩ := add_ok n v d m m' h
  have hnone : ∀ e ∈ m.entries, nameEq e.name n = false := by
    have : m.find n = none := by simpa [Md.exists_] using hex
    exact (find_none_iff m n).mp this
  refine ⟨?_, ?_⟩
  · rw [he, List.pairwise_append]
    refine ⟨hi.uniq, by simp, ?_⟩
    intro a ha b hb
    simp only [List.mem_singleton] at hb; subst hb
    simp only
    rw [C11.nameEq_symm, C11.nameEq_cstr, C11.nameEq_symm]; exact hnone a ha
  · intro e hem
    rw [he] at hem
    simp only [List.mem_append, List.mem_singleton] at hem
    rcases hem with h1 | h1
    · exact hi.single e h1
    · subst h1; exact ⟨v, rfl, hc, fun dd hdd => hd dd hdd⟩

/-- `get` after `add` returns the value just added (an equal deep copy), and its default -/
theorem get_after_add (n : Bytes) (v : Obj) (d : Option Obj) (m m' : Md) (h : add n v d m = .ok m') :
    get n m' = .ok v ∧ getDflt n m' = .ok d ∧ m'.exists_ n = true ∧ m'.cnt = m.cnt + 1 := by
  obtain ⟨he, _, _, hex, _, _⟩ := add_ok n v d m m' h
  have hnone : m.entries.find? (fun e => nameEq e.name n) = none := by simpa [Md.exists_, Md.find] using hex
  have hf : m'.find n = some ⟨cstr n, some v, d⟩ := by
    simp [Md.find, he, List.find?_append, hnone, C11.nameEq_cstr, C11.nameEq_refl]
  refine ⟨by simp [Md.get, hf], by simp [Md.getDflt, hf], by simp [Md.exists_, hf], by simp [Md.cnt, he]⟩

/-- other names are not affected by an add -/
theorem add_frame (n k : Bytes) (v : Obj) (d : Option Obj) (m m' : Md) (h : add n v d m = .ok m')
    (hk : nameEq n k = false) : m'.find k = m.find k := by
  obtain ⟨he, _⟩ := add_ok n v d m m' h
  simp only [Md.find, he, List.find?_append]
  have : ([⟨cstr n, some v, d⟩] : List MdEntry).find? (fun e => nameEq e.name k) = none := by
    simp [C11.nameEq_cstr, hk]
  rw [this]; simp

/-! ### remove -/

theorem eraseFirst_none (p : MdEntry → Bool) (l : List MdEntry) (h : ∀ e ∈ l, p e = false) : eraseFirst p l = l := by
  induction l with
  | nil => rfl
  | cons x xs ih => simp [eraseFirst, h x (by simp), ih (fun e he => h e (by simp [he]))]

theorem eraseFirst_sublist (p : MdEntry → Bool) (l : List MdEntry) : (eraseFirst p l).Sublist l := by
  induction l with
  | nil => exact List.Sublist.slnil
  | cons x xs ih =>
    simp only [eraseFirst]; split
    · exact List.sublist_cons_self x xs
    · exact ih.cons_cons x

theorem eraseFirst_gone (n : Bytes) (l : List MdEntry)
    (hu : l.Pairwise (fun a b => nameEq a.name b.name = false)) :
    ∀ e ∈ eraseFirst (fun e => nameEq e.name n) l, nameEq e.name n = false := by
  induction l with
  | nil => simp [eraseFirst]
  | cons x xs ih =>
    rw [List.pairwise_cons] at hu
    simp only [eraseFirst]
    by_cases hx : nameEq x.name n = true
    · simp only [hx, if_true]
      intro e he
      have := hu.1 e he
      simp only [nameEq, beq_iff_eq] at hx
      simp only [nameEq, beq_eq_false_iff_ne, ne_eq] at this ⊢
      rw [← hx]; exact fun h' => this h'.symm
    · have hx' : nameEq x.name n = false := by simpa using hx
      rw [if_neg (by simp [hx'])]
      intro e he
      simp only [List.mem_cons] at he
      rcases he with h1 | h1
      · subst h1; simpa using hx
      · exact ih hu.2 e h1

/-- after a removal the name is gone (names are unique) -/
theorem remove_gone (n : Bytes) (m m' : Md) (hi : Inv m) (h : remove n m = .ok m') : m'.exists_ n = false := by
  unfold remove at h
  split at h; · simp at h
  simp at h; subst h
  simp only [Md.exists_, Md.find, Option.isSome_eq_false_iff, Option.isNone_iff_eq_none, List.find?_eq_none]
  intro e he
  simpa using eraseFirst_gone n m.entries hi.uniq e he

/-- removal is idempotent and never fails on a modifiable collection -/
theorem remove_idem (n : Bytes) (m m' : Md) (hi : Inv m) (h : remove n m = .ok m') : remove n m' = .ok m' := by
  have hg := remove_gone n m m' hi h
  have hthis : ∀ e ∈ m'.entries, nameEq e.name n = false := by
    have : m'.find n = none := by simpa [Md.exists_] using hg
    exact (find_none_iff m' n).mp this
  unfold remove at h
  split at h; · simp at h
  rename_i hm
  simp at h
  have hmod : m'.modifiable = m.modifiable := by rw [← h]
  unfold remove
  rw [eraseFirst_none _ _ hthis]
  have hm' : m'.modifiable = true := by rw [hmod]; simpa using hm
  cases m' with | mk e mo =>
  simp only at hm'
  simp [hm']

theorem remove_inv (n : Bytes) (m m' : Md) (hi : Inv m) (h : remove n m = .ok m') : Inv m' := by
  unfold remove at h
  split at h; · simp at h
  simp at h; subst h
  have hs := eraseFirst_sublist (fun e => nameEq e.name n) m.entries
  exact ⟨hi.uniq.sublist hs, fun e he => hi.single e (hs.subset he)⟩

/-! ### copy -/

/-- copy appends all source entries, or — on any name clash — none (an error, destination as before) -/
theorem copy_all_or_none (src dst : Md) :
    (∃ dst', copy src dst = .ok dst' ∧ dst'.entries = dst.entries ++ src.entries ∧ dst'.modifiable = dst.modifiable) ∨
    (∃ e, copy src dst = .error e) := by
  unfold copy
  split; · exact .inr ⟨_, rfl⟩
  split; · exact .inr ⟨_, rfl⟩
  split; · exact .inr ⟨_, rfl⟩
  split; · exact .inr ⟨_, rfl⟩
  exact .inl ⟨_, rfl, rfl, rfl⟩

theorem copy_clash (src dst : Md) (hm : dst.modifiable = true) (s d : MdEntry) (hs : s ∈ src.entries)
    (hd : d ∈ dst.entries) (hc : nameEq s.name d.name = true) : copy src dst = .error .mdExists := by
  unfold copy
  have : src.entries.any (fun s => dst.entries.any (fun d => nameEq s.name d.name)) = true := by
    simp only [List.any_eq_true]; exact ⟨s, hs, d, hd, hc⟩
  simp [this, hm]

theorem dupNames_false (l : List MdEntry) (h : dupNames l = false) :
    l.Pairwise (fun a b => nameEq a.name b.name = false) := by
  induction l with
  | nil => exact List.Pairwise.nil
  | cons e es ih =>
    simp only [dupNames, Bool.or_eq_false_iff] at h
    refine List.Pairwise.cons ?_ (ih h.2)
    intro b hb
    have := h.1
    simp only [List.any_eq_false] at this
    simpa using this b hb

/-- (repair F24) whatever the source is — also metadata the reader linked by hand, which may repeat
    a name — a successful copy into a collection with unique names has unique names: a source
    that repeats a name clashes with itself -/
theorem copy_unique_names (src dst dst' : Md)
    (hid : dst.entries.Pairwise (fun a b => nameEq a.name b.name = false)) (h : copy src dst = .ok dst') :
    dst'.entries.Pairwise (fun a b => nameEq a.name b.name = false) := by
  unfold copy at h
  split at h; · simp at h
  split at h; · simp at h
  split at h; · simp at h
  split at h; · simp at h
  rename_i _ hclash hdup _
  simp at h; subst h
  simp only
  rw [List.pairwise_append]
  refine ⟨hid, dupNames_false _ (by simpa using hdup), ?_⟩
  intro a ha b hb
  simp only [List.any_eq_true, not_exists, not_and, Bool.not_eq_true] at hclash
  rw [C11.nameEq_symm]; exact hclash b hb a ha

theorem copy_self_clash (src dst : Md) (hm : dst.modifiable = true) (hd : dupNames src.entries = true) :
    copy src dst = .error .mdExists := by
  unfold copy
  simp only [hm, Bool.true_eq_false, if_false, hd, if_true]
  split <;> rfl

theorem copy_inv (src dst dst' : Md) (his : Inv src) (hid : Inv dst) (h : copy src dst = .ok dst') : Inv dst' := by
  unfold copy at h
  split at h; · simp at h
  split at h; · simp at h
  split at h; · simp at h
  split at h; · simp at h
  rename_i _ hclash _ _
  simp at h; subst h
  refine ⟨?_, ?_⟩
  · simp only
    rw [List.pairwise_append]
    refine ⟨hid.uniq, his.uniq, ?_⟩
    intro a ha b hb
    simp only [List.any_eq_true, not_exists, not_and, Bool.not_eq_true] at hclash
    rw [C11.nameEq_symm]; exact hclash b hb a ha
  · intro e he
    simp only [List.mem_append] at he
    rcases he with h1 | h1
    · exact hid.single e h1
    · exact his.single e h1

/-! ### freeze -/

/-- after freezing every mutator fails with the read-only status (and yields no new state) -/
theorem frozen_rejects (m : Md) (hf : m.modifiable = false) (n : Bytes) (v : Obj) (d : Option Obj) (src : Md) :
    add n v d m = .error .mdReadonly ∧ remove n m = .error .mdReadonly ∧ copy src m = .error .mdReadonly ∧
    addStr n n none m = .error .mdReadonly := by
  simp [add, remove, copy, addStr, hf]

theorem freeze_frozen (m : Md) : m.freeze.modifiable = false ∧ m.freeze.entries = m.entries := ⟨rfl, rfl⟩

/-- the freeze is one-way: no operation makes a frozen collection modifiable again -/
theorem stays_frozen (m m' : Md) (hf : m.modifiable = false) (n : Bytes) (v : Obj) (d : Option Obj) (src : Md) :
    (add n v d m = .ok m' → False) ∧ (remove n m = .ok m' → False) ∧ (copy src m = .ok m' → False) ∧
    m.freeze.modifiable = false := by
  have := frozen_rejects m hf n v d src
  refine ⟨?_, ?_, ?_, rfl⟩ <;> intro h <;> simp_all

/-- metadata held by table metadata is frozen -/
theorem tm_holds_frozen (md : Md) (t : TM) (h : tmCreate md = .ok t) : t.table.modifiable = false := by
  unfold tmCreate at h
  split at h
  · simp at h
  · simp at h; subst h; rfl

theorem tmAdd_holds_frozen (md : Md) (t t' : TM) (h : tmAdd md t = .ok t')
    (hall : ∀ c ∈ t.cols, c.modifiable = false) : ∀ c ∈ t'.cols, c.modifiable = false := by
  unfold tmAdd at h
  split at h
  · simp at h
  · simp at h; subst h
    intro c hc
    simp only [List.mem_append, List.mem_singleton] at hc
    rcases hc with h1 | h1
    · exact hall c h1
    · subst h1; rfl

/-- metadata returned by the reader is frozen -/
theorem reader_returns_frozen (c : Cfg) (d : Array UInt8) (pos : Nat) (t : TM) (pos' : Nat)
    (h : readTM c d pos = .ok (t, pos')) :
    t.table.modifiable = false ∧ ∀ col ∈ t.cols, col.modifiable = false := by
  simp only [readTM, P.bind_def, P.pure_def'] at h
  obtain ⟨_, _, _, h⟩ := P.bind_eq_ok.mp h
  obtain ⟨_, _, _, h⟩ := P.bind_eq_ok.mp h
  split at h; · simp at h
  obtain ⟨_, _, _, h⟩ := P.bind_eq_ok.mp h
  obtain ⟨_, _, _, h⟩ := P.bind_eq_ok.mp h
  split at h; · simp at h
  obtain ⟨_, _, _, h⟩ := P.bind_eq_ok.mp h
  obtain ⟨_, _, _, h⟩ := P.bind_eq_ok.mp h
  split at h; · simp at h
  obtain ⟨_, _, _, h⟩ := P.bind_eq_ok.mp h
  obtain ⟨_, _, _, h⟩ := P.bind_eq_ok.mp h
  obtain ⟨cols, _, _, h⟩ := P.bind_eq_ok.mp h
  simp only [P.pure_eq_ok, Prod.mk.injEq] at h
  rw [h.1]
  refine ⟨rfl, ?_⟩
  intro col hc
  simp only [List.mem_map] at hc
  obtain ⟨x, _, rfl⟩ := hc
  rfl

/-! ### all histories -/

inductive Op where
  | add (n : Bytes) (v : Obj) (d : Option Obj)
  | remove (n : Bytes)
  | copyFrom (src : Md)
  | freeze

/-- one operation on one collection: failed operations change nothing -/
def step (m : Md) : Op → Md
  | .add n v d => match add n v d m with | .ok m' => m' | .error _ => m
  | .remove n => match remove n m with | .ok m' => m' | .error _ => m
  | .copyFrom src => match copy src m with | .ok m' => m' | .error _ => m
  | .freeze => m.freeze

/-- Every sequence of operations keeps the invariant (unique names, singleton values whose
    default has the same type), and a collection that was frozen stays frozen and unchanged. -/
theorem history_inv (ops : List Op) (m : Md) (hi : Inv m) (hsrc : ∀ op ∈ ops, ∀ s, op = .copyFrom s → Inv s) :
    Inv (ops.foldl step m) := by
  induction ops generalizing m with
  | nil => exact hi
  | cons op rest ih =>
    simp only [List.foldl_cons]
    apply ih
    · cases op with
      | add n v d =>
        simp only [step]; cases h : add n v d m with
        | ok m' => exact add_inv n v d m m' hi h
        | error e => exact hi
      | remove n =>
        simp only [step]; cases h : remove n m with
        | ok m' => exact remove_inv n m m' hi h
        | error e => exact hi
      | copyFrom src =>
        simp only [step]; cases h : copy src m with
        | ok m' => exact copy_inv src m m' (hsrc _ (by simp) src rfl) hi h
        | error e => exact hi
      | freeze => exact ⟨hi.uniq, hi.single⟩
    · intro op' h' s hs; exact hsrc op' (by simp [h']) s hs

theorem history_frozen (ops : List Op) (m : Md) (hf : m.modifiable = false) : ops.foldl step m = m := by
  induction ops with
  | nil => rfl
  | cons op rest ih =>
    simp only [List.foldl_cons]
    have : step m op = m := by
      cases op with
      | add n v d => simp [step, add, hf]
      | remove n => simp [step, remove, hf]
      | copyFrom src => simp [step, copy, hf]
      | freeze => cases m; simp_all [step, Md.freeze]
    rw [this]; exact ih

/-- non-vacuity -/
example : ∃ m, add [97] ⟨2, [[1, 0, 0, 0]]⟩ none Md.empty = .ok m ∧ get [97] m = .ok ⟨2, [[1, 0, 0, 0]]⟩ :=
  ⟨_, rfl, rfl⟩

end Sbdf.C10
