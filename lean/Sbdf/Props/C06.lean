import Sbdf.Slice
namespace Sbdf.C06
end Sbdf.C06
