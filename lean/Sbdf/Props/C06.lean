/-
  C06 — A truncated file never reads as a complete table.
  From `Stable` (Sbdf/Lemmas/Stable.lean): a call that succeeds on a prefix of the file succeeds
  identically on the whole file.
-/
import Sbdf.Lemmas.Stable
namespace Sbdf.C06

/-- a successful primitive read never ends beyond the data -/
theorem readN_pos_le (n : Nat) (hn : 0 < n) (d : Array UInt8) (pos : Nat) (b : Bytes) (pos' : Nat)
    (h : readN n d pos = .ok (b, pos')) : pos' ≤ d.size := by
  unfold readN at h
  have : ¬ n = 0 := by omega
  simp only [this, if_false] at h
  split at h
  · simp at h; omega
  · simp at h

theorem readInt8_pos_le (d : Array UInt8) (pos v pos' : Nat) (h : readInt8 d pos = .ok (v, pos')) :
    pos' ≤ d.size := by
  simp only [readInt8, P.bind_def] at h
  obtain ⟨b, p1, h1, h2⟩ := P.bind_eq_ok.mp h
  simp only [P.pure_eq_ok, Prod.mk.injEq] at h2
  have := readN_pos_le 1 (by omega) d pos b p1 h1
  omega

/-- the section reader ends inside the data: an end-of-table marker is only ever reported from
    three bytes that are really there -/
theorem secRead_pos_le (d : Array UInt8) (pos v pos' : Nat) (h : secRead d pos = .ok (v, pos')) :
    pos' ≤ d.size := by
  simp only [secRead, P.bind_def] at h
  obtain ⟨_, _, _, h⟩ := P.bind_eq_ok.mp h
  split at h; · simp at h
  obtain ⟨_, _, _, h⟩ := P.bind_eq_ok.mp h
  split at h; · simp at h
  exact readInt8_pos_le d _ v pos' h

theorem tableEnd_pos_le (c : Cfg) (n : Nat) (sub : Option (List Bool)) (d : Array UInt8) (pos pos' : Nat)
    (h : readTS c n sub d pos = .ok (none, pos')) : pos' ≤ d.size := by
  simp only [readTS, P.bind_def] at h
  obtain ⟨v, p1, h1, h⟩ := P.bind_eq_ok.mp h
  split at h
  · simp only [P.pure_eq_ok, Prod.mk.injEq] at h
    have := secRead_pos_le d pos v p1 h1
    omega
  · split at h
    · simp at h
    · obtain ⟨_, _, _, h⟩ := P.bind_eq_ok.mp h
      split at h; · simp at h
      split at h; · simp at h
      obtain ⟨_, _, _, h⟩ := P.bind_eq_ok.mp h
      obtain ⟨_, _, _, h⟩ := P.bind_eq_ok.mp h
      simp [P.pure_eq_ok] at h

/-- The slice loop on a strict prefix of a file whose full read reaches end-of-table exactly at
    the end of the file: it never reports end-of-table, it ends in an error, and every slice
    it returned before is identical to the corresponding slice of the full file. -/
theorem slices_of_prefix (c : Cfg) (n : Nat) (sub : Option (List Bool)) (f : Bytes) (k : Nat)
    (hk : k < f.length) (fuel : Nat) :
    ∀ (pos : Nat) (S : List TS),
      readSlices c n sub f.toArray fuel pos = (S, .tableEnd f.length) →
      ∃ S' err t, readSlices c n sub (f.take k).toArray fuel pos = (S', .failed err) ∧ S = S' ++ t := by
  induction fuel with
  | zero => intro pos S h; simp [readSlices] at h
  | succ fuel ih =>
    intro pos S h
    simp only [readSlices] at h ⊢
    cases hp : readTS c n sub (f.take k).toArray pos with
    | error e => exact ⟨[], e, S, by simp, by simp⟩
    | ok r =>
      obtain ⟨o, p1⟩ := r
      have hfull := (stable_readTS c n sub).out f k pos o p1 hp
      rw [hfull] at h
      cases o with
      | none =>
        -- a successful read of the end marker on the prefix would end at the file's end
        simp only [Prod.mk.injEq, LoopEnd.tableEnd.injEq] at h
        have := tableEnd_pos_le c n sub _ pos p1 hp
        simp at this
        omega
      | some ts =>
        simp only at h ⊢
        simp only [Prod.mk.injEq] at h
        have hS : S = ts :: (readSlices c n sub f.toArray fuel p1).1 := h.1.symm
        have hE : (readSlices c n sub f.toArray fuel p1).2 = .tableEnd f.length := h.2
        obtain ⟨S', err, t, h1, h2⟩ := ih p1 (readSlices c n sub f.toArray fuel p1).1 (by rw [← hE])
        exact ⟨ts :: S', err, t, by rw [h1], by rw [hS, h2]; rfl⟩

/-- how a whole-file read ended -/
def endsInError (r : FileResult) : Prop :=
  (∃ e, r.fh = .error e) ∨ (∃ e, r.tm = some (.error e)) ∨ (∃ e, r.last = some (.failed e))

/-- C06: for every file whose full read delivers table metadata `tm`, slices `S` and then
    end-of-table exactly at the end of the file, and for every strict prefix of it (any column
    subset, any call bound): reading the prefix ends in an error, never reports end-of-table,
    and whatever it returned before the error — the table metadata and a leading part of the
    slices — is identical to what the full file gives. -/
theorem truncated_never_complete (c : Cfg) (sub : Option (List Bool)) (fuel : Nat) (f : Bytes) (k : Nat)
    (hk : k < f.length) (v : Nat × Nat) (tm : TM) (S : List TS)
    (hfull : readFileF c sub fuel f.toArray = ⟨.ok v, some (.ok tm), S, some (.tableEnd f.length)⟩) :
    let r := readFileF c sub fuel (f.take k).toArray
    endsInError r ∧ (∀ e, r.last ≠ some (.tableEnd e)) ∧ (∃ t, S = r.slices ++ t) ∧
    (∀ tm', r.tm = some (.ok tm') → tm' = tm) := by
  simp only [readFileF] at hfull ⊢
  cases hfh : fhRead (f.take k).toArray 0 with
  | error e => exact ⟨.inl ⟨e, rfl⟩, by simp, ⟨S, by simp⟩, by simp⟩
  | ok r1 =>
    obtain ⟨v1, p1⟩ := r1
    have h1 := stable_fhRead.out f k 0 v1 p1 hfh
    rw [h1] at hfull
    simp only at hfull ⊢
    cases htm : readTM c (f.take k).toArray p1 with
    | error e => exact ⟨.inr (.inl ⟨e, rfl⟩), by simp, ⟨S, by simp⟩, by simp⟩
    | ok r2 =>
      obtain ⟨tm1, p2⟩ := r2
      have h2 := (stable_readTM c).out f k p1 tm1 p2 htm
      rw [h2] at hfull
      simp only at hfull ⊢
      have htmeq : tm1 = tm := by
        have := congrArg FileResult.tm hfull; simpa using this
      have hS : (readSlices c tm1.cols.length sub f.toArray fuel p2).1 = S := by
        have := congrArg FileResult.slices hfull; simpa using this
      have hE : (readSlices c tm1.cols.length sub f.toArray fuel p2).2 = .tableEnd f.length := by
        have := congrArg FileResult.last hfull; simpa using this
      obtain ⟨S', err, t, hp, hcat⟩ := slices_of_prefix c tm1.cols.length sub f k hk fuel p2 S (by rw [← hS, ← hE])
      rw [hp]
      exact ⟨.inr (.inr ⟨err, rfl⟩), by simp, ⟨t, hcat⟩, by intro tm' h; simp at h; rw [← h, htmeq]⟩

/-- non-vacuity: the smallest complete file (header, empty table metadata, end marker) meets the
    hypothesis -/
example : readFileF {} none 4
    ([0xdf, 0x5b, 1, 1, 0, 0xdf, 0x5b, 2, 0, 0, 0, 0, 0, 0, 0, 0, 0, 0, 0, 0, 0xdf, 0x5b, 5] : Bytes).toArray =
    ⟨.ok (1, 0), some (.ok ⟨⟨[], false⟩, []⟩), [], some (.tableEnd 23)⟩ := by
  rfl

end Sbdf.C06
