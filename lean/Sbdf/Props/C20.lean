/-
  C20 — The library is passive: no process exit, no std-stream or environment access.
  Decided for the whole library at once from its external symbol surface, which the translator
  re-extracts from the working tree on every run (Sbdf/Gen/Surface.lean, Globals.lean).
-/
import Sbdf.Gen.Surface
import Sbdf.Gen.Globals
namespace Sbdf.C20

/-- External functions whose only effects are on memory reachable from their arguments, the
    heap, or the stream handle passed to them (the closed family of pure memory/string helpers
    and argument-stream I/O; none terminates the process, touches a standard stream, opens a
    file, or consults environment, clock, locale or a random source). -/
def allowed : List String :=
  ["malloc", "calloc", "realloc", "free",
   "memcpy", "memmove", "memset", "memcmp", "memchr", "strlen", "strcmp", "strncmp", "strcpy",
   "strncpy", "strchr", "strrchr", "qsort", "bsearch", "abs", "labs",
   "strnlen", "strcat", "strncat", "strstr", "strspn", "strcspn", "strpbrk", "llabs",
   "fread", "fwrite", "fseek", "ftell", "fgetc", "fputc", "getc", "putc", "ferror", "feof",
   "fflush", "fseeko", "ftello", "ungetc", "clearerr", "_IO_getc", "_IO_putc", "__uflow", "__overflow"]

/-- every external symbol any object of the library refers to is in the passive family -/
theorem passive : ∀ s ∈ Gen.undefinedSyms, s.2 ∈ allowed := by decide

/-- no inline assembly (hence no direct system call) in the library's sources and headers -/
theorem no_asm : Gen.asmUses = [] := by decide

/-- no instruction that stops or signals the process by itself (`ud2` = `__builtin_trap`, `int3`,
    `hlt`, raw `syscall`/`int`) in any compiled object of the library (gcc -O2, objdump): the only
    ways out of a library function are `ret` and the calls of the symbol surface above -/
theorem no_trap_instructions : Gen.trapInsns = [] := by decide

/-- calls through function pointers cannot leave the surface: the public headers declare no
    function-pointer parameter or field (the caller cannot hand in code), and every function whose
    address is taken anywhere in the library — the only possible targets of an indirect call, made
    by the library or by `qsort` — is a function the library defines itself or one of the passive
    family.  (Today there is no indirect call site at all; the statement does not depend on that,
    so a dispatch table of the library's own functions is not an alarm.) -/
theorem indirect_calls_stay_inside :
    Gen.apiFunctionPointers = [] ∧ ∀ a ∈ Gen.addrTaken, a.2.2.2 = true ∨ a.2.2.1 ∈ allowed := by decide

/-! An abstract statement of what the surface check buys: a program whose external calls all
    have an effect class inside a set `E` only has effects in `E`. -/

inductive Effect | heap | argMemory | argStream | process | stdStream | fileSystem | environment
  deriving DecidableEq, Repr

/-- effect classes of the allowed family -/
def effectOf (sym : String) : List Effect :=
  if sym ∈ ["malloc", "calloc", "realloc", "free"] then [.heap]
  else if sym ∈ ["fread", "fwrite", "fseek", "ftell", "fgetc", "fputc", "getc", "putc", "ferror",
                 "feof", "fflush", "fseeko", "ftello"] then [.argStream, .argMemory]
  else if sym ∈ allowed then [.argMemory]
  else [.process, .stdStream, .fileSystem, .environment]   -- unknown: assume the worst

def passiveEffects : List Effect := [.heap, .argMemory, .argStream]

/-- every call trace made of external calls from the surface has passive effects only -/
theorem trace_effects (trace : List String) (h : ∀ s ∈ trace, s ∈ Gen.undefinedSyms.map (·.2)) :
    ∀ s ∈ trace, ∀ e ∈ effectOf s, e ∈ passiveEffects := by
  have key : ∀ s ∈ Gen.undefinedSyms.map (·.2), ∀ e ∈ effectOf s, e ∈ passiveEffects := by decide
  intro s hs
  exact key s (h s hs)

/-- non-vacuity: the surface is not empty and contains the stream functions -/
example : "fread" ∈ Gen.undefinedSyms.map (·.2) ∧ "malloc" ∈ Gen.undefinedSyms.map (·.2) := by decide

end Sbdf.C20
