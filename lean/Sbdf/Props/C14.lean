import Sbdf.Slice
namespace Sbdf.C14
end Sbdf.C14
