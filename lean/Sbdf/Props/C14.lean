/-
  C14 — Allocation failure is reported, not crashed on.

  In the model an operation that hits an allocation failure returns a non-OK status and the state
  it was given (frame).  Proved: under every interleaving of faults every invariant of the API
  state survives (C10/C11), a fault creates no root and releases none, so the protocol of C12
  still frees everything exactly once; and where the input decides the allocation size, a size
  the allocator refuses gives OUT_OF_MEMORY (a status, no ghost check fails — C05).
  Which `malloc` inside a call fails, and whether the C error path frees exactly what it
  allocated, is NOT in the model: that is the fault enumeration of the tie (every allocation
  index of every generated scenario, ASan + live-block accounting + state comparison).
-/
import Sbdf.Props.C10
import Sbdf.Props.C11
import Sbdf.Props.C12
import Sbdf.Lemmas.NoUB
namespace Sbdf.C14

/-- an operation executed with or without an allocation fault: with a fault it fails and the
    collection is what it was -/
def stepF (m : Md) (op : C10.Op × Bool) : Md := if op.2 then m else C10.step m op.1

/-- the status a faulted call returns is not OK -/
theorem fault_status_not_ok : Status.oom ≠ Status.ok ∧ Status.argNull ≠ Status.ok := ⟨by decide, by decide⟩

/-- frame: the faulted call leaves the collection unchanged -/
theorem frame_on_fault (m : Md) (op : C10.Op) : stepF m (op, true) = m := rfl

/-- every history with arbitrarily interleaved faults keeps the metadata invariant -/
theorem inv_under_faults (ops : List (C10.Op × Bool)) (m : Md) (hi : C10.Inv m)
    (hsrc : ∀ op ∈ ops, ∀ s, op.1 = .copyFrom s → C10.Inv s) : C10.Inv (ops.foldl stepF m) := by
  induction ops generalizing m with
  | nil => exact hi
  | cons op rest ih =>
    simp only [List.foldl_cons]
    apply ih
    · unfold stepF
      split
      · exact hi
      · have := C10.history_inv [op.1] m hi (by
          intro o ho s hs; simp only [List.mem_singleton] at ho; subst ho; exact hsrc op (by simp) s hs)
        simpa using this
    · intro o ho s hs; exact hsrc o (by simp [ho]) s hs

/-- the same for column slices: a failed addition leaves the slice as it was, and histories with
    faults keep the slice invariant -/
def addF (cs : CS) (op : (Bytes × VA) × Bool) : CS :=
  if op.2 then cs else match csAddProperty cs op.1.1 op.1.2 with | .ok cs' => cs' | .error _ => cs

theorem cs_inv_under_faults (v : VA) (ops : List ((Bytes × VA) × Bool)) : C11.Inv (ops.foldl addF (csCreate v)) := by
  suffices h : ∀ cs, C11.Inv cs → C11.Inv (ops.foldl addF cs) from h _ (C11.inv_create v)
  induction ops with
  | nil => intro cs h; exact h
  | cons op rest ih =>
    intro cs h
    simp only [List.foldl_cons]
    apply ih
    unfold addF
    split
    · exact h
    · cases hr : csAddProperty cs op.1.1 op.1.2 with
      | ok cs' => exact C11.inv_add cs cs' _ _ h hr
      | error e => exact h

/-- a fault creates no root and releases none: whatever was built before stays releasable, each
    root exactly once, in any order (C12) -/
theorem still_releasable (h : C12.Heap) (roots order : List C12.Root) (ho : C12.Owned h roots)
    (hp : roots.Perm order) : C12.releaseAll h order = some [] :=
  C12.release_all_any_order h roots order hp ho

/-- an input-derived allocation the allocator refuses is reported as OUT_OF_MEMORY -/
theorem refused_allocation (c : Cfg) (n : Int) (h : n < 0 ∨ n > c.cap) (d : Array UInt8) (pos : Nat) :
    alloc c n d pos = .error (.st .oom) := by
  unfold alloc; simp [h, P.fail]

/-- non-vacuity: a faulted add in the middle of a history -/
example : (([(C10.Op.add [97] ⟨2, [[1, 0, 0, 0]]⟩ none, false), (C10.Op.add [98] ⟨2, [[1, 0, 0, 0]]⟩ none, true),
    (C10.Op.add [99] ⟨2, [[1, 0, 0, 0]]⟩ none, false)] : List (C10.Op × Bool)).foldl stepF Md.empty).cnt = 2 := by
  rfl

end Sbdf.C14
