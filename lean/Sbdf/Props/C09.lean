import Sbdf.Slice
namespace Sbdf.C09
end Sbdf.C09
