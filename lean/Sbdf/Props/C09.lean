/-
  C09 — Structural corruption is reported with the matching status code.
  One decision theorem per validation site ("decision logic stated outright"), in the form
  `FailsWith p bs s`: in any context, reader `p` positioned at bytes `bs` fails with status `s`;
  failures propagate unchanged through every composite reader (`P.bind` returns the first error).
  Plus, from the regenerated tables: every status the library can return has its own text.
-/
import Sbdf.Lemmas.ReadsTM
import Sbdf.Props.C05
import Sbdf.Props.C04
import Sbdf.Gen.Tables
namespace Sbdf.C09
open Spec

/-- in any context, `p` positioned at `bs` fails with status `s` -/
def FailsWith (p : P α) (bs : Bytes) (s : Status) : Prop :=
  ∀ pre rest : Bytes, p (pre ++ bs ++ rest).toArray pre.length = .error (.st s)

theorem FailsWith.fail (s : Status) : FailsWith (P.fail s : P α) [] s := by intro pre rest; rfl

/-- first-error propagation: what was read successfully before does not matter -/
theorem FailsWith.after {p : P α} {f : α → P β} {bs cs : Bytes} {a : α} {s : Status}
    (hp : Reads p bs a) (hf : FailsWith (f a) cs s) : FailsWith (P.bind p f) (bs ++ cs) s := by
  intro pre rest
  have h1 := hp pre (cs ++ rest)
  have h2 := hf (pre ++ bs) rest
  simp only [List.append_assoc, List.length_append] at h1 h2 ⊢
  simp only [P.bind, h1, h2]

theorem FailsWith.after_nil {p : P α} {f : α → P β} {bs : Bytes} {a : α} {s : Status}
    (hp : Reads p bs a) (hf : FailsWith (f a) [] s) : FailsWith (P.bind p f) bs s := by
  have := FailsWith.after hp hf; simpa using this

/-- a step that consumes nothing (a passed guard, a granted allocation) does not matter either -/
theorem FailsWith.after_pre {p : P α} {f : α → P β} {cs : Bytes} {a : α} {s : Status}
    (hp : Reads p [] a) (hf : FailsWith (f a) cs s) : FailsWith (P.bind p f) cs s := by
  have := FailsWith.after hp hf; simpa using this

/-- ... and an error inside the first part is the error of the whole -/
theorem FailsWith.first {p : P α} {f : α → P β} {bs : Bytes} {s : Status}
    (hp : FailsWith p bs s) : FailsWith (P.bind p f) bs s := by
  intro pre rest; simp only [P.bind, hp pre rest]

/-! ### markers and section ids -/

theorem bad_magic0 (b0 : UInt8) (h : b0 ≠ 0xdf) : FailsWith secRead [b0] .magicMissing := by
  unfold secRead; simp only [P.bind_def]
  have hn : b0.toNat ≠ 0xdf := by
    intro e; apply h; exact UInt8.toNat_inj.mp (by simpa using e)
  refine FailsWith.after_nil (reads_int8_lit b0) ?_
  simp only [hn, ne_eq, not_false_eq_true, if_true]; exact FailsWith.fail _

theorem bad_magic1 (b1 : UInt8) (h : b1 ≠ 0x5b) : FailsWith secRead [0xdf, b1] .magicMissing := by
  unfold secRead; simp only [P.bind_def]
  have hn : b1.toNat ≠ 0x5b := by
    intro e; apply h; exact UInt8.toNat_inj.mp (by simpa using e)
  refine FailsWith.after (bs := [0xdf]) (cs := [b1]) (reads_int8_lit 0xdf) ?_
  simp only [show (0xdf : UInt8).toNat = 0xdf from rfl, ne_eq, not_true_eq_false, if_false]
  refine FailsWith.after_nil (reads_int8_lit b1) ?_
  simp only [hn, ne_eq, not_false_eq_true, if_true]; exact FailsWith.fail _

/-- a wrong section kind where a specific section is expected -/
theorem wrong_section (want got : Nat) (hg : got < 256) (h : got ≠ want) :
    FailsWith (secExpect want) (sec got) .unexpectedSection := by
  unfold secExpect; simp only [P.bind_def]
  refine FailsWith.after_nil (reads_secRead got hg) ?_
  simp only [h, ne_eq, not_false_eq_true, if_true]; exact FailsWith.fail _

/-- in slice position: the end marker gives end-of-table, any id other than 3/5 unexpected-section -/
theorem slice_position (c : Cfg) (n : Nat) (sub : Option (List Bool)) (id : Nat) (hid : id < 256) :
    (id = 5 → Reads (readTS c n sub) (sec 5) none) ∧
    (id ≠ 5 → id ≠ 3 → FailsWith (readTS c n sub) (sec id) .unexpectedSection) := by
  refine ⟨fun _ => reads_tsEnd c n sub, ?_⟩
  intro h5 h3
  unfold readTS; simp only [P.bind_def]
  refine FailsWith.after_nil (reads_secRead id hid) ?_
  simp only [h5, if_false, h3, ne_eq, not_false_eq_true, if_true]; exact FailsWith.fail _

/-- slice column count: negative → invalid-size; different from the metadata → column-count-mismatch -/
theorem slice_column_count (c : Cfg) (n : Nat) (sub : Option (List Bool)) (cc : Int) (h32 : isInt32 cc) :
    (cc < 0 → FailsWith (readTS c n sub) (sec 3 ++ le c cc) .invalidSize) ∧
    (0 ≤ cc → cc ≠ n → FailsWith (readTS c n sub) (sec 3 ++ le c cc) .colCountMismatch) := by
  constructor
  · intro hneg
    unfold readTS; simp only [P.bind_def]
    refine FailsWith.after (reads_secRead 3 (by omega)) ?_
    simp only [show ¬ (3 = 5) by omega, if_false, ne_eq, not_true_eq_false]
    refine FailsWith.after_nil (reads_int32 c cc h32) ?_
    simp only [hneg, if_true]; exact FailsWith.fail _
  · intro h0 hne
    unfold readTS; simp only [P.bind_def]
    refine FailsWith.after (reads_secRead 3 (by omega)) ?_
    simp only [show ¬ (3 = 5) by omega, if_false, ne_eq, not_true_eq_false]
    have hnn : ¬ cc < 0 := by omega
    refine FailsWith.after_nil (reads_int32 c cc h32) ?_
    simp only [hnn, if_false, hne, not_false_eq_true, if_true]; exact FailsWith.fail _

/-! ### negative counts and lengths -/

/-- a negative element count (after the int32 was read) -/
theorem negative_element_count (c : Cfg) (tid : Nat) (count : Int) (packed : Bool) (h : count < 0) :
    FailsWith (readObjects c tid count packed) [] .invalidSize ∧ FailsWith (skipObjects c tid count packed) [] .invalidSize := by
  constructor
  · unfold readObjects; simp only [P.bind_def, h, if_true]; exact FailsWith.fail _
  · unfold skipObjects; simp only [P.bind_def, h, if_true]; exact FailsWith.fail _

theorem negative_array_count (c : Cfg) (tid : Nat) (count : Int) (h32 : isInt32 count) (h : count < 0) :
    FailsWith (readObjArr c tid) (le c count) .invalidSize := by
  unfold readObjArr; simp only [P.bind_def]
  exact FailsWith.after_nil (reads_int32 c count h32) (negative_element_count c tid count true h).1

/-- more elements of a fixed-size type than an `int` can size (`count > INT_MAX / size`, repair F4):
    invalid-size from the reader and from the skipper, before anything is allocated or moved -/
theorem too_many_elements (c : Cfg) (tid : Nat) (count : Int) (packed : Bool) (sz : Nat)
    (harr : isArr tid = false) (hsz : fixedSize tid = .ok sz) (h0 : 0 ≤ count) (h : count > INT_MAX / (sz : Int)) :
    FailsWith (readObjects c tid count packed) [] .invalidSize ∧
    FailsWith (skipObjects c tid count packed) [] .invalidSize := by
  have hc : ¬ count < 0 := by omega
  constructor
  · unfold readObjects
    simp only [P.bind_def, hc, if_false, harr, Bool.false_eq_true, hsz, h, if_true]
    exact FailsWith.fail _
  · unfold skipObjects
    simp only [P.bind_def, hc, if_false, harr, Bool.false_eq_true, hsz, h, if_true]
    exact FailsWith.fail _

/-- non-vacuity: 2^28 eight-byte values are one too many -/
example : isArr 3 = false ∧ fixedSize 3 = .ok 8 ∧ (268435456 : Int) > INT_MAX / ((8 : Nat) : Int) :=
  ⟨by decide, rfl, by decide⟩

/-- a negative string length (names of metadata entries and properties) -/
theorem negative_string_length (c : Cfg) (l : Int) (h32 : isInt32 l) (h : l < 0) :
    FailsWith (readString c) (le c l) .invalidSize ∧ FailsWith (skipString c) (le c l) .invalidSize := by
  constructor
  · unfold readString; simp only [P.bind_def]
    refine FailsWith.after_nil (reads_int32 c l h32) ?_
    simp only [h, if_true]; exact FailsWith.fail _
  · unfold skipString; simp only [P.bind_def]
    refine FailsWith.after_nil (reads_int32 c l h32) ?_
    simp only [h, if_true]; exact FailsWith.fail _

/-- a negative string/binary element length, in the int32 form and in the 7-bit form -/
theorem negative_element_length (c : Cfg) (isStr : Bool) (l : Int) (h32 : isInt32 l) (h : l < 0) :
    FailsWith (readElem c isStr false) (le c l) .invalidSize ∧ FailsWith (readElem c isStr true) (bytes7 l) .invalidSize := by
  constructor
  · unfold readElem; simp only [P.bind_def, Bool.false_eq_true, if_false]
    refine FailsWith.after_nil (reads_int32 c l h32) ?_
    simp only [h, if_true]; exact FailsWith.fail _
  · unfold readElem; simp only [P.bind_def, if_true]
    refine FailsWith.after_nil (reads_7bit l h32) ?_
    simp only [h, if_true]; exact FailsWith.fail _

/-- a negative table-metadata entry count -/
theorem negative_entry_count (c : Cfg) (count : Int) (h32 : isInt32 count) (h : count < 0) :
    FailsWith (readTM c) (sec 2 ++ le c count) .invalidSize := by
  unfold readTM; simp only [P.bind_def]
  refine FailsWith.after (reads_secExpect 2 (by omega)) ?_
  refine FailsWith.after_nil (reads_int32 c count h32) ?_
  simp only [h, if_true]; exact FailsWith.fail _

/-- a negative property count in a column slice (repair F21: the reader agrees with the skipper) -/
theorem negative_property_count (c : Cfg) (va : VA) (hv : va.Fits c) (cnt : Int) (h32 : isInt32 cnt) (h : cnt < 0) :
    FailsWith (readCS c) (sec 4 ++ Spec.va c va ++ le c cnt) .invalidSize ∧
    FailsWith (skipCS c) (sec 4 ++ Spec.va c va ++ le c cnt) .invalidSize := by
  constructor
  · unfold readCS; simp only [P.bind_def]
    rw [List.append_assoc]
    refine FailsWith.after (reads_secExpect 4 (by omega)) ?_
    refine FailsWith.after (reads_va c va hv) ?_
    refine FailsWith.after_nil (reads_int32 c cnt h32) ?_
    simp only [h, if_true]; exact FailsWith.fail _
  · unfold skipCS; simp only [P.bind_def]
    rw [List.append_assoc]
    refine FailsWith.after (reads_secExpect 4 (by omega)) ?_
    refine FailsWith.after (reads_skipVA c va hv) ?_
    refine FailsWith.after_nil (reads_int32 c cnt h32) ?_
    simp only [h, if_true]; exact FailsWith.fail _

/-- a negative column count in the table metadata (repair F22; no table-level entries before it) -/
theorem negative_tm_column_count (c : Cfg) (cnt : Int) (h32 : isInt32 cnt) (h : cnt < 0) :
    FailsWith (readTM c) (sec 2 ++ le c 0 ++ le c cnt) .invalidSize := by
  unfold readTM; simp only [P.bind_def]
  rw [List.append_assoc]
  refine FailsWith.after (reads_secExpect 2 (by omega)) ?_
  refine FailsWith.after (reads_int32 c 0 (by decide)) ?_
  simp only [show ¬ ((0 : Int) < 0) by omega, if_false, Int.toNat_zero, readMany]
  have hrest : ∀ (es : List MdEntry), FailsWith (P.bind (readInt32 c) fun colCnt =>
      if colCnt < 0 then P.fail Status.invalidSize
      else P.bind (alloc c (colCnt * 8)) fun _ => P.bind (remapErr Status.oom (readInt32 c)) fun mdCnt =>
        if mdCnt < 0 then P.fail Status.invalidSize
        else P.bind (alloc c (mdCnt * 8)) fun _ => P.bind (readMany mdCnt.toNat (readNameRow c)) fun rows =>
          P.bind (readMany colCnt.toNat (readColumn c rows Md.empty)) fun cols =>
            P.pure (⟨⟨es, false⟩, cols.map Md.freeze⟩ : TM)) (le c cnt) .invalidSize := by
    intro es
    refine FailsWith.after_nil (reads_int32 c cnt h32) ?_
    simp only [h, if_true]; exact FailsWith.fail _
  have := FailsWith.after (bs := []) (Reads.pure ([] : List MdEntry)) (f := fun es => P.bind (readInt32 c) fun colCnt =>
      if colCnt < 0 then P.fail Status.invalidSize
      else P.bind (alloc c (colCnt * 8)) fun _ => P.bind (remapErr Status.oom (readInt32 c)) fun mdCnt =>
        if mdCnt < 0 then P.fail Status.invalidSize
        else P.bind (alloc c (mdCnt * 8)) fun _ => P.bind (readMany mdCnt.toNat (readNameRow c)) fun rows =>
          P.bind (readMany colCnt.toNat (readColumn c rows Md.empty)) fun cols =>
            P.pure (⟨⟨es, false⟩, cols.map Md.freeze⟩ : TM)) (hrest [])
  simpa using this

/-! ### flags, type ids, encoding ids -/

/-- a presence flag other than 0/1 on a table-level entry -/
theorem bad_table_flag (c : Cfg) (vt : Nat) (flag : UInt8) (h0 : flag ≠ 0) (h1 : flag ≠ 1) :
    FailsWith (readOptObj c vt true) [flag] .arrayLen1 := by
  unfold readOptObj; simp only [P.bind_def]
  have hn0 : flag.toNat ≠ 0 := fun e => h0 (UInt8.toNat_inj.mp (by simpa using e))
  have hn1 : flag.toNat ≠ 1 := fun e => h1 (UInt8.toNat_inj.mp (by simpa using e))
  refine FailsWith.after_nil (reads_int8_lit flag) ?_
  simp only [hn0, ne_eq, not_false_eq_true, if_true, hn1, and_self]; exact FailsWith.fail _

/-- an unknown value-type id on a value that is present -/
theorem unknown_type_id (c : Cfg) (tid : Nat) (count : Int) (packed : Bool) (h0 : 0 ≤ count)
    (harr : isArr tid = false) (hunk : ∀ n, fixedSize tid ≠ .ok n) :
    FailsWith (readObjects c tid count packed) [] .unknownTypeid := by
  unfold readObjects
  have hc : ¬ count < 0 := by omega
  simp only [P.bind_def, hc, if_false, harr, Bool.false_eq_true]
  cases hf : fixedSize tid with
  | ok n => exact absurd hf (hunk n)
  | error e =>
    have : e = .unknownTypeid := by
      unfold fixedSize at hf
      cases hu : unpackedSize tid with
      | none => simp [hu] at hf; exact hf.symm
      | some k => cases k with
        | zero => simp [hu] at hf; exact hf.symm
        | succ k => simp [hu] at hf
    subst this
    exact FailsWith.fail _

/-- an unknown encoding id -/
theorem unknown_encoding_id (c : Cfg) (e vt : UInt8) (h1 : e ≠ 1) (h2 : e ≠ 2) (h3 : e ≠ 3) :
    FailsWith (readVA c) [e, vt] .unknownEncoding ∧ FailsWith (skipVA c) [e, vt] .unknownEncoding := by
  have hn1 : e.toNat ≠ 1 := fun x => h1 (UInt8.toNat_inj.mp (by simpa using x))
  have hn2 : e.toNat ≠ 2 := fun x => h2 (UInt8.toNat_inj.mp (by simpa using x))
  have hn3 : e.toNat ≠ 3 := fun x => h3 (UInt8.toNat_inj.mp (by simpa using x))
  constructor
  · unfold readVA; simp only [P.bind_def]
    refine FailsWith.after (bs := [e]) (cs := [vt]) (reads_int8_lit e) ?_
    refine FailsWith.after (bs := [vt]) (cs := []) (reads_int8_lit vt) ?_
    simp only [hn1, hn2, hn3, if_false]; exact FailsWith.fail _
  · unfold skipVA; simp only [P.bind_def]
    refine FailsWith.after (bs := [e]) (cs := [vt]) (reads_int8_lit e) ?_
    refine FailsWith.after (bs := [vt]) (cs := []) (reads_int8_lit vt) ?_
    simp only [hn1, hn2, hn3, if_false]; exact FailsWith.fail _

/-- a run-length array whose row count differs from its runs: the first decode fails -/
theorem rle_row_count_mismatch (c : Cfg) (rows : Int) (runs : Bytes) (vals : Obj) (sz : Nat)
    (hsz : elemSizeOrPtr vals.tid = .ok sz) (hlen : runs.length = vals.count) (h : (rleTotal runs : Int) ≠ rows) :
    getValues c (.rle rows runs vals) = .error (.st .invalidSize) := by
  simp [getValues, hsz, hlen, h]

/-! ### corruption in the context of a whole file -/

/-- The caller loop over well-formed slices followed by bytes on which `sbdf_ts_read` fails with
    status `s`: every slice before the corruption is returned exactly as from the uncorrupted file,
    and the call that meets the corruption fails with `s` (first-error propagation, whatever
    follows). -/
theorem slices_then_failure (c : Cfg) (sub : Option (List Bool)) (n : Nat) (slices : List (List CS))
    (hn : ∀ x ∈ slices, x.length = n) (hf : ∀ x ∈ slices, TSFits c x) (bad : Bytes) (s : Status)
    (hbad : FailsWith (readTS c n sub) bad s) (pre rest : Bytes) (fuel : Nat) (hfuel : slices.length < fuel) :
    readSlices c n sub (pre ++ (slices.flatMap (Spec.ts c) ++ bad) ++ rest).toArray fuel pre.length =
      (slices.map (fun x => ⟨maskFrom sub 0 x⟩), .failed (.st s)) := by
  induction slices generalizing pre fuel with
  | nil =>
    cases fuel with
    | zero => simp at hfuel
    | succ fuel =>
      simp only [List.flatMap_nil, List.nil_append, readSlices, List.map_nil]
      rw [hbad pre rest]
  | cons x xs ih =>
    cases fuel with
    | zero => simp at hfuel
    | succ fuel =>
      simp only [readSlices, List.flatMap_cons, List.map_cons]
      have hs := reads_ts c sub x (hf x (by simp))
      rw [hn x (by simp)] at hs
      have e1 : pre ++ (Spec.ts c x ++ xs.flatMap (Spec.ts c) ++ bad) ++ rest =
          pre ++ Spec.ts c x ++ (xs.flatMap (Spec.ts c) ++ bad ++ rest) := by simp
      rw [e1, hs pre _]
      simp only
      have e2 : pre ++ Spec.ts c x ++ (xs.flatMap (Spec.ts c) ++ bad ++ rest) =
          (pre ++ Spec.ts c x) ++ (xs.flatMap (Spec.ts c) ++ bad) ++ rest := by simp
      have := ih (fun y hy => hn y (by simp [hy])) (fun y hy => hf y (by simp [hy])) (pre ++ Spec.ts c x) fuel
        (by simp at hfuel; omega)
      rw [e2]
      simp only [List.length_append] at this ⊢
      rw [this]

/-- instances: after any number of good slices, a wrong section id / a negative or mismatching
    column count in the next slice header is reported by that call with the matching status -/
theorem corrupt_slice_header (c : Cfg) (sub : Option (List Bool)) (n : Nat) (slices : List (List CS))
    (hn : ∀ x ∈ slices, x.length = n) (hf : ∀ x ∈ slices, TSFits c x) (pre rest : Bytes) (fuel : Nat)
    (hfuel : slices.length < fuel) :
    (∀ id, id < 256 → id ≠ 5 → id ≠ 3 →
      (readSlices c n sub (pre ++ (slices.flatMap (Spec.ts c) ++ sec id) ++ rest).toArray fuel pre.length).2 =
        .failed (.st .unexpectedSection)) ∧
    (∀ cc, isInt32 cc → cc < 0 →
      (readSlices c n sub (pre ++ (slices.flatMap (Spec.ts c) ++ (sec 3 ++ le c cc)) ++ rest).toArray fuel pre.length).2 =
        .failed (.st .invalidSize)) ∧
    (∀ cc, isInt32 cc → 0 ≤ cc → cc ≠ n →
      (readSlices c n sub (pre ++ (slices.flatMap (Spec.ts c) ++ (sec 3 ++ le c cc)) ++ rest).toArray fuel pre.length).2 =
        .failed (.st .colCountMismatch)) := by
  refine ⟨?_, ?_, ?_⟩
  · intro id h1 h2 h3
    rw [slices_then_failure c sub n slices hn hf _ _ ((slice_position c n sub id h1).2 h2 h3) pre rest fuel hfuel]
  · intro cc h1 h2
    rw [slices_then_failure c sub n slices hn hf _ _ ((slice_column_count c n sub cc h1).1 h2) pre rest fuel hfuel]
  · intro cc h1 h2 h3
    rw [slices_then_failure c sub n slices hn hf _ _ ((slice_column_count c n sub cc h1).2 h2 h3) pre rest fuel hfuel]

/-- corruption inside a column slice is reported by `sbdf_cs_read` with the status of the value
    array reader -/
theorem cs_fails_with_va (c : Cfg) (bad : Bytes) (s : Status) (h : FailsWith (readVA c) bad s) :
    FailsWith (readCS c) (sec 4 ++ bad) s := by
  unfold readCS; simp only [P.bind_def]
  exact FailsWith.after (reads_secExpect 4 (by omega)) (FailsWith.first h)

/-- ... and by `sbdf_ts_read` (full read), after any number of intact columns of the slice -/
theorem cols_then_failure (c : Cfg) (good : List CS) (hg : ∀ x ∈ good, x.Fits c) (k : Nat) (bad : Bytes) (s : Status)
    (h : FailsWith (readCS c) bad s) (i : Nat) :
    FailsWith (readCols c (good.length + (k + 1)) none i) (good.flatMap (Spec.cs c) ++ bad) s := by
  induction good generalizing i with
  | nil =>
    simp only [List.length_nil, Nat.zero_add, List.flatMap_nil, List.nil_append, readCols, P.bind_def, wantCol, if_true]
    exact FailsWith.first (FailsWith.first h)
  | cons x xs ih =>
    have e : (x :: xs).length + (k + 1) = (xs.length + (k + 1)) + 1 := by simp; omega
    rw [e]
    simp only [readCols, P.bind_def, wantCol, if_true, List.flatMap_cons, List.append_assoc]
    have hx := Reads.bind (reads_cs c x (hg x (by simp))) (f := fun cs => P.pure (some cs)) (Reads.pure _)
    simp only [List.append_nil] at hx
    refine FailsWith.after hx ?_
    exact FailsWith.first (ih (fun y hy => hg y (by simp [hy])) (i + 1))

theorem ts_fails_with_cs (c : Cfg) (good : List CS) (hg : ∀ x ∈ good, x.Fits c) (k : Nat) (bad : Bytes) (s : Status)
    (h : FailsWith (readCS c) bad s)
    (hcap : ((good.length + (k + 1) : Nat) : Int) * 8 ≤ c.cap) (hmax : ((good.length + (k + 1) : Nat) : Int) ≤ INT_MAX) :
    FailsWith (readTS c (good.length + (k + 1)) none)
      (sec 3 ++ le c ((good.length + (k + 1) : Nat) : Int) ++ (good.flatMap (Spec.cs c) ++ bad)) s := by
  unfold readTS; simp only [P.bind_def]
  rw [List.append_assoc]
  refine FailsWith.after (reads_secRead 3 (by omega)) ?_
  simp only [show ¬ (3 = 5) by omega, if_false, ne_eq, not_true_eq_false]
  have hi : isInt32 ((good.length + (k + 1) : Nat) : Int) := by unfold INT_MAX at hmax; unfold isInt32; omega
  refine FailsWith.after (reads_int32 c _ hi) ?_
  have h0 : ¬ (((good.length + (k + 1) : Nat) : Int) < 0) := by omega
  simp only [h0, if_false, not_true_eq_false]
  have ha := Reads.allocOk c (((good.length + (k + 1) : Nat) : Int) * 8) (by omega) hcap
  have := FailsWith.after ha (f := fun _ => P.bind (readCols c (good.length + (k + 1)) none 0) (fun cols => P.pure (some (⟨cols⟩ : TS))))
    (FailsWith.first (cols_then_failure c good hg k bad s h 0))
  simpa using this

/-- e.g. an unknown encoding id in the values of any column of a slice -/
theorem unknown_encoding_in_slice (c : Cfg) (good : List CS) (hg : ∀ x ∈ good, x.Fits c) (k : Nat) (e vt : UInt8)
    (h1 : e ≠ 1) (h2 : e ≠ 2) (h3 : e ≠ 3)
    (hcap : ((good.length + (k + 1) : Nat) : Int) * 8 ≤ c.cap) (hmax : ((good.length + (k + 1) : Nat) : Int) ≤ INT_MAX) :
    FailsWith (readTS c (good.length + (k + 1)) none)
      (sec 3 ++ le c ((good.length + (k + 1) : Nat) : Int) ++ (good.flatMap (Spec.cs c) ++ (sec 4 ++ [e, vt]))) .unknownEncoding :=
  ts_fails_with_cs c good hg k _ _ (cs_fails_with_va c _ _ (unknown_encoding_id c e vt h1 h2 h3).1) hcap hmax

/-! ### the global form: corruption anywhere in the slices of an otherwise intact file -/

/-- A file with an intact header, intact table metadata (any physical layout) and any number of
    intact slices, followed by bytes on which `sbdf_ts_read` fails with `s`: the caller's loop
    `fh_read; tm_read; ts_read*` succeeds on every call before, returns the metadata and exactly
    the intact slices, and the call that meets the corruption is the first non-OK one, with `s`. -/
theorem file_then_failure (c : Cfg) (p : PhysTM) (cols : List Md) (slices : List (List CS))
    (hp : p.Ok c cols) (hn : ∀ x ∈ slices, x.length = p.cols.length) (hf : ∀ x ∈ slices, TSFits c x)
    (bad : Bytes) (s : Status) (hbad : FailsWith (readTS c p.cols.length none) bad s)
    (rest : Bytes) (fuel : Nat) (hfuel : slices.length < fuel) :
    readFileF c none fuel (header ++ Spec.tm c p ++ (slices.flatMap (Spec.ts c) ++ bad) ++ rest).toArray =
      ⟨.ok (1, 0), some (.ok (C04.logicalTM p cols)), slices.map (fun x => ⟨maskFrom none 0 x⟩),
       some (.failed (.st s))⟩ := by
  unfold readFileF
  have h1 := reads_fhRead [] (Spec.tm c p ++ (slices.flatMap (Spec.ts c) ++ bad) ++ rest)
  simp only [List.nil_append, List.length_nil, Nat.zero_add, List.append_assoc] at h1 ⊢
  rw [h1]
  simp only
  have h2 := reads_tm c p cols hp header ((slices.flatMap (Spec.ts c) ++ bad) ++ rest)
  simp only [List.append_assoc] at h2
  rw [h2]
  simp only
  have hcl' : (List.map Md.freeze cols).length = p.cols.length := by simp [hp.clen]
  have h3 := slices_then_failure c none p.cols.length slices hn hf bad s hbad (header ++ Spec.tm c p) rest fuel hfuel
  simp only [List.append_assoc, List.length_append] at h3
  simp only [C04.logicalTM, hcl']
  rw [h3]

/-- the same for the table-metadata section: whatever `sbdf_tm_read` reports on it is the first
    non-OK status, and no slice is read -/
theorem tm_failure_in_file (c : Cfg) (sub : Option (List Bool)) (bad : Bytes) (s : Status)
    (hbad : FailsWith (readTM c) bad s) (rest : Bytes) (fuel : Nat) :
    readFileF c sub fuel (header ++ bad ++ rest).toArray = ⟨.ok (1, 0), some (.error (.st s)), [], none⟩ := by
  unfold readFileF
  have h1 := reads_fhRead [] (bad ++ rest)
  simp only [List.nil_append, List.length_nil, Nat.zero_add, List.append_assoc] at h1 ⊢
  rw [h1]
  simp only
  have h2 := hbad header rest
  simp only [List.append_assoc] at h2
  rw [h2]

/-- e.g. a negative entry count right behind the section marker -/
theorem negative_entry_count_in_file (c : Cfg) (sub : Option (List Bool)) (count : Int) (h32 : isInt32 count)
    (h : count < 0) (rest : Bytes) (fuel : Nat) :
    readFileF c sub fuel (header ++ (sec 2 ++ le c count) ++ rest).toArray =
      ⟨.ok (1, 0), some (.error (.st .invalidSize)), [], none⟩ :=
  tm_failure_in_file c sub _ _ (negative_entry_count c count h32 h) rest fuel

/-- counted loops: after any number of intact elements, a failure inside the next one is the
    failure of the loop -/
theorem FailsWith.many {p : P α} {γ : Type} (xs : List γ) (enc : γ → Bytes) (res : γ → α)
    (h : ∀ x ∈ xs, Reads p (enc x) (res x)) (k : Nat) (bad : Bytes) (s : Status) (hbad : FailsWith p bad s) :
    FailsWith (readMany (xs.length + (k + 1)) p) (xs.flatMap enc ++ bad) s := by
  induction xs with
  | nil =>
    simp only [List.length_nil, Nat.zero_add, List.flatMap_nil, List.nil_append, readMany, P.bind_def]
    exact FailsWith.first hbad
  | cons x xs ih =>
    have e : (x :: xs).length + (k + 1) = (xs.length + (k + 1)) + 1 := by simp; omega
    rw [e]
    simp only [readMany, P.bind_def, List.flatMap_cons, List.append_assoc]
    refine FailsWith.after (h x (by simp)) ?_
    exact FailsWith.first (ih (fun y hy => h y (by simp [hy])))

/-- a table-level entry corrupted in a way `readTableEntry` reports with `s`, after any number of
    intact entries: `sbdf_tm_read` fails with `s` -/
theorem tm_fails_with_entry (c : Cfg) (good : List (Bytes × Obj × Option Obj)) (hg : ∀ e ∈ good, TableEntryOk c e)
    (k : Nat) (hmax : ((good.length + (k + 1) : Nat) : Int) ≤ INT_MAX) (bad : Bytes) (s : Status)
    (hbad : FailsWith (readTableEntry c) bad s) :
    FailsWith (readTM c) (sec 2 ++ le c ((good.length + (k + 1) : Nat) : Int) ++
      (good.flatMap (fun e => tableEntry c e.1 e.2.1 e.2.2) ++ bad)) s := by
  unfold readTM; simp only [P.bind_def]
  rw [List.append_assoc]
  refine FailsWith.after (reads_secExpect 2 (by omega)) ?_
  have hi : isInt32 ((good.length + (k + 1) : Nat) : Int) := by unfold INT_MAX at hmax; unfold isInt32; omega
  refine FailsWith.after (reads_int32 c _ hi) ?_
  have h0 : ¬ (((good.length + (k + 1) : Nat) : Int) < 0) := by omega
  simp only [h0, if_false, Int.toNat_natCast]
  exact FailsWith.first (FailsWith.many good _ (fun e => (⟨e.1, some e.2.1, e.2.2⟩ : MdEntry))
    (fun e he => reads_tableEntry c e (hg e he)) k bad s hbad)

/-- a row of the column-metadata name list corrupted in a way `readNameRow` reports with `s`, after
    intact table-level entries, counts and any number of intact rows: `sbdf_tm_read` fails with `s` -/
theorem tm_fails_with_namerow (c : Cfg) (table : List (Bytes × Obj × Option Obj)) (ht : ∀ e ∈ table, TableEntryOk c e)
    (htc : (table.length : Int) ≤ INT_MAX) (ncols : Nat) (hcc : (ncols : Int) * 8 ≤ c.cap ∧ (ncols : Int) ≤ INT_MAX)
    (good : List NameRow) (hg : ∀ r ∈ good, NameRowOk c r) (k : Nat)
    (hnc : ((good.length + (k + 1) : Nat) : Int) * 8 ≤ c.cap ∧ ((good.length + (k + 1) : Nat) : Int) ≤ INT_MAX)
    (bad : Bytes) (s : Status) (hbad : FailsWith (readNameRow c) bad s) :
    FailsWith (readTM c) (sec 2 ++ le c table.length ++ table.flatMap (fun e => tableEntry c e.1 e.2.1 e.2.2) ++
      le c ncols ++ le c ((good.length + (k + 1) : Nat) : Int) ++ (good.flatMap (nameRow c) ++ bad)) s := by
  unfold readTM; simp only [P.bind_def]
  rw [List.append_assoc, List.append_assoc, List.append_assoc, List.append_assoc]
  refine FailsWith.after (reads_secExpect 2 (by omega)) ?_
  have ht32 : isInt32 (table.length : Int) := by unfold INT_MAX at htc; unfold isInt32; omega
  refine FailsWith.after (reads_int32 c _ ht32) ?_
  have h0 : ¬ ((table.length : Int) < 0) := by omega
  simp only [h0, if_false, Int.toNat_natCast]
  have hentries := Reads.manyMap (p := readTableEntry c) table (fun e => tableEntry c e.1 e.2.1 e.2.2)
    (fun e => (⟨e.1, some e.2.1, e.2.2⟩ : MdEntry)) (fun e he => reads_tableEntry c e (ht e he))
  refine FailsWith.after hentries ?_
  have hc32 : isInt32 (ncols : Int) := by have := hcc.2; unfold INT_MAX at this; unfold isInt32; omega
  refine FailsWith.after (reads_int32 c _ hc32) ?_
  have hc0 : ¬ ((ncols : Int) < 0) := by omega
  simp only [hc0, if_false]
  refine FailsWith.after_pre (a := ()) (Reads.allocOk c _ (by omega) hcc.1) ?_
  have hn32 : isInt32 ((good.length + (k + 1) : Nat) : Int) := by
    have := hnc.2; unfold INT_MAX at this; unfold isInt32; omega
  refine FailsWith.after (Reads.remap .oom (reads_int32 c _ hn32)) ?_
  have hn0 : ¬ (((good.length + (k + 1) : Nat) : Int) < 0) := by omega
  simp only [hn0, if_false, Int.toNat_natCast]
  refine FailsWith.after_pre (a := ()) (Reads.allocOk c _ (by omega) hnc.1) ?_
  exact FailsWith.first (FailsWith.many good (nameRow c) id (fun r hr => reads_nameRow c r (hg r hr)) k bad s hbad)

/-- e.g. a negative name length in any row of the name list -/
theorem namerow_negative_length (c : Cfg) (l : Int) (h32 : isInt32 l) (h : l < 0) :
    FailsWith (readNameRow c) (le c l) .invalidSize := by
  unfold readNameRow; simp only [P.bind_def]
  exact FailsWith.first (negative_string_length c l h32 h).1

/-- the per-column part: a column on which `readColumn` fails with `s` (a value of an unknown type,
    a truncated value, the same name twice in one column → METADATA_ALREADY_EXISTS), after any
    number of intact columns: `sbdf_tm_read` fails with `s` -/
theorem columns_then_failure (c : Cfg) (rows : List NameRow) (pc : List (List (Option Obj))) (cols : List Md)
    (h : All2 (ColOk c rows) pc cols) (k : Nat) (bad : Bytes) (s : Status)
    (hbad : FailsWith (readColumn c rows Md.empty) bad s) :
    FailsWith (readMany (pc.length + (k + 1)) (readColumn c rows Md.empty))
      (pc.flatMap (fun col => col.flatMap (optObj c)) ++ bad) s := by
  induction h with
  | nil =>
    simp only [List.length_nil, Nat.zero_add, List.flatMap_nil, List.nil_append, readMany, P.bind_def]
    exact FailsWith.first hbad
  | @cons x m xs ms hx _ ih =>
    have e : (x :: xs).length + (k + 1) = (xs.length + (k + 1)) + 1 := by simp; omega
    rw [e]
    simp only [readMany, P.bind_def, List.flatMap_cons, List.append_assoc]
    refine FailsWith.after (reads_column c rows x Md.empty m hx.1 hx.2.1 hx.2.2) ?_
    exact FailsWith.first ih

theorem tm_fails_with_column (c : Cfg) (p : PhysTM) (cols : List Md) (hp : p.Ok c cols) (k : Nat)
    (hcc : ((p.cols.length + (k + 1) : Nat) : Int) * 8 ≤ c.cap ∧ ((p.cols.length + (k + 1) : Nat) : Int) ≤ INT_MAX)
    (bad : Bytes) (s : Status) (hbad : FailsWith (readColumn c p.names Md.empty) bad s) :
    FailsWith (readTM c) (sec 2 ++ le c p.table.length ++ p.table.flatMap (fun e => tableEntry c e.1 e.2.1 e.2.2) ++
      le c ((p.cols.length + (k + 1) : Nat) : Int) ++ le c p.names.length ++ p.names.flatMap (nameRow c) ++
      (p.cols.flatMap (fun col => col.flatMap (optObj c)) ++ bad)) s := by
  unfold readTM; simp only [P.bind_def]
  rw [List.append_assoc, List.append_assoc, List.append_assoc, List.append_assoc, List.append_assoc]
  refine FailsWith.after (reads_secExpect 2 (by omega)) ?_
  have ht32 : isInt32 (p.table.length : Int) := by have := hp.tcnt; unfold INT_MAX at this; unfold isInt32; omega
  refine FailsWith.after (reads_int32 c _ ht32) ?_
  have h0 : ¬ ((p.table.length : Int) < 0) := by omega
  simp only [h0, if_false, Int.toNat_natCast]
  have hentries := Reads.manyMap (p := readTableEntry c) p.table (fun e => tableEntry c e.1 e.2.1 e.2.2)
    (fun e => (⟨e.1, some e.2.1, e.2.2⟩ : MdEntry)) (fun e he => reads_tableEntry c e (hp.table e he))
  refine FailsWith.after hentries ?_
  have hc32 : isInt32 ((p.cols.length + (k + 1) : Nat) : Int) := by
    have := hcc.2; unfold INT_MAX at this; unfold isInt32; omega
  refine FailsWith.after (reads_int32 c _ hc32) ?_
  have hc0 : ¬ (((p.cols.length + (k + 1) : Nat) : Int) < 0) := by omega
  simp only [hc0, if_false]
  refine FailsWith.after_pre (a := ()) (Reads.allocOk c _ (by omega) hcc.1) ?_
  have hn32 : isInt32 (p.names.length : Int) := by have := hp.ncnt.2; unfold INT_MAX at this; unfold isInt32; omega
  refine FailsWith.after (Reads.remap .oom (reads_int32 c _ hn32)) ?_
  have hn0 : ¬ ((p.names.length : Int) < 0) := by omega
  simp only [hn0, if_false, Int.toNat_natCast]
  refine FailsWith.after_pre (a := ()) (Reads.allocOk c _ (by omega) hp.ncnt.1) ?_
  have hrows := Reads.many (p := readNameRow c) (enc := nameRow c) p.names (fun r hr => reads_nameRow c r (hp.names r hr))
  refine FailsWith.after hrows ?_
  exact FailsWith.first (columns_then_failure c p.names p.cols cols hp.col k bad s hbad)

/-- a presence flag other than 0/1 on the value of a table-level entry -/
theorem entry_bad_value_flag (c : Cfg) (name : Bytes) (hn : fitsStr c name.length) (vt flag : UInt8)
    (h0 : flag ≠ 0) (h1 : flag ≠ 1) :
    FailsWith (readTableEntry c) (str c name ++ [vt] ++ [flag]) .arrayLen1 := by
  unfold readTableEntry readMdValues; simp only [P.bind_def]
  rw [List.append_assoc]
  refine FailsWith.after (reads_string c name hn) ?_
  refine FailsWith.after (bs := [vt]) (cs := [flag]) (reads_int8_lit vt) ?_
  exact FailsWith.first (FailsWith.first (bad_table_flag c vt.toNat flag h0 h1))

/-- ... anywhere among the table-level entries of an otherwise intact file: the first non-OK
    status is array-length-must-be-1 and no slice is read -/
theorem bad_table_flag_in_file (c : Cfg) (sub : Option (List Bool)) (good : List (Bytes × Obj × Option Obj))
    (hg : ∀ e ∈ good, TableEntryOk c e) (k : Nat) (hmax : ((good.length + (k + 1) : Nat) : Int) ≤ INT_MAX)
    (name : Bytes) (hn : fitsStr c name.length) (vt flag : UInt8) (h0 : flag ≠ 0) (h1 : flag ≠ 1)
    (rest : Bytes) (fuel : Nat) :
    readFileF c sub fuel (header ++ (sec 2 ++ le c ((good.length + (k + 1) : Nat) : Int) ++
        (good.flatMap (fun e => tableEntry c e.1 e.2.1 e.2.2) ++ (str c name ++ [vt] ++ [flag]))) ++ rest).toArray =
      ⟨.ok (1, 0), some (.error (.st .arrayLen1)), [], none⟩ :=
  tm_failure_in_file c sub _ _ (tm_fails_with_entry c good hg k hmax _ _ (entry_bad_value_flag c name hn vt flag h0 h1)) rest fuel

/-- ... a corrupted row of the name list, or a corrupted column of the per-column part, of an
    otherwise intact table-metadata section: the first non-OK status, no slice is read -/
theorem corrupt_namerow_in_file (c : Cfg) (sub : Option (List Bool)) (table : List (Bytes × Obj × Option Obj))
    (ht : ∀ e ∈ table, TableEntryOk c e) (htc : (table.length : Int) ≤ INT_MAX) (ncols : Nat)
    (hcc : (ncols : Int) * 8 ≤ c.cap ∧ (ncols : Int) ≤ INT_MAX) (good : List NameRow) (hg : ∀ r ∈ good, NameRowOk c r)
    (k : Nat) (hnc : ((good.length + (k + 1) : Nat) : Int) * 8 ≤ c.cap ∧ ((good.length + (k + 1) : Nat) : Int) ≤ INT_MAX)
    (bad : Bytes) (s : Status) (hbad : FailsWith (readNameRow c) bad s) (rest : Bytes) (fuel : Nat) :
    readFileF c sub fuel (header ++ (sec 2 ++ le c table.length ++ table.flatMap (fun e => tableEntry c e.1 e.2.1 e.2.2) ++
        le c ncols ++ le c ((good.length + (k + 1) : Nat) : Int) ++ (good.flatMap (nameRow c) ++ bad)) ++ rest).toArray =
      ⟨.ok (1, 0), some (.error (.st s)), [], none⟩ :=
  tm_failure_in_file c sub _ _ (tm_fails_with_namerow c table ht htc ncols hcc good hg k hnc bad s hbad) rest fuel

theorem corrupt_column_metadata_in_file (c : Cfg) (sub : Option (List Bool)) (p : PhysTM) (cols : List Md)
    (hp : p.Ok c cols) (k : Nat)
    (hcc : ((p.cols.length + (k + 1) : Nat) : Int) * 8 ≤ c.cap ∧ ((p.cols.length + (k + 1) : Nat) : Int) ≤ INT_MAX)
    (bad : Bytes) (s : Status) (hbad : FailsWith (readColumn c p.names Md.empty) bad s) (rest : Bytes) (fuel : Nat) :
    readFileF c sub fuel (header ++ (sec 2 ++ le c p.table.length ++ p.table.flatMap (fun e => tableEntry c e.1 e.2.1 e.2.2) ++
        le c ((p.cols.length + (k + 1) : Nat) : Int) ++ le c p.names.length ++ p.names.flatMap (nameRow c) ++
        (p.cols.flatMap (fun col => col.flatMap (optObj c)) ++ bad)) ++ rest).toArray =
      ⟨.ok (1, 0), some (.error (.st s)), [], none⟩ :=
  tm_failure_in_file c sub _ _ (tm_fails_with_column c p cols hp k hcc bad s hbad) rest fuel

/-- a property of a column slice corrupted in a way `sbdf_va_read` reports with `s` (its value
    array, after an intact name), after the intact values and any number of intact properties:
    `sbdf_cs_read` fails with `s` -/
theorem cs_fails_with_prop (c : Cfg) (values : VA) (hv : values.Fits c) (good : List (Bytes × VA))
    (hg : ∀ p ∈ good, fitsStr c p.1.length ∧ p.2.Fits c) (k : Nat)
    (hcap : ((good.length + (k + 1) : Nat) : Int) * 8 ≤ c.cap) (hmax : ((good.length + (k + 1) : Nat) : Int) * 8 ≤ INT_MAX)
    (name : Bytes) (hn : fitsStr c name.length) (bad : Bytes) (s : Status) (hbad : FailsWith (readVA c) bad s) :
    FailsWith (readCS c) (sec 4 ++ Spec.va c values ++ le c ((good.length + (k + 1) : Nat) : Int) ++
      (good.flatMap (fun p => str c p.1 ++ Spec.va c p.2) ++ (str c name ++ bad))) s := by
  unfold readCS; simp only [P.bind_def]
  rw [List.append_assoc, List.append_assoc]
  refine FailsWith.after (reads_secExpect 4 (by omega)) ?_
  refine FailsWith.after (reads_va c values hv) ?_
  have hi : isInt32 ((good.length + (k + 1) : Nat) : Int) := by unfold INT_MAX at hmax; unfold isInt32; omega
  refine FailsWith.after (reads_int32 c _ hi) ?_
  have h0 : ¬ (((good.length + (k + 1) : Nat) : Int) < 0) := by omega
  have hpos : ((good.length + (k + 1) : Nat) : Int) > 0 := by omega
  have hdiv : ¬ (((good.length + (k + 1) : Nat) : Int) > INT_MAX / 8) := by
    have : ((good.length + (k + 1) : Nat) : Int) ≤ INT_MAX / 8 := Int.le_ediv_of_mul_le (by omega) hmax
    omega
  simp only [h0, if_false, hpos, if_true, hdiv]
  have hgd : decide (((good.length + (k + 1) : Nat) : Int) * 8 ≤ INT_MAX) = true := by simpa using hmax
  rw [hgd]
  refine FailsWith.after_pre (a := ()) (Reads.guardTrue _) ?_
  refine FailsWith.after_pre (a := ()) (Reads.allocOk c _ (by omega) hcap) ?_
  simp only [Int.toNat_natCast]
  refine FailsWith.first (FailsWith.many good _ id (fun p hp => ?_) k _ s ?_)
  · exact reads_prop c p (hg p hp).1 (hg p hp).2
  · unfold readProp; simp only [P.bind_def]
    exact FailsWith.after (reads_string c name hn) (FailsWith.first hbad)

/-- ... in particular a value array corrupted in any way `sbdf_va_read` reports with `s`, in any
    column of the slice after any number of intact columns: unknown encoding or type id, negative
    element count, negative string length, negative bit-array row count, … — every decision
    theorem above of the form `FailsWith (readVA c) bad s` lifts to the whole file. -/
theorem corrupt_value_array_in_file (c : Cfg) (p : PhysTM) (cols : List Md) (slices : List (List CS))
    (hp : p.Ok c cols) (hn : ∀ x ∈ slices, x.length = p.cols.length) (hf : ∀ x ∈ slices, TSFits c x)
    (good : List CS) (hg : ∀ x ∈ good, x.Fits c) (k : Nat) (hk : p.cols.length = good.length + (k + 1))
    (hcap : ((good.length + (k + 1) : Nat) : Int) * 8 ≤ c.cap) (hmax : ((good.length + (k + 1) : Nat) : Int) ≤ INT_MAX)
    (bad : Bytes) (s : Status) (hbad : FailsWith (readVA c) bad s)
    (rest : Bytes) (fuel : Nat) (hfuel : slices.length < fuel) :
    readFileF c none fuel (header ++ Spec.tm c p ++ (slices.flatMap (Spec.ts c) ++
        (sec 3 ++ le c ((good.length + (k + 1) : Nat) : Int) ++ (good.flatMap (Spec.cs c) ++ (sec 4 ++ bad)))) ++ rest).toArray =
      ⟨.ok (1, 0), some (.ok (C04.logicalTM p cols)), slices.map (fun x => ⟨maskFrom none 0 x⟩),
       some (.failed (.st s))⟩ := by
  have h := ts_fails_with_cs c good hg k _ s (cs_fails_with_va c bad s hbad) hcap hmax
  exact file_then_failure c p cols slices hp hn hf _ s (by rw [hk]; exact h) rest fuel hfuel

/-- the most general slice-level form: a column slice on which `sbdf_cs_read` fails with `s`
    (corrupted values, a corrupted property — `cs_fails_with_va`, `cs_fails_with_prop`), after any
    number of intact columns of the slice and any number of intact slices of an intact file -/
theorem corrupt_column_in_file (c : Cfg) (p : PhysTM) (cols : List Md) (slices : List (List CS))
    (hp : p.Ok c cols) (hn : ∀ x ∈ slices, x.length = p.cols.length) (hf : ∀ x ∈ slices, TSFits c x)
    (good : List CS) (hg : ∀ x ∈ good, x.Fits c) (k : Nat) (hk : p.cols.length = good.length + (k + 1))
    (hcap : ((good.length + (k + 1) : Nat) : Int) * 8 ≤ c.cap) (hmax : ((good.length + (k + 1) : Nat) : Int) ≤ INT_MAX)
    (bad : Bytes) (s : Status) (hbad : FailsWith (readCS c) bad s)
    (rest : Bytes) (fuel : Nat) (hfuel : slices.length < fuel) :
    readFileF c none fuel (header ++ Spec.tm c p ++ (slices.flatMap (Spec.ts c) ++
        (sec 3 ++ le c ((good.length + (k + 1) : Nat) : Int) ++ (good.flatMap (Spec.cs c) ++ bad))) ++ rest).toArray =
      ⟨.ok (1, 0), some (.ok (C04.logicalTM p cols)), slices.map (fun x => ⟨maskFrom none 0 x⟩),
       some (.failed (.st s))⟩ := by
  have h := ts_fails_with_cs c good hg k _ s hbad hcap hmax
  exact file_then_failure c p cols slices hp hn hf _ s (by rw [hk]; exact h) rest fuel hfuel

/-- value arrays: a plain array with a negative element count -/
theorem va_negative_count (c : Cfg) (vt : UInt8) (count : Int) (h32 : isInt32 count) (h : count < 0) :
    FailsWith (readVA c) ([1, vt] ++ le c count) .invalidSize := by
  unfold readVA; simp only [P.bind_def]
  refine FailsWith.after (bs := [1]) (cs := [vt] ++ le c count) (reads_int8_lit 1) ?_
  refine FailsWith.after (bs := [vt]) (cs := le c count) (reads_int8_lit vt) ?_
  simp only [show (1 : UInt8).toNat = 1 from rfl, if_true]
  exact FailsWith.first (negative_array_count c vt.toNat count h32 h)

/-- value arrays: a plain array of an unknown type id -/
theorem va_unknown_type (c : Cfg) (vt : UInt8) (count : Int) (h32 : isInt32 count) (h0 : 0 ≤ count)
    (harr : isArr vt.toNat = false) (hunk : ∀ n, fixedSize vt.toNat ≠ .ok n) :
    FailsWith (readVA c) ([1, vt] ++ le c count) .unknownTypeid := by
  unfold readVA; simp only [P.bind_def]
  refine FailsWith.after (bs := [1]) (cs := [vt] ++ le c count) (reads_int8_lit 1) ?_
  refine FailsWith.after (bs := [vt]) (cs := le c count) (reads_int8_lit vt) ?_
  simp only [show (1 : UInt8).toNat = 1 from rfl, if_true]
  refine FailsWith.first ?_
  unfold readObjArr; simp only [P.bind_def]
  exact FailsWith.after_nil (reads_int32 c count h32) (unknown_type_id c vt.toNat count true h0 harr hunk)

/-- value arrays: a bit array with a negative row count (repair F20) -/
theorem va_negative_bit_rows (c : Cfg) (vt : UInt8) (rows : Int) (h32 : isInt32 rows) (h : rows < 0) :
    FailsWith (readVA c) ([3, vt] ++ le c rows) .invalidSize := by
  unfold readVA; simp only [P.bind_def]
  refine FailsWith.after (bs := [3]) (cs := [vt] ++ le c rows) (reads_int8_lit 3) ?_
  refine FailsWith.after (bs := [vt]) (cs := le c rows) (reads_int8_lit vt) ?_
  simp only [show (3 : UInt8).toNat = 3 from rfl, show ¬ (3 = 1) by omega, show ¬ (3 = 2) by omega, if_false, if_true]
  refine FailsWith.after_nil (reads_int32 c rows h32) ?_
  simp only [h, if_true]; exact FailsWith.fail _

/-- instances: the three above anywhere in the slices of an intact file — the first non-OK status
    of the caller's loop is the matching one -/
theorem negative_counts_in_file (c : Cfg) (p : PhysTM) (cols : List Md) (slices : List (List CS))
    (hp : p.Ok c cols) (hn : ∀ x ∈ slices, x.length = p.cols.length) (hf : ∀ x ∈ slices, TSFits c x)
    (good : List CS) (hg : ∀ x ∈ good, x.Fits c) (k : Nat) (hk : p.cols.length = good.length + (k + 1))
    (hcap : ((good.length + (k + 1) : Nat) : Int) * 8 ≤ c.cap) (hmax : ((good.length + (k + 1) : Nat) : Int) ≤ INT_MAX)
    (vt : UInt8) (v : Int) (h32 : isInt32 v) (h : v < 0) (rest : Bytes) (fuel : Nat) (hfuel : slices.length < fuel) :
    (readFileF c none fuel (header ++ Spec.tm c p ++ (slices.flatMap (Spec.ts c) ++
        (sec 3 ++ le c ((good.length + (k + 1) : Nat) : Int) ++ (good.flatMap (Spec.cs c) ++ (sec 4 ++ ([1, vt] ++ le c v))))) ++ rest).toArray).last =
      some (.failed (.st .invalidSize)) ∧
    (readFileF c none fuel (header ++ Spec.tm c p ++ (slices.flatMap (Spec.ts c) ++
        (sec 3 ++ le c ((good.length + (k + 1) : Nat) : Int) ++ (good.flatMap (Spec.cs c) ++ (sec 4 ++ ([3, vt] ++ le c v))))) ++ rest).toArray).last =
      some (.failed (.st .invalidSize)) := by
  constructor
  · rw [corrupt_value_array_in_file c p cols slices hp hn hf good hg k hk hcap hmax _ _ (va_negative_count c vt v h32 h) rest fuel hfuel]
  · rw [corrupt_value_array_in_file c p cols slices hp hn hf good hg k hk hcap hmax _ _ (va_negative_bit_rows c vt v h32 h) rest fuel hfuel]

theorem unknown_type_in_file (c : Cfg) (p : PhysTM) (cols : List Md) (slices : List (List CS))
    (hp : p.Ok c cols) (hn : ∀ x ∈ slices, x.length = p.cols.length) (hf : ∀ x ∈ slices, TSFits c x)
    (good : List CS) (hg : ∀ x ∈ good, x.Fits c) (k : Nat) (hk : p.cols.length = good.length + (k + 1))
    (hcap : ((good.length + (k + 1) : Nat) : Int) * 8 ≤ c.cap) (hmax : ((good.length + (k + 1) : Nat) : Int) ≤ INT_MAX)
    (vt : UInt8) (count : Int) (h32 : isInt32 count) (h0 : 0 ≤ count)
    (harr : isArr vt.toNat = false) (hunk : ∀ n, fixedSize vt.toNat ≠ .ok n)
    (rest : Bytes) (fuel : Nat) (hfuel : slices.length < fuel) :
    (readFileF c none fuel (header ++ Spec.tm c p ++ (slices.flatMap (Spec.ts c) ++
        (sec 3 ++ le c ((good.length + (k + 1) : Nat) : Int) ++ (good.flatMap (Spec.cs c) ++ (sec 4 ++ ([1, vt] ++ le c count))))) ++ rest).toArray).last =
      some (.failed (.st .unknownTypeid)) := by
  rw [corrupt_value_array_in_file c p cols slices hp hn hf good hg k hk hcap hmax _ _ (va_unknown_type c vt count h32 h0 harr hunk) rest fuel hfuel]

/-- non-vacuity: type id 11 is neither an array type nor of a known size -/
example : isArr (11 : UInt8).toNat = false ∧ ∀ n, fixedSize (11 : UInt8).toNat ≠ .ok n := by
  refine ⟨by decide, fun n => ?_⟩
  simp [fixedSize, unpackedSize]

/-- instance: an unknown encoding id anywhere in the slices of an intact file -/
theorem unknown_encoding_in_file (c : Cfg) (p : PhysTM) (cols : List Md) (slices : List (List CS))
    (hp : p.Ok c cols) (hn : ∀ x ∈ slices, x.length = p.cols.length) (hf : ∀ x ∈ slices, TSFits c x)
    (good : List CS) (hg : ∀ x ∈ good, x.Fits c) (k : Nat) (hk : p.cols.length = good.length + (k + 1))
    (hcap : ((good.length + (k + 1) : Nat) : Int) * 8 ≤ c.cap) (hmax : ((good.length + (k + 1) : Nat) : Int) ≤ INT_MAX)
    (e vt : UInt8) (h1 : e ≠ 1) (h2 : e ≠ 2) (h3 : e ≠ 3) (rest : Bytes) (fuel : Nat) (hfuel : slices.length < fuel) :
    (readFileF c none fuel (header ++ Spec.tm c p ++ (slices.flatMap (Spec.ts c) ++
        (sec 3 ++ le c ((good.length + (k + 1) : Nat) : Int) ++ (good.flatMap (Spec.cs c) ++ (sec 4 ++ [e, vt])))) ++ rest).toArray).last =
      some (.failed (.st .unknownEncoding)) := by
  rw [corrupt_value_array_in_file c p cols slices hp hn hf good hg k hk hcap hmax _ _ (unknown_encoding_id c e vt h1 h2 h3).1 rest fuel hfuel]

/-! ### every status the library can return has its own textual description -/

theorem returnable_have_text : ∀ r ∈ Gen.returnable, Gen.errStr r.2 ≠ Gen.errDefault := by decide

theorem texts_distinct : (Gen.returnable.map (fun r => Gen.errStr r.2)).Nodup := by decide

/-- the status macros the sources use are those of errors.h, with the values of the model -/
theorem returnable_documented : ∀ r ∈ Gen.returnable, r ∈ Gen.statusMacros := by decide

/-- non-vacuity -/
example : secRead ([0xde, 0x5b, 3] : Bytes).toArray 0 = .error (.st .magicMissing) := rfl

end Sbdf.C09
