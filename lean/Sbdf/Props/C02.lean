/-
  C02 — Every value-array encoding is lossless and reports the right row count.
-/
import Sbdf.ValueArray
import Sbdf.Lemmas.ReadsVA
import Sbdf.Lemmas.WSpec
namespace Sbdf.C02

/-! ### run-length encoding -/

theorem ofNat_run (run : Nat) (h1 : 1 ≤ run) (h2 : run ≤ 256) : (UInt8.ofNat (run - 1)).toNat + 1 = run := by
  rw [UInt8.toNat_ofNat']; omega

/-- loop invariant of the encoder: expanding what the loop emits gives back the pending run
    followed by the rest of the input -/
theorem expand_loop (rest : List Bytes) (run : Nat) (prev : Bytes) (h1 : 1 ≤ run) (h2 : run ≤ 256) :
    rleExpand (rleLoop rest run prev) = List.replicate run prev ++ rest := by
  induction rest generalizing run prev with
  | nil =>
    have hr := ofNat_run run h1 h2
    simp only [rleLoop, rleExpand, hr, List.append_nil]
  | cons cur rest ih =>
    have hr := ofNat_run run h1 h2
    simp only [rleLoop]
    split
    · simp only [rleExpand, hr]
      rw [ih 1 cur (by omega) (by omega)]
      simp
    · rename_i hc
      simp only [not_or, Decidable.not_not] at hc
      rw [ih (run + 1) cur (by omega) (by omega), ← hc.2]
      simp [List.replicate_succ', List.append_assoc]

/-- decoding an encoded array returns the original values, in order -/
theorem rle_expand_encode (es : List Bytes) : rleExpand (rleEncode es) = es := by
  cases es with
  | nil => rfl
  | cons e es => simp [rleEncode, expand_loop es 1 e (by omega) (by omega)]

theorem expand_length (l : List (UInt8 × Bytes)) : (rleExpand l).length = rleTotal (l.map (·.1)) := by
  unfold rleTotal
  suffices h : ∀ acc, List.foldl (fun acc r => acc + r.toNat + 1) acc (l.map (·.1)) = acc + (rleExpand l).length by
    simpa using (h 0).symm
  induction l with
  | nil => intro acc; simp [rleExpand]
  | cons x xs ih =>
    intro acc
    obtain ⟨r, v⟩ := x
    simp only [List.map_cons, List.foldl_cons, ih, rleExpand, List.length_append, List.length_replicate]
    omega

theorem zip_fst_snd (l : List (UInt8 × Bytes)) : (l.map (·.1)).zip (l.map (·.2)) = l := by
  induction l with
  | nil => rfl
  | cons x xs ih => simp [ih]

/-- every stored run is between 1 and 256 rows (stored as length-1 in a byte), and the encoder
    produces as many values as runs -/
theorem runs_values_same_length (es : List Bytes) :
    ((rleEncode es).map (·.1)).length = ((rleEncode es).map (·.2)).length := by simp

def elemSize (tid : Nat) : Nat := match elemSizeOrPtr tid with | .ok n => n | .error _ => 0

/-- run-length: lossless and the row count is the number of values (given that the allocator
    grants the output buffer of `elemSize * count` bytes) -/
theorem rle_lossless (c : Cfg) (o : Obj) (va : VA) (h : createRle o = .ok va)
    (hcap : (elemSize o.tid : Int) * o.count ≤ c.cap) (hcapmax : (c.cap : Int) ≤ INT_MAX) :
    getValues c va = .ok o ∧ va.rowCnt = o.count := by
  have hva : va = VA.rle o.count ((rleEncode o.elems).map (·.1)) ⟨o.tid, (rleEncode o.elems).map (·.2)⟩ := by
    unfold createRle at h
    split at h
    · simp at h; exact h.symm
    · split at h
      · simp at h
      · simp at h; exact h.symm
  have hsz : ∃ sz, elemSizeOrPtr o.tid = .ok sz ∧ 0 < sz := by
    unfold createRle at h
    unfold elemSizeOrPtr
    split at h
    · rename_i ha; exact ⟨8, by simp [ha], by omega⟩
    · rename_i ha
      split at h
      · simp at h
      · rename_i n hn
        refine ⟨n, by simp [ha, hn], ?_⟩
        unfold fixedSize at hn
        cases hu : unpackedSize o.tid with
        | none => simp [hu] at hn
        | some k => cases k with
          | zero => simp [hu] at hn
          | succ k => simp [hu] at hn; omega
  obtain ⟨sz, hsz, hpos⟩ := hsz
  subst hva
  refine ⟨?_, rfl⟩
  have hes : elemSize o.tid = sz := by simp [elemSize, hsz]
  rw [hes] at hcap
  have htot : (rleTotal ((rleEncode o.elems).map (·.1)) : Int) = (o.count : Int) := by
    rw [← expand_length, rle_expand_encode]; rfl
  have hdiv : ¬ ((o.count : Int) > INT_MAX / (sz : Int)) := by
    have : (o.count : Int) ≤ INT_MAX / (sz : Int) :=
      Int.le_ediv_of_mul_le (by omega) (by rw [Int.mul_comm]; omega)
    omega
  simp only [getValues, hsz, List.length_map, Obj.count, ne_eq, not_true_eq_false, if_false, htot, hdiv,
    zip_fst_snd, rle_expand_encode]
  have hcap' : ¬ ((sz : Int) * (o.elems.length : Int) > (c.cap : Int)) := by
    simp only [Obj.count] at hcap; omega
  have hdiv' : ¬ ((o.elems.length : Int) > INT_MAX / (sz : Int)) := by simpa [Obj.count] using hdiv
  simp [hcap', hdiv', Obj.count]

/-! ### plain and default -/

theorem plain_lossless (c : Cfg) (o : Obj) (va : VA) (h : createPlain o = .ok va) :
    getValues c va = .ok o ∧ va.rowCnt = o.count := by
  unfold createPlain at h
  split at h
  · simp at h; subst h; exact ⟨rfl, rfl⟩
  · split at h
    · simp at h
    · simp at h; subst h; exact ⟨rfl, rfl⟩

/-- the default choice: bit-packed for booleans, plain otherwise -/
theorem dflt_choice (o : Obj) : createDflt o = if o.tid = 1 then createBit o else createPlain o := rfl

/-- an unknown encoding id is refused with the unknown-encoding status and no array -/
theorem unknown_encoding (enc : Int) (o : Obj) (h : enc ≠ 1 ∧ enc ≠ 2 ∧ enc ≠ 3) :
    vaCreate enc o = .error .unknownEncoding := by
  simp [vaCreate, h.1, h.2.1, h.2.2]

/-! ### bit packing -/

theorem byte_bits8 : ∀ b0 b1 b2 b3 b4 b5 b6 b7 : Bool,
    bitsOfByte (byteOfBits [b0, b1, b2, b3, b4, b5, b6, b7]) = [b0, b1, b2, b3, b4, b5, b6, b7] := by
  decide

theorem bits_of_byte_of_bits (g : List Bool) (h : g.length ≤ 8) :
    bitsOfByte (byteOfBits g) = g ++ List.replicate (8 - g.length) false := by
  have hp : (g ++ List.replicate (8 - g.length) false).length = 8 := by simp; omega
  have e : byteOfBits g = byteOfBits (g ++ List.replicate (8 - g.length) false) := by
    simp only [byteOfBits, hp, Nat.sub_self, List.replicate_zero, List.append_nil]
  rw [e]
  generalize g ++ List.replicate (8 - g.length) false = p at hp
  match p, hp with
  | [b0, b1, b2, b3, b4, b5, b6, b7], _ => exact byte_bits8 b0 b1 b2 b3 b4 b5 b6 b7

/-- the bytes of a packed array, read MSB first, are the bits followed by zero padding -/
theorem unpack_pack_all (bs : List Bool) :
    (packBits bs).flatMap bitsOfByte = bs ++ List.replicate ((8 - bs.length % 8) % 8) false := by
  generalize hn : bs.length = n
  induction n using Nat.strongRecOn generalizing bs with
  | _ n ih =>
    subst hn
    cases bs with
    | nil => simp [packBits]
    | cons b rest =>
      rw [packBits]
      simp only [List.flatMap_cons]
      by_cases hlen : (b :: rest).length ≥ 8
      · have ht : ((b :: rest).take 8).length = 8 := by
          rw [List.length_take]; omega
        rw [bits_of_byte_of_bits _ (by omega), ht]
        simp only [Nat.sub_self, List.replicate_zero, List.append_nil]
        have hdl : ((b :: rest).drop 8).length = (b :: rest).length - 8 := List.length_drop
        have hd : ((b :: rest).drop 8).length < (b :: rest).length := by rw [hdl]; omega
        rw [ih _ hd _ rfl]
        have hm : ((b :: rest).drop 8).length % 8 = (b :: rest).length % 8 := by
          rw [hdl]; omega
        rw [hm, ← List.append_assoc, List.take_append_drop]
      · have hlt : (b :: rest).length < 8 := by omega
        have ht : (b :: rest).take 8 = b :: rest := List.take_of_length_le (by omega)
        have hd : (b :: rest).drop 8 = [] := List.drop_of_length_le (by omega)
        rw [ht, hd, bits_of_byte_of_bits _ (by omega)]
        simp only [packBits, List.flatMap_nil, List.append_nil]
        have hmod : (b :: rest).length % 8 = (b :: rest).length := Nat.mod_eq_of_lt hlt
        have hpos : 0 < (b :: rest).length := by simp
        have : (8 - (b :: rest).length % 8) % 8 = 8 - (b :: rest).length := by rw [hmod]; omega
        rw [this]

/-- unpacking `bs.length` rows from the packed bits gives the bits back -/
theorem unpack_pack (bs : List Bool) : unpackBits bs.length (packBits bs) = bs := by
  simp [unpackBits, unpack_pack_all]

theorem packBits_length (bs : List Bool) : (packBits bs).length * 8 ≥ bs.length := by
  have := congrArg List.length (unpack_pack_all bs)
  simp only [List.length_flatMap, List.length_append, List.length_replicate] at this
  have h8 : ∀ x ∈ (packBits bs), (bitsOfByte x).length = 8 := by intro x _; simp [bitsOfByte]
  have : ((packBits bs).map (fun x => (bitsOfByte x).length)).sum = (packBits bs).length * 8 := by
    generalize packBits bs = l at h8
    induction l with
    | nil => rfl
    | cons x xs ih =>
      simp only [List.map_cons, List.sum_cons, List.length_cons]
      rw [h8 x (by simp), ih (fun y hy => h8 y (by simp [hy]))]; omega
  omega

/-- bit-packing maps each element to zero / non-zero, keeps the order and the row count -/
theorem bit_values (c : Cfg) (o : Obj) (va : VA) (hfix : isArr o.tid = false) (h : createBit o = .ok va)
    (hcap : (o.count : Int) ≤ c.cap) :
    getValues c va = .ok ⟨1, o.elems.map (fun e => boolByte (!isZeroElem e))⟩ ∧ va.rowCnt = o.count := by
  unfold createBit at h
  simp only [hfix, Bool.false_eq_true, if_false] at h
  split at h
  · simp at h
  · simp at h; subst h
    refine ⟨?_, rfl⟩
    have hl : (o.elems.map (fun e => !isZeroElem e)).length = o.count := by simp [Obj.count]
    have h1 : ¬ ((o.count : Int) < 0 ∨ (o.count : Int) > c.cap) := by omega
    have h2 : ¬ ((packBits (o.elems.map (fun e => !isZeroElem e))).length * 8 < (o.count : Int).toNat) := by
      have := packBits_length (o.elems.map (fun e => !isZeroElem e))
      rw [hl] at this; simp; omega
    simp only [getValues, h1, if_false, h2]
    have : (o.count : Int).toNat = (o.elems.map (fun e => !isZeroElem e)).length := by simp [hl]
    rw [this, unpack_pack]
    simp

/-- hence bit-packing is lossless on arrays whose elements are the canonical 0 / 1 bytes -/
theorem bit_lossless_bool (c : Cfg) (o : Obj) (va : VA) (ht : o.tid = 1)
    (h01 : ∀ e ∈ o.elems, e = [0] ∨ e = [1]) (h : createBit o = .ok va) (hcap : (o.count : Int) ≤ c.cap) :
    getValues c va = .ok o := by
  have hfix : isArr o.tid = false := by rw [ht]; rfl
  rw [(bit_values c o va hfix h hcap).1]
  cases o with | mk tid elems =>
  simp only at ht h01 ⊢
  subst ht
  congr 2
  have : ∀ l : List Bytes, (∀ e ∈ l, e = [0] ∨ e = [1]) → l.map (fun e => boolByte (!isZeroElem e)) = l := by
    intro l hl
    induction l with
    | nil => rfl
    | cons x xs ih =>
      simp only [List.map_cons]
      rw [ih (fun e he => hl e (by simp [he]))]
      rcases hl x (by simp) with h | h <;> subst h <;> rfl
  exact this elems h01

/-! ### the same after the encoded array has been written to a stream and read back -/

/-- writing any encoded array and reading the bytes back returns the very same encoded array
    (whatever follows in the stream), so decoding after write + read gives what decoding before
    gave: the three statements above also hold through the stream -/
theorem stream_roundtrip (c : Cfg) (va : VA) (hf : va.Fits c) (hw : va.Writable) :
    ∃ bytes, Emits (writeVA c va) bytes ∧ Reads (readVA c) bytes va ∧ Reads (skipVA c) bytes () :=
  ⟨Spec.va c va, emits_va c va hw, reads_va c va hf, reads_skipVA c va hf⟩

theorem stream_roundtrip_values (c : Cfg) (va : VA) (hf : va.Fits c) (hw : va.Writable) (rest : Bytes) :
    ∃ bytes p, Emits (writeVA c va) bytes ∧ readVA c (bytes ++ rest).toArray 0 = .ok (va, p) ∧ p = bytes.length := by
  obtain ⟨bytes, h1, h2, _⟩ := stream_roundtrip c va hf hw
  have := h2 [] rest
  simp only [List.nil_append, List.length_nil, Nat.zero_add] at this
  exact ⟨bytes, bytes.length, h1, this, rfl⟩

/-- non-vacuity, including the empty array that motivated the repair of the encoder -/
example : createRle ⟨2, []⟩ = .ok (.rle 0 [] ⟨2, []⟩) ∧
    createRle ⟨2, [[1,0,0,0],[1,0,0,0],[2,0,0,0]]⟩ = .ok (.rle 3 [1, 0] ⟨2, [[1,0,0,0],[2,0,0,0]]⟩) := ⟨rfl, rfl⟩
example : packBits [true, false, true] = [0xa0] := by
  simp [packBits, byteOfBits, bitsVal]

end Sbdf.C02
