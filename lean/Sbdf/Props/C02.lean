import Sbdf.Slice
namespace Sbdf.C02
end Sbdf.C02
