/-
  C13 — Write failures are never swallowed.
  Generic lemmas about `emit` (Sbdf/Lemmas/W.lean) instantiated on every writer entry point.
-/
import Sbdf.Lemmas.W
namespace Sbdf.C13
open WOut

/-! ### every model writer only has call sites that report a short write -/

theorem sound_int32 (c : Cfg) (v : Int) : Sound (writeInt32 c v) := sound_one _ _ (by decide)
theorem sound_int8 (v : Nat) : Sound (writeInt8 v) := sound_one _ _ (by decide)
theorem sound_write7 (v : Int) : Sound (write7 v) := by
  intro c hc; simp [write7] at hc; obtain ⟨b, _, rfl⟩ := hc; simp
theorem sound_string (c : Cfg) (s : Bytes) : Sound (writeString c s) :=
  sound_append (sound_int32 c _) (sound_one _ _ (by decide))
theorem sound_sec (id : Nat) : Sound (secWrite id) :=
  sound_append (sound_append (sound_int8 _) (sound_int8 _)) (sound_int8 _)
theorem sound_fh : Sound fhWrite := sound_append (sound_append (sound_sec _) (sound_int8 _)) (sound_int8 _)

theorem sound_elem (c : Cfg) (p : Bool) (e : Bytes) : Sound (writeElem c p e) := by
  unfold writeElem
  apply sound_append
  · split; exact sound_write7 _; exact sound_int32 c _
  · split; exact sound_nil; exact sound_one _ _ (by decide)

theorem sound_objects (c : Cfg) (o : Obj) (p : Bool) : Sound (writeObjects c o p) := by
  unfold writeObjects
  split
  · apply sound_append
    · split; exact sound_int32 c _; exact sound_nil
    · apply sound_seqAll; intro w hw; simp at hw; obtain ⟨e, _, rfl⟩ := hw; exact sound_elem c p e
  · split
    · exact sound_err _
    · exact sound_one _ _ (by decide)

theorem sound_objArr (c : Cfg) (o : Obj) : Sound (writeObjArr c o) :=
  sound_append (sound_int32 c _) (sound_objects c o true)
theorem sound_obj (c : Cfg) (o : Obj) : Sound (writeObj c o) := sound_objects c o false

theorem sound_va (c : Cfg) (va : VA) : Sound (writeVA c va) := by
  cases va with
  | plain o => exact sound_append (sound_append (sound_int8 _) (sound_int8 _)) (sound_objArr c o)
  | rle rows runs vals =>
    exact sound_append (sound_append (sound_append (sound_append (sound_int8 _) (sound_int8 _))
      (sound_int32 c _)) (sound_objArr c _)) (sound_objArr c _)
  | bit vt rows bits =>
    exact sound_append (sound_append (sound_append (sound_int8 _) (sound_int8 _)) (sound_int32 c _))
      (sound_one _ _ (by decide))

theorem sound_cs (c : Cfg) (cs : CS) : Sound (writeCS c cs) := by
  unfold writeCS
  refine sound_append (sound_append (sound_append (sound_sec _) (sound_va c _)) (sound_int32 c _)) ?_
  apply sound_seqAll; intro w hw; simp at hw; obtain ⟨a, b, _, rfl⟩ := hw
  exact sound_append (sound_string c _) (sound_va c _)

theorem sound_ts (c : Cfg) (ts : TS) : Sound (writeTS c ts) := by
  unfold writeTS
  refine sound_append (sound_append (sound_sec _) (sound_int32 c _)) ?_
  apply sound_seqAll; intro w hw; simp at hw; obtain ⟨o, _, rfl⟩ := hw
  cases o with
  | none => exact sound_err _
  | some cs => exact sound_cs c cs

theorem sound_end : Sound writeTSEnd := sound_sec _

theorem sound_optObj (c : Cfg) (o : Option Obj) : Sound (writeOptObj c o) := by
  cases o with
  | none => exact sound_int8 _
  | some o => exact sound_append (sound_int8 _) (sound_obj c o)

theorem sound_tm (c : Cfg) (t : TM) : Sound (writeTM c t) := by
  unfold writeTM
  refine sound_append (sound_append (sound_append (sound_append (sound_sec _) (sound_int32 c _)) ?_) (sound_int32 c _)) ?_
  · apply sound_seqAll; intro w hw; simp at hw; obtain ⟨e, _, rfl⟩ := hw
    unfold writeTableEntry
    split
    · exact sound_err _
    · exact sound_append (sound_append (sound_append (sound_append (sound_string c _) (sound_int8 _)) (sound_int8 _))
        (sound_obj c _)) (sound_optObj c _)
  · split
    · exact sound_err _
    · refine sound_append (sound_append (sound_int32 c _) ?_) ?_
      · apply sound_seqAll; intro w hw; simp at hw; obtain ⟨e, _, rfl⟩ := hw
        exact sound_append (sound_append (sound_string c _) (sound_int8 _)) (sound_optObj c _)
      · apply sound_seqAll; intro w hw; simp at hw; obtain ⟨col, _, rfl⟩ := hw
        unfold writeColumnFlags
        apply sound_seqAll; intro w hw; simp at hw; obtain ⟨k, _, rfl⟩ := hw
        split
        · split
          · exact sound_append (sound_int8 _) (sound_obj c _)
          · exact sound_err _
        · exact sound_int8 _

/-! ### the property, per call -/

/-- A writer call never reports success for data the stream did not accept: if the call returns
    OK, the bytes accepted by the stream are all the bytes of the call. -/
theorem ok_means_complete (w : WOut) (hs : Sound w) (b : Nat) (h : (emit (some b) w).1 = .ok) :
    (emit (some b) w).2 = w.bytes ∧ w.bytes.length ≤ b ∧ w.st = .ok := by
  unfold emit at h ⊢
  by_cases hc : (emitChunks (some b) w.chunks).1 = .ok
  · simp only [hc, if_true] at h ⊢
    have := emitChunks_ok_complete b w.chunks hs hc
    exact ⟨this.1, this.2, h⟩
  · simp only [hc, if_false] at h

/-- If the stream starts refusing bytes inside a call, that call returns a non-OK status. -/
theorem short_fails (w : WOut) (hs : Sound w) (b : Nat) (hb : b < w.bytes.length) :
    (emit (some b) w).1 ≠ .ok := by
  intro h
  have := (ok_means_complete w hs b h).2.1
  omega

/-- what the stream accepted is a prefix of the call's bytes, never longer than the budget -/
theorem accepted_prefix (w : WOut) (b : Nat) :
    ∃ t, w.bytes = (emitChunks (some b) w.chunks).2 ++ t ∧ (emitChunks (some b) w.chunks).2.length ≤ b :=
  emitChunks_prefix b w.chunks

/-! ### the property, for the sequence of calls a table writer makes -/

/-- the calls of `fw`: one shared stream; after a refusal it keeps refusing (budget 0) -/
def runCalls : Nat → List WOut → List Status
  | _, [] => []
  | b, w :: ws =>
    let r := emit (some b) w
    let refused := (emitChunks (some b) w.chunks).1 ≠ .ok
    r.1 :: runCalls (if refused then 0 else b - r.2.length) ws

/-- every writer entry point emits at least one byte before anything else can go wrong -/
def NonEmptyFirst (w : WOut) : Prop := ∃ c cs, w.chunks = c :: cs ∧ c.bytes ≠ []

theorem exhausted_fails (w : WOut) (hs : Sound w) (hne : NonEmptyFirst w) : (emit (some 0) w).1 ≠ .ok := by
  obtain ⟨c, cs, hc, hb⟩ := hne
  unfold emit
  have : (emitChunks (some 0) w.chunks).1 = c.onFail := by
    rw [hc]; simp only [emitChunks]
    have : ¬ c.bytes.length ≤ 0 := by
      intro h; exact hb (List.length_eq_zero_iff.mp (Nat.le_zero.mp h))
    simp [this]
  have hne : c.onFail ≠ .ok := hs c (by rw [hc]; simp)
  simp [this, hne]

/-- Once the stream has refused, every later call fails. -/
theorem all_later_fail (ws : List WOut) (hs : ∀ w ∈ ws, Sound w) (hne : ∀ w ∈ ws, NonEmptyFirst w) :
    ∀ s ∈ runCalls 0 ws, s ≠ .ok := by
  induction ws with
  | nil => intro s h; simp [runCalls] at h
  | cons w ws ih =>
    intro s h
    simp only [runCalls, List.mem_cons] at h
    rcases h with h | h
    · rw [h]; exact exhausted_fails w (hs w (by simp)) (hne w (by simp))
    · have hz : (if (emitChunks (some 0) w.chunks).1 ≠ .ok then 0 else 0 - (emit (some 0) w).2.length) = 0 := by
        split <;> simp
      rw [hz] at h
      exact ih (fun x hx => hs x (by simp [hx])) (fun x hx => hne x (by simp [hx])) s h

/-- For every list of writer calls and every budget smaller than their total output: some call
    fails, and from the first failing call on every call fails. -/
theorem failure_is_sticky (ws : List WOut) (hs : ∀ w ∈ ws, Sound w) (hne : ∀ w ∈ ws, NonEmptyFirst w)
    (hst : ∀ w ∈ ws, w.st = .ok)
    (b : Nat) (hb : b < (ws.map (fun w => w.bytes.length)).sum) :
    ∃ pre post, runCalls b ws = pre ++ post ∧ (∀ s ∈ pre, s = .ok) ∧ post ≠ [] ∧ ∀ s ∈ post, s ≠ .ok := by
  induction ws generalizing b with
  | nil => simp at hb
  | cons w ws ih =>
    simp only [runCalls]
    by_cases hok : (emit (some b) w).1 = .ok
    · -- this call succeeded completely: recurse with the reduced budget
      have hc := ok_means_complete w (hs w (by simp)) b hok
      have hnr : ¬ ((emitChunks (some b) w.chunks).1 ≠ .ok) := by
        intro h; unfold emit at hok; simp [h] at hok
      simp only [hnr, if_false]
      simp only [List.map_cons, List.sum_cons] at hb
      have hb' : b - (emit (some b) w).2.length < (ws.map (fun w => w.bytes.length)).sum := by
        rw [hc.1]; omega
      obtain ⟨pre, post, h1, h2, h3, h4⟩ := ih (fun x hx => hs x (by simp [hx])) (fun x hx => hne x (by simp [hx]))
        (fun x hx => hst x (by simp [hx])) _ hb'
      refine ⟨(emit (some b) w).1 :: pre, post, by rw [h1]; rfl, ?_, h3, h4⟩
      intro s hs'; simp at hs'; rcases hs' with h | h
      · rw [h, hok]
      · exact h2 s h
    · refine ⟨[], _, rfl, by simp, by simp, ?_⟩
      intro s hs'
      simp only [List.mem_cons] at hs'
      rcases hs' with h | h
      · rw [h]; exact hok
      · have hr : (emitChunks (some b) w.chunks).1 ≠ .ok := by
          intro hc
          apply hok
          unfold emit
          simp [hc, hst w (by simp)]
        have hz : (if (emitChunks (some b) w.chunks).1 ≠ .ok then 0 else b - (emit (some b) w).2.length) = 0 := by
          rw [if_pos hr]
        rw [hz] at h
        exact all_later_fail ws (fun x hx => hs x (by simp [hx])) (fun x hx => hne x (by simp [hx])) s h

/-! ### instantiation: the calls of a table writer -/

theorem nonEmpty_append {a b : WOut} (ha : NonEmptyFirst a) : NonEmptyFirst (a ++ b) := by
  by_cases h : a.st = .ok
  · obtain ⟨c, cs, hc, hb⟩ := ha
    exact ⟨c, cs ++ b.chunks, by rw [(append_ok h).1, hc]; rfl, hb⟩
  · rw [append_err h]; exact ha

theorem nonEmpty_int8 (v : Nat) : NonEmptyFirst (writeInt8 v) := ⟨⟨[UInt8.ofNat v], .io⟩, [], rfl, by simp⟩

theorem nonEmpty_sec (id : Nat) : NonEmptyFirst (secWrite id) :=
  nonEmpty_append (nonEmpty_append (nonEmpty_int8 _))

theorem nonEmpty_fh : NonEmptyFirst fhWrite := nonEmpty_append (nonEmpty_append (nonEmpty_sec _))

theorem nonEmpty_end : NonEmptyFirst writeTSEnd := nonEmpty_sec _

theorem nonEmpty_tm (c : Cfg) (t : TM) : NonEmptyFirst (writeTM c t) := by
  unfold writeTM
  exact nonEmpty_append (nonEmpty_append (nonEmpty_append (nonEmpty_append (nonEmpty_sec _))))

theorem nonEmpty_ts (c : Cfg) (ts : TS) : NonEmptyFirst (writeTS c ts) := by
  unfold writeTS
  exact nonEmpty_append (nonEmpty_append (nonEmpty_sec _))

/-- the calls a table writer makes, in order -/
def tableCalls (c : Cfg) (t : Table) : List WOut :=
  [fhWrite, writeTM c t.tm] ++ t.slices.map (writeTSOf c t.tm) ++ [writeTSEnd]

theorem sound_tsOf (c : Cfg) (tm : TM) (ts : TS) : Sound (writeTSOf c tm ts) := by
  unfold writeTSOf; split
  · exact sound_err _
  · exact sound_ts c ts

/-- a slice the writer accepts (column count of its metadata) starts by writing its marker -/
theorem nonEmpty_tsOf (c : Cfg) (tm : TM) (ts : TS) (h : (writeTSOf c tm ts).st = .ok) :
    NonEmptyFirst (writeTSOf c tm ts) := by
  unfold writeTSOf at h ⊢
  split
  · rename_i hne; simp [hne, WOut.err] at h
  · exact nonEmpty_ts c ts

theorem tableCalls_sound (c : Cfg) (t : Table) : ∀ w ∈ tableCalls c t, Sound w := by
  intro w hw
  simp only [tableCalls, List.cons_append, List.nil_append, List.mem_cons, List.mem_append, List.mem_map,
    List.not_mem_nil, or_false] at hw
  rcases hw with rfl | rfl | ⟨ts, _, rfl⟩ | rfl
  · exact sound_fh
  · exact sound_tm c _
  · exact sound_tsOf c _ _
  · exact sound_end

theorem tableCalls_nonEmpty (c : Cfg) (t : Table) (hrep : ∀ w ∈ tableCalls c t, w.st = .ok) :
    ∀ w ∈ tableCalls c t, NonEmptyFirst w := by
  intro w hw
  have hst := hrep w hw
  simp only [tableCalls, List.cons_append, List.nil_append, List.mem_cons, List.mem_append, List.mem_map,
    List.not_mem_nil, or_false] at hw
  rcases hw with rfl | rfl | ⟨ts, _, rfl⟩ | rfl
  · exact nonEmpty_fh
  · exact nonEmpty_tm c _
  · exact nonEmpty_tsOf c _ _ hst
  · exact nonEmpty_end

/-- C13 for tables: for every table the writers can represent and every offset `b` below the
    length of its encoding at which the stream starts refusing bytes, the call in progress
    returns a non-OK status and so does every later call (header, table metadata, every slice,
    end marker). -/
theorem table_write_faults (c : Cfg) (t : Table) (hrep : ∀ w ∈ tableCalls c t, w.st = .ok) (b : Nat)
    (hb : b < ((tableCalls c t).map (fun w => w.bytes.length)).sum) :
    ∃ pre post, runCalls b (tableCalls c t) = pre ++ post ∧ (∀ s ∈ pre, s = .ok) ∧ post ≠ [] ∧
      ∀ s ∈ post, s ≠ .ok :=
  failure_is_sticky _ (tableCalls_sound c t) (tableCalls_nonEmpty c t hrep) hrep b hb

/-- non-vacuity: a writer with a short budget -/
example : (emit (some 2) fhWrite).1 = .io ∧ (emit (some 2) fhWrite).2 = [0xdf, 0x5b] ∧
    (emit (some 5) fhWrite).1 = .ok := by decide

/-! ### behind stdio buffering (repair F27)

The theorems above are about a stream that refuses bytes from some offset on and keeps refusing —
what the `fwrite` shim of the correspondence provides.  A real `FILE` sits in front of the device
with a buffer: what fits the buffer is reported as written, and when a flush fails stdio drops the
buffer and sets the error indicator.  A writer that looks only at the count `fwrite` reports can
then say OK right after a failure (the small write fits the emptied buffer), and on a
line-buffered stream even for the write during which the device refused.  Since the repair every
writer also consults the indicator; the small model below shows that this is enough for every
buffer size, device limit and sequence of writes, and exhibits the old behaviour.  (Tie:
`harness/realsink.c` — `/dev/full` and a pipe nobody reads behind real stdio.) -/
/-- a stdio stream in front of a device that accepts `room` more bytes: `buf` bytes are held
    back in the buffer of capacity `cap`, `err` is the stream's error indicator -/
structure BufSt where
  cap : Nat
  room : Nat
  buf : Nat
  err : Bool
  /-- line buffered: a flush triggered by a newline inside the data fails *after* `fwrite` has
      counted the data as written — the full count is reported although the indicator is set -/
  quiet : Bool := false
  deriving Repr, DecidableEq

/-- `fwrite` of `n` bytes as stdio does it: what fits the buffer is absorbed and reported as
    written; otherwise buffer and data go to the device, and if the device does not take all of it
    the buffer is dropped, the error indicator is set and a short count is reported -/
def bufFwrite (s : BufSt) (n : Nat) : BufSt × Bool :=
  if s.buf + n ≤ s.cap then ({ s with buf := s.buf + n }, true)
  else if s.buf + n ≤ s.room then ({ s with buf := 0, room := s.room - (s.buf + n) }, true)
  else ({ s with buf := 0, room := 0, err := true }, s.quiet)

/-- a writer of the library before the repair: only the count `fwrite` reports is looked at -/
def writeOld (s : BufSt) (n : Nat) : BufSt × Bool := bufFwrite s n

/-- ... and since the repair (F27): the error indicator is consulted as well -/
def writeNew (s : BufSt) (n : Nat) : BufSt × Bool :=
  let r := bufFwrite s n
  (r.1, r.2 && !r.1.err)

def bufRun (w : BufSt → Nat → BufSt × Bool) : BufSt → List Nat → List Bool
  | _, [] => []
  | s, n :: ns => (w s n).2 :: bufRun w (w s n).1 ns

theorem buf_err_sticky (s : BufSt) (n : Nat) (h : s.err = true) : (bufFwrite s n).1.err = true := by
  unfold bufFwrite; split
  · exact h
  · split
    · exact h
    · rfl

theorem buf_fail_sets_err (s : BufSt) (n : Nat) (h : (writeNew s n).2 = false) : (writeNew s n).1.err = true := by
  unfold writeNew at *
  simp only [Bool.and_eq_false_iff] at h
  rcases h with h | h
  · unfold bufFwrite at h ⊢
    split at h
    · simp at h
    · split at h
      · simp at h
      · simp only; split
        · rename_i h1 _ _; omega
        · rfl
  · simpa using h

/-- since the repair: once a write has failed, every later write to that stream fails, for every
    buffer size, every device limit and every sequence of write sizes -/
theorem buf_new_sticky (s : BufSt) (h : s.err = true) (ns : List Nat) : ∀ b ∈ bufRun writeNew s ns, b = false := by
  induction ns generalizing s with
  | nil => intro b hb; simp [bufRun] at hb
  | cons n ns ih =>
    intro b hb
    simp only [bufRun, List.mem_cons] at hb
    have he : (writeNew s n).1.err = true := buf_err_sticky s n h
    rcases hb with rfl | hb
    · have he' : (bufFwrite s n).1.err = true := he
      simp [writeNew, he']
    · exact ih _ he b hb

theorem buf_no_ok_after_failure (s : BufSt) (n : Nat) (ns : List Nat) (h : (writeNew s n).2 = false) :
    ∀ b ∈ bufRun writeNew (writeNew s n).1 ns, b = false :=
  buf_new_sticky _ (buf_fail_sets_err s n h) ns

/-- before the repair: a 64-byte buffer in front of a full device — the write that overflows the
    buffer fails, the next small one is absorbed by the emptied buffer and reports success -/
example : bufRun writeOld ⟨64, 0, 0, false, false⟩ [5, 100, 3, 3] = [true, false, true, true] := by decide
example : bufRun writeNew ⟨64, 0, 0, false, false⟩ [5, 100, 3, 3] = [true, false, false, false] := by decide

/-- whatever count `fwrite` reports, a write during which the device refused bytes is reported
    as failed by the call in progress (the line-buffered case) -/
theorem buf_reports_in_progress (s : BufSt) (n : Nat) (h : (bufFwrite s n).1.err = true) : (writeNew s n).2 = false := by
  simp [writeNew, h]

/-- before the repair the line-buffered stream swallowed it: every call says OK -/
example : bufRun writeOld ⟨64, 0, 0, false, true⟩ [5, 100, 3] = [true, true, true] := by decide
example : bufRun writeNew ⟨64, 0, 0, false, true⟩ [5, 100, 3] = [true, false, false] := by decide



end Sbdf.C13
