import Sbdf.Slice
namespace Sbdf.C13
end Sbdf.C13
