/-
  C07 — Skipping and column-subset reads are equivalent to full reads.
  `Reads p bs a` (Sbdf/Lemmas/P.lean) says: in any context — any bytes before, ANY bytes after —
  `p` returns `a` and stops exactly after `bs`.  So "skip leaves the stream exactly where a full
  read would, with the same status" is `Reads skip bs ()` next to `Reads read bs v` for the same
  `bs`, and "each section reader consumes exactly the bytes its writer produced, whatever follows"
  is the shape of every statement below.
-/
import Sbdf.Lemmas.ReadsTM
import Sbdf.Props.C04
import Sbdf.Gen.Surface
namespace Sbdf.C07
open Spec

/-- value arrays: read and skip consume exactly the encoding, for every encoding -/
theorem va_read_and_skip (c : Cfg) (va : VA) (h : va.Fits c) :
    Reads (readVA c) (Spec.va c va) va ∧ Reads (skipVA c) (Spec.va c va) () :=
  ⟨reads_va c va h, reads_skipVA c va h⟩

/-- packed and unpacked objects: the array skip uses the byte-size header the writer computed -/
theorem obj_read_and_skip (c : Cfg) (o : Obj) (h : o.Fits c) (hbs : isArr o.tid = true → isInt32 (byteSize o.elems)) :
    Reads (readObjArr c o.tid) (objArr c o) o ∧ Reads (skipObjArr c o.tid) (objArr c o) () :=
  ⟨reads_objArr c o h hbs, reads_skipObjArr c o h hbs⟩

/-- column slices -/
theorem cs_read_and_skip (c : Cfg) (x : CS) (h : x.Fits c) :
    Reads (readCS c) (Spec.cs c x) x ∧ Reads (skipCS c) (Spec.cs c x) () :=
  ⟨reads_cs c x h, reads_skipCS c x h⟩

/-- strings -/
theorem string_read_and_skip (c : Cfg) (s : Bytes) (h : fitsStr c s.length) :
    Reads (readString c) (str c s) s ∧ Reads (skipString c) (str c s) () :=
  ⟨reads_string c s h, reads_skipString c s (isInt32_of_fitsStr h)⟩

/-- table slices: a read with a column subset returns the selected columns identical to the full
    read and the others absent, and ends at the same position; skipping the slice ends there too -/
theorem ts_subset (c : Cfg) (cols : List CS) (h : TSFits c cols) (sub : Option (List Bool)) :
    Reads (readTS c cols.length sub) (Spec.ts c cols) (some ⟨maskFrom sub 0 cols⟩) ∧
    Reads (readTS c cols.length none) (Spec.ts c cols) (some ⟨cols.map some⟩) ∧
    Reads (skipTS c cols.length) (Spec.ts c cols) true := by
  refine ⟨reads_ts c sub cols h, ?_, ?_⟩
  · have := reads_ts c none cols h; rwa [maskFrom_none] at this
  · unfold skipTS
    simp only [P.bind_def]
    have := Reads.bind (reads_ts c (some (List.replicate cols.length false)) cols h)
      (f := fun r => P.pure r.isSome) (Reads.pure _)
    simpa using this

/-- the selected columns of a subset read are exactly those of the full read -/
theorem mask_selected (sub : Option (List Bool)) (cols : List CS) (i : Nat) (hi : i < cols.length) :
    (maskFrom sub 0 cols)[i]? = some (if wantCol sub i then some cols[i] else none) := by
  suffices h : ∀ (k : Nat) (l : List CS) (j : Nat) (hj : j < l.length),
      (maskFrom sub k l)[j]? = some (if wantCol sub (k + j) then some l[j] else none) by
    simpa using h 0 cols i hi
  intro k l
  induction l generalizing k with
  | nil => intro j hj; simp at hj
  | cons x xs ih =>
    intro j hj
    cases j with
    | zero => simp [maskFrom]
    | succ j =>
      simp only [maskFrom, List.getElem?_cons_succ, List.getElem_cons_succ]
      have := ih (k + 1) j (by simpa using hj)
      rw [this]
      have e : k + 1 + j = k + (j + 1) := by omega
      rw [e]

/-- whole file with a subset: same end-of-table position as the full read (corollary of C04) -/
theorem file_subset_same_end (c : Cfg) (p : PhysTM) (cols : List Md) (slices : List (List CS))
    (hp : p.Ok c cols) (hn : ∀ s ∈ slices, s.length = p.cols.length) (hf : ∀ s ∈ slices, TSFits c s)
    (sub : Option (List Bool)) (rest : Bytes) (fuel : Nat) (hfuel : slices.length < fuel) :
    (readFileF c sub fuel (C04.file c p slices ++ rest).toArray).last =
    (readFileF c none fuel (C04.file c p slices ++ rest).toArray).last := by
  rw [C04.reads_wellformed c p cols slices hp hn hf sub rest fuel hfuel,
      C04.reads_wellformed c p cols slices hp hn hf none rest fuel hfuel]

/-! ### streams that cannot seek (repair F25)

`sbdf_skip_bytes` moves with `fseek` and, where the stream refuses (`ESPIPE`: a pipe, a socket,
stdin), reads the bytes and drops them.  The model carries the kind of stream in the configuration
(`Cfg.pipe`); every theorem above is stated for an arbitrary configuration, so skipping a well-formed
section ends where the full read ends on both kinds of stream.  Below: the two ways of moving agree
wherever the stream holds the bytes, and differ only on a truncated stream (the seek moves past
the end and the next read fails; the read-and-drop fails at once). -/

theorem discard_eq_seek (n : Int) (h0 : 0 ≤ n) (d : Array UInt8) (pos : Nat) (h : pos + n.toNat ≤ d.size) :
    discard n d pos = seek n d pos := by
  unfold discard seek readN
  have e : ((pos : Int) + n).toNat = pos + n.toNat := by omega
  have hp : 0 ≤ (pos : Int) + n := by omega
  by_cases hn : n.toNat = 0
  · simp [P.bind, P.pure, hn, hp, e]
  · simp [P.bind, P.pure, hn, h, hp, e]

/-- the kind of stream does not matter while the bytes are there -/
theorem skipBytes_pipe_irrelevant (c c' : Cfg) (n : Int) (h0 : 0 ≤ n) (d : Array UInt8) (pos : Nat)
    (h : pos + n.toNat ≤ d.size) : skipBytes c n d pos = skipBytes c' n d pos := by
  unfold skipBytes
  split <;> split <;> first | rfl | exact discard_eq_seek n h0 d pos h | exact (discard_eq_seek n h0 d pos h).symm

/-- both ways consume exactly the bytes skipped, whatever follows -/
theorem skipBytes_reads (c : Cfg) (bs : Bytes) : Reads (skipBytes c (bs.length : Int)) bs () :=
  Reads.skipBytesExact c bs _ rfl

/-- on a truncated stream that cannot seek the skip fails with an I/O error at once -/
theorem discard_truncated (n : Int) (hn : 0 < n) (d : Array UInt8) (pos : Nat) (h : d.size < pos + n.toNat) :
    discard n d pos = .error (.st .io) := by
  unfold discard readN
  have h1 : ¬ n.toNat = 0 := by omega
  have h2 : ¬ pos + n.toNat ≤ d.size := by omega
  simp [P.bind, h1, h2]

/-- the fallback as the C code runs it: blocks of at most 4096 bytes until nothing is left -/
def discardLoop : Nat → P Unit
  | 0 => P.pure ()
  | n + 1 => fun d pos =>
    let k := min (n + 1) 4096
    match readN k d pos with
    | .ok (_, pos') => discardLoop (n + 1 - k) d pos'
    | .error e => .error e
termination_by n => n
decreasing_by omega

theorem discard_pos (m : Nat) (hm : m ≠ 0) (d : Array UInt8) (pos : Nat) :
    discard (m : Int) d pos = if pos + m ≤ d.size then .ok ((), pos + m) else .error (.st .io) := by
  simp only [discard, P.bind, readN, Int.toNat_natCast, hm, if_false, P.pure]
  by_cases hc : pos + m ≤ d.size <;> simp [hc]

/-- dropping block by block is dropping at once: the same end position when the stream holds the
    bytes, the same I/O error when it does not — whatever the block size and the distance
    (in particular distances that are whole multiples of the block) -/
theorem discardLoop_eq (n : Nat) (d : Array UInt8) (pos : Nat) :
    discardLoop n d pos = discard (n : Int) d pos := by
  induction n using Nat.strongRecOn generalizing pos with
  | _ n ih =>
    cases n with
    | zero => simp [discardLoop, discard, readN, P.bind, P.pure]
    | succ n =>
      rw [discardLoop]
      simp only
      have hk1 : 0 < min (n + 1) 4096 := by omega
      have hk2 : min (n + 1) 4096 ≤ n + 1 := by omega
      generalize hk : min (n + 1) 4096 = k at hk1 hk2
      rw [discard_pos (n + 1) (by omega)]
      have hr : readN k d pos = if pos + k ≤ d.size then .ok ((d.extract pos (pos + k)).toList, pos + k) else .error (.st .io) := by
        simp only [readN, show ¬ (k = 0) by omega, if_false]
      rw [hr]
      by_cases h1 : pos + k ≤ d.size
      · simp only [h1, if_true]
        rw [ih (n + 1 - k) (by omega) (pos + k)]
        by_cases hz : n + 1 - k = 0
        · have : k = n + 1 := by omega
          subst this
          simp [hz, discard, readN, P.bind, P.pure, h1]
        · rw [discard_pos (n + 1 - k) hz]
          have e : pos + k + (n + 1 - k) = pos + (n + 1) := by omega
          rw [e]
      · have h2 : ¬ pos + (n + 1) ≤ d.size := by omega
        simp [h1, h2]

/-- From the regenerated symbol table: stream positioning happens in one place only — all
    references to a positioning call (`fseek`, `fseeko`, `fsetpos`, `rewind`, `lseek`) come from a
    single object file (the one holding `sbdf_skip_bytes`, which falls back to reading), so no skip
    path can depend on a seekable stream behind the helper's back.  (Position *queries* such as
    `ftell` are not restricted.) -/
theorem positioning_in_one_place :
    ((Gen.undefinedSyms.filter (fun p => p.2 ∈ ["fseek", "fseeko", "fseeko64", "fsetpos", "fsetpos64", "rewind", "lseek", "lseek64"])).map
      (·.1)).eraseDups.length ≤ 1 := by
  decide

/-- instances: skip = read for value arrays and whole table slices on a stream that cannot seek -/
example (va : VA) (h : va.Fits { pipe := true }) :
    Reads (skipVA { pipe := true }) (Spec.va { pipe := true } va) () := (va_read_and_skip _ va h).2

end Sbdf.C07
