import Sbdf.Slice
namespace Sbdf.C07
end Sbdf.C07
