/-
  C03 — Writer emits the canonical SBDF 1.0 byte stream.
  The model writer (code-shaped: chunks, statuses, loops) is proved to emit exactly the bytes of
  the declarative Spec (Sbdf/Spec.lean) for the canonical physical layout of the table: maximal
  runs capped at 256 stored as length-1, MSB-first zero-padded bits, byte-size headers, and column
  metadata folded into one name/type/default list in first-appearance order with per-column
  presence flags.  The output is a function of the logical content only (the writer is a pure
  function of the table; history independence of the C code is checked by the correspondence).
-/
import Sbdf.Lemmas.WSpec
import Sbdf.Lemmas.Canon
import Sbdf.Lemmas.SortFold
import Sbdf.Gen.Tables
import Sbdf.Props.C02
import Sbdf.Props.C04
namespace Sbdf.C03
open Spec WOut

/-! ### value arrays: canonical run-length form -/

/-- maximal runs capped at 256: no two adjacent runs carry the same value unless the first one
    is full (256 rows, stored as 255) -/
def CanonRuns : List (UInt8 × Bytes) → Prop
  | (r1, v1) :: (r2, v2) :: rest => (v1 = v2 → r1 = 255) ∧ CanonRuns ((r2, v2) :: rest)
  | _ => True

theorem loop_head (rest : List Bytes) (run : Nat) (prev : Bytes) :
    ∃ r tl, rleLoop rest run prev = (r, prev) :: tl := by
  induction rest generalizing run prev with
  | nil => exact ⟨_, [], rfl⟩
  | cons cur rest ih =>
    simp only [rleLoop]
    split
    · exact ⟨_, _, rfl⟩
    · rename_i h
      simp only [not_or, Decidable.not_not] at h
      obtain ⟨r, tl, e⟩ := ih (run + 1) cur
      rw [e, h.2]; exact ⟨r, tl, rfl⟩

theorem loop_canon (rest : List Bytes) (run : Nat) (prev : Bytes) (h1 : 1 ≤ run) (h2 : run ≤ 256) :
    CanonRuns (rleLoop rest run prev) := by
  induction rest generalizing run prev with
  | nil => simp [rleLoop, CanonRuns]
  | cons cur rest ih =>
    simp only [rleLoop]
    split
    · rename_i hc
      obtain ⟨r, tl, e⟩ := loop_head rest 1 cur
      have := ih 1 cur (by omega) (by omega)
      rw [e] at this ⊢
      refine ⟨?_, this⟩
      intro hv
      rcases hc with hc | hc
      · subst hc; rfl
      · exact absurd hv hc
    · exact ih (run + 1) cur (by omega) (by omega)

/-- the encoder emits maximal runs capped at 256 (and C02 shows they expand to the input) -/
theorem rle_canonical (es : List Bytes) : CanonRuns (rleEncode es) ∧ rleExpand (rleEncode es) = es := by
  refine ⟨?_, C02.rle_expand_encode es⟩
  cases es with
  | nil => simp [rleEncode, CanonRuns]
  | cons e es => exact loop_canon es 1 e (by omega) (by omega)

/-- a value array built by the constructors is written as the Spec bytes of that physical array -/
theorem va_bytes (c : Cfg) (va : VA) (h : va.Writable) : Emits (writeVA c va) (Spec.va c va) := emits_va c va h

/-! ### column-metadata folding -/

/-- first appearance: an entry is kept iff no earlier entry (of any column) has its C-string name
    (definition and loop lemma in Sbdf/Lemmas/Canon.lean) -/
abbrev firstAppearance := Sbdf.firstAppearance

theorem fold_is_firstAppearance (es kept last r : List MdEntry) (h : foldColsAux es kept last = .ok r) :
    r = kept.reverse ++ firstAppearance last es := Sbdf.fold_is_firstAppearance' es kept last r h

/-- when the writer accepts the column metadata, the name list is the first-appearance list -/
theorem fold_order (all kept : List MdEntry) (h : foldCols all = .ok kept) : kept = firstAppearance [] all := by
  have := fold_is_firstAppearance all [] [] kept h; simpa using this

/-- the writer refuses (INCORRECT_METADATA, nothing else) exactly when folding fails -/
theorem fold_error_status (all : List MdEntry) (e : Status) (h : foldCols all = .error e) : e = .incorrectMd := by
  suffices hs : ∀ es kept last, foldColsAux es kept last = .error e → e = .incorrectMd from hs all [] [] h
  intro es
  induction es with
  | nil => intro kept last h; simp [foldColsAux] at h
  | cons x xs ih =>
    intro kept last h
    simp only [foldColsAux] at h
    split at h
    · exact ih _ _ h
    · split at h
      · simp at h; exact h.symm
      · split at h
        · simp at h; exact h.symm
        · exact ih _ _ h

/-- if every later occurrence of a name agrees in type and default with the earlier ones, the
    writer accepts -/
theorem fold_accepts (all : List MdEntry)
    (hagree : ∀ (pre : List MdEntry) (e : MdEntry) (post : List MdEntry), all = pre ++ e :: post →
      ∀ p ∈ pre, Md.nameEq p.name e.name = true → entryTid p = entryTid e ∧ objEqOpt p.dflt e.dflt = true) :
    ∃ kept, foldCols all = .ok kept := by
  suffices hs : ∀ (es : List MdEntry) (kept last : List MdEntry) (done : List MdEntry),
      all = done ++ es → (∀ l ∈ last, l ∈ done) → ∃ r, foldColsAux es kept last = .ok r by
    exact hs all [] [] [] (by simp) (by simp)
  intro es
  induction es with
  | nil => intro kept last done _ _; exact ⟨_, rfl⟩
  | cons x xs ih =>
    intro kept last done hall hsub
    simp only [foldColsAux]
    cases hf : last.find? (fun l => Md.nameEq l.name x.name) with
    | none =>
      exact ih (x :: kept) (x :: last) (done ++ [x]) (by simp [hall]) (by
        intro l hl; simp only [List.mem_cons] at hl; rcases hl with h | h
        · simp [h]
        · simp [hsub l h])
    | some p =>
      have hp := hsub p (List.mem_of_find?_eq_some hf)
      have hn : Md.nameEq p.name x.name = true := by have := List.find?_some hf; simpa using this
      have := hagree done x xs hall p hp hn
      simp only [this.1, ne_eq, not_true_eq_false, if_false, this.2, Bool.not_true, Bool.false_eq_true]
      exact ih kept (x :: last) (done ++ [x]) (by simp [hall]) (by
        intro l hl; simp only [List.mem_cons] at hl; rcases hl with h | h
        · simp [h]
        · simp [hsub l h])

/-! ### table metadata -/

def tableTriples (es : List MdEntry) : List (Bytes × Obj × Option Obj) :=
  es.filterMap (fun e => e.value.map (fun v => (e.name, v, e.dflt)))

/-- the canonical physical layout the writer produces for `t` -/
def canonPhys (t : TM) (kept : List MdEntry) : PhysTM :=
  ⟨tableTriples t.table.entries,
   kept.map (fun k => ⟨k.name, entryTid k, k.dflt⟩),
   t.cols.map (fun col => kept.map (fun k => (col.find k.name).bind (·.value)))⟩

/-- metadata as the API builds it: every entry has a value; all objects are serialisable -/
def MdWritable (m : Md) : Prop :=
  ∀ e ∈ m.entries, (∃ v, e.value = some v ∧ Writable v) ∧ ∀ d, e.dflt = some d → Writable d

theorem emits_tableEntries (c : Cfg) (es : List MdEntry) (h : ∀ e ∈ es, (∃ v, e.value = some v ∧ Writable v) ∧ ∀ d, e.dflt = some d → Writable d) :
    Emits (seqAll (es.map (writeTableEntry c))) ((tableTriples es).flatMap (fun e => tableEntry c e.1 e.2.1 e.2.2)) ∧
    (tableTriples es).length = es.length := by
  induction es with
  | nil => exact ⟨Emits.nil, rfl⟩
  | cons e es ih =>
    obtain ⟨⟨v, hv, hw⟩, hd⟩ := h e (by simp)
    obtain ⟨ih1, ih2⟩ := ih (fun x hx => h x (by simp [hx]))
    simp only [List.map_cons, seqAll, tableTriples, List.filterMap_cons, hv, Option.map_some,
      List.flatMap_cons, List.length_cons]
    refine ⟨Emits.append ?_ ih1, by simpa [tableTriples] using ih2⟩
    unfold writeTableEntry tableEntry
    simp only [hv]
    have := Emits.append (Emits.append (Emits.append (Emits.append (emits_string c e.name) (emits_int8 v.tid))
      (emits_int8 1)) (emits_obj c v hw)) (emits_optObj c e.dflt hd)
    exact Emits.congr this (by simp)

/-- table metadata: the writer emits the Spec bytes of the canonical physical layout -/
theorem tm_bytes (c : Cfg) (t : TM) (kept : List MdEntry) (hfold : foldCols (t.cols.flatMap (·.entries)) = .ok kept)
    (htab : MdWritable t.table) (hcols : ∀ col ∈ t.cols, MdWritable col)
    (hkept : ∀ k ∈ kept, ∀ d, k.dflt = some d → Writable d) :
    Emits (writeTM c t) (Spec.tm c (canonPhys t kept)) := by
  obtain ⟨he, hl⟩ := emits_tableEntries c t.table.entries htab
  unfold writeTM Spec.tm canonPhys
  simp only [hfold, Md.cnt, List.length_map, hl]
  have hnames : Emits (seqAll (kept.map (writeNameRow c)))
      ((kept.map (fun k => (⟨k.name, entryTid k, k.dflt⟩ : NameRow))).flatMap (nameRow c)) := by
    rw [List.flatMap_map]
    apply Emits.seqAllMap
    intro k hk
    exact Emits.append (Emits.append (emits_string c k.name) (emits_int8 _)) (emits_optObj c k.dflt (hkept k hk))
  have hflags : Emits (seqAll (t.cols.map (writeColumnFlags c kept)))
      ((t.cols.map (fun col => kept.map (fun k => (col.find k.name).bind (·.value)))).flatMap
        (fun col => col.flatMap (optObj c))) := by
    rw [List.flatMap_map]
    apply Emits.seqAllMap
    intro col hcol
    unfold writeColumnFlags
    rw [List.flatMap_map]
    apply Emits.seqAllMap
    intro k _
    cases hf : col.find k.name with
    | none => simpa [optObj] using emits_int8 0
    | some e =>
      have hmem : e ∈ col.entries := List.mem_of_find?_eq_some hf
      obtain ⟨⟨v, hv, hw⟩, _⟩ := hcols col hcol e hmem
      simp only [hv, Option.bind_some, optObj]
      exact Emits.append (emits_int8 1) (emits_obj c v hw)
  have := Emits.append (Emits.append (Emits.append (Emits.append (emits_sec 2)
      (emits_int32 c (t.table.entries.length : Int))) he) (emits_int32 c (t.cols.length : Int)))
    (Emits.append (Emits.append (emits_int32 c (kept.length : Int)) hnames) hflags)
  exact Emits.congr this (by simp [List.append_assoc])

/-! ### the whole file -/

/-- C03: for every table the writers can represent, the sequence of writer calls
    (header, table metadata, every slice, end marker) reports OK and emits exactly the bytes the
    Spec assigns to the canonical physical layout of that table. -/
theorem file_bytes (c : Cfg) (tm : TM) (slices : List (List CS)) (kept : List MdEntry)
    (hfold : foldCols (tm.cols.flatMap (·.entries)) = .ok kept)
    (htab : MdWritable tm.table) (hcols : ∀ col ∈ tm.cols, MdWritable col)
    (hkept : ∀ k ∈ kept, ∀ d, k.dflt = some d → Writable d)
    (hsl : ∀ s ∈ slices, ∀ x ∈ s, x.Writable)
    (hlen : ∀ s ∈ slices, s.length = tm.cols.length) :
    Emits (writeFile c ⟨tm, slices.map (fun s => ⟨s.map some⟩)⟩) (C04.file c (canonPhys tm kept) slices) := by
  unfold writeFile C04.file
  simp only [List.map_map]
  have hs : Emits (seqAll (slices.map ((writeTSOf c tm) ∘ fun s => ⟨s.map some⟩))) (slices.flatMap (Spec.ts c)) := by
    apply Emits.seqAllMap
    intro s hs'
    have : writeTSOf c tm ⟨s.map some⟩ = writeTS c ⟨s.map some⟩ := by
      simp [writeTSOf, hlen s hs']
    simp only [Function.comp, this]
    exact emits_ts c s (hsl s hs')
  have := Emits.append (Emits.append (Emits.append emits_fh (tm_bytes c tm kept hfold htab hcols hkept)) hs) emits_end
  exact Emits.congr this (by simp [List.append_assoc])

/-! ### constants of the format, tied to the headers and the compiled code -/

/-- the numeric constants of the format as model and Spec use them -/
def expectedIds : List (String × Int) :=
  [("SBDF_BOOLTYPEID", 1), ("SBDF_INTTYPEID", 2), ("SBDF_LONGTYPEID", 3), ("SBDF_FLOATTYPEID", 4),
   ("SBDF_DOUBLETYPEID", 5), ("SBDF_DATETIMETYPEID", 6), ("SBDF_DATETYPEID", 7), ("SBDF_TIMETYPEID", 8),
   ("SBDF_TIMESPANTYPEID", 9), ("SBDF_STRINGTYPEID", 10), ("SBDF_BINARYTYPEID", 12), ("SBDF_DECIMALTYPEID", 13),
   ("SBDF_BYTETYPEID", 254),
   ("SBDF_FILEHEADER_SECTIONID", 1), ("SBDF_TABLEMETADATA_SECTIONID", 2), ("SBDF_TABLESLICE_SECTIONID", 3),
   ("SBDF_COLUMNSLICE_SECTIONID", 4), ("SBDF_TABLEEND_SECTIONID", 5),
   ("SBDF_PLAINARRAYENCODINGTYPEID", 1), ("SBDF_RUNLENGTHENCODINGTYPEID", 2), ("SBDF_BITARRAYENCODINGTYPEID", 3),
   ("SBDF_MAJOR_VERSION", 1), ("SBDF_MINOR_VERSION", 0)]

/-- type ids, section ids, encoding ids and the version used by model and Spec are the macros of
    the public headers (regenerated from the working tree on every run) -/
theorem ids_match_headers : ∀ p ∈ expectedIds, p ∈ Gen.idMacros := by decide

/-- the model's element-size and is-array tables are the graphs of `sbdf_get_unpacked_size`,
    `sbdf_get_packed_size` and `sbdf_ti_is_arr` of the compiled code, for every id 0..255 -/
theorem sizes_match_code : ∀ id ∈ List.range 256,
    Gen.sizeRow id =
      ((match unpackedSize id with | some n => (n : Int) | none => -3),
       (match unpackedSize id with | some n => (n : Int) | none => -3),
       (if isArr id then 1 else 0)) := by decide +kernel

/-- non-vacuity -/
example : foldCols [⟨[97], some ⟨2, [[1,0,0,0]]⟩, none⟩, ⟨[98], some ⟨2, [[1,0,0,0]]⟩, none⟩,
    ⟨[97], some ⟨2, [[2,0,0,0]]⟩, none⟩] = .ok [⟨[97], some ⟨2, [[1,0,0,0]]⟩, none⟩, ⟨[98], some ⟨2, [[1,0,0,0]]⟩, none⟩] := by
  rfl

/-! ### the folding as the C code computes it (two `qsort`s around a scan of neighbours)

`sbdf_tm_write` does not walk the entries in order like the model's `foldCols`: it collects every
entry of every column with a running index (`SortFold.index`), sorts the array by (name, index),
scans it comparing neighbours of equal name and keeping the first of each group
(`SortFold.scan`), and sorts what is kept back by index.  `Lemmas/SortFold.lean` proves that this
computes `foldCols` — for any arrangement the two sorts may return that their comparators accept
as sorted (`SortFold.Arr`; the comparators are strict total orders on the items, so `qsort` has no
choice), without assuming anything about the sorting algorithm. -/

/-- refinement: the sort-based folding of the C code = the model's folding, on every list of
    column entries: the same error, or the same kept entries in the same order -/
theorem sorted_fold_refines (t : TM) (s : List SortFold.Item)
    (h : SortFold.Arr (SortFold.index 0 (t.cols.flatMap (·.entries))) s) :
    match SortFold.scan none s [] with
    | .error st => foldCols (t.cols.flatMap (·.entries)) = .error st
    | .ok kept => ∀ r : List SortFold.Item, r.Perm kept → r.Pairwise SortFold.ltOrd →
        foldCols (t.cols.flatMap (·.entries)) = .ok (r.map (·.e)) :=
  SortFold.tm_write_fold_refines _ s h

/-- such an arrangement always exists (the statement above is never vacuous) -/
theorem sorted_array_exists (t : TM) : ∃ s, SortFold.Arr (SortFold.index 0 (t.cols.flatMap (·.entries))) s :=
  SortFold.arr_exists _

end Sbdf.C03
