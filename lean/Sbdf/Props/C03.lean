import Sbdf.Slice
namespace Sbdf.C03
end Sbdf.C03
