import Sbdf.Slice
namespace Sbdf.C04
end Sbdf.C04
