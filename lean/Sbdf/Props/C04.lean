/-
  C04 — Reader decodes every well-formed SBDF 1.0 stream.
  The stream is given by the declarative Spec (Sbdf/Spec.lean) applied to a *physical* table:
  any valid layout, including those the library's writer never emits — non-maximal or 256-runs,
  run-length or plain booleans, run-length strings/binaries, arbitrary property names and counts,
  name lists in any order with unused names, entries with and without defaults.
-/
import Sbdf.Lemmas.ReadsTM
import Sbdf.Props.C05
namespace Sbdf.C04
open Spec

/-- a physical file: header, table metadata, slices, end marker -/
def file (c : Cfg) (p : PhysTM) (slices : List (List CS)) : Bytes :=
  header ++ Spec.tm c p ++ (slices.flatMap (Spec.ts c) ++ Spec.tsEnd)

/-- the logical table metadata the reader must expose for `p` (columns as built by `buildCol`) -/
def logicalTM (p : PhysTM) (cols : List Md) : TM :=
  ⟨⟨p.table.map (fun e => ⟨e.1, some e.2.1, e.2.2⟩), false⟩, cols.map Md.freeze⟩

/-- C04 (and the position clause of C07): for every well-formed physical table, every column
    subset, any trailing bytes and any sufficient call bound, the caller's loop
    `fh_read; tm_read; ts_read*` succeeds on every call, exposes exactly the encoded content —
    table metadata, per-column metadata, every slice with every selected column's values and
    properties (the stored arrays, whatever their layout) — and reports end-of-table exactly at
    the end marker. -/
theorem reads_wellformed (c : Cfg) (p : PhysTM) (cols : List Md) (slices : List (List CS))
    (hp : p.Ok c cols) (hn : ∀ s ∈ slices, s.length = p.cols.length) (hf : ∀ s ∈ slices, TSFits c s)
    (sub : Option (List Bool)) (rest : Bytes) (fuel : Nat) (hfuel : slices.length < fuel) :
    readFileF c sub fuel (file c p slices ++ rest).toArray =
      ⟨.ok (1, 0), some (.ok (logicalTM p cols)), slices.map (fun s => ⟨maskFrom sub 0 s⟩),
       some (.tableEnd (file c p slices).length)⟩ := by
  unfold readFileF file
  have h1 := reads_fhRead [] (Spec.tm c p ++ (slices.flatMap (Spec.ts c) ++ Spec.tsEnd) ++ rest)
  simp only [List.nil_append, List.length_nil, Nat.zero_add, List.append_assoc] at h1 ⊢
  rw [h1]
  simp only
  have h2 := reads_tm c p cols hp header ((slices.flatMap (Spec.ts c) ++ Spec.tsEnd) ++ rest)
  simp only [List.append_assoc] at h2
  rw [h2]
  simp only
  have hcl : (logicalTM p cols).cols.length = p.cols.length := by simp [logicalTM, hp.clen]
  have h3 := slices_loop c sub p.cols.length slices hn hf (header ++ Spec.tm c p) rest fuel hfuel
  simp only [List.append_assoc, List.length_append] at h3
  have hcl' : (List.map Md.freeze cols).length = p.cols.length := by simp [hp.clen]
  simp only [hcl']
  rw [h3]
  simp [logicalTM, Nat.add_assoc]

/-- every stored array decodes to its logical values: for run-length arrays the concatenation of
    `run+1` copies of each value — maximal runs or not, runs of exactly 256 or not -/
theorem decode_rle (c : Cfg) (rows : Int) (runs : Bytes) (vals : Obj) (sz : Nat)
    (hsz : elemSizeOrPtr vals.tid = .ok sz) (hlen : runs.length = vals.count)
    (hrows : (rleTotal runs : Int) = rows) (hfit : (sz : Int) * rows ≤ c.cap) (hmax : rows ≤ INT_MAX / sz) :
    getValues c (.rle rows runs vals) = .ok ⟨vals.tid, rleExpand (runs.zip vals.elems)⟩ := by
  simp only [getValues, hsz, hlen, ne_eq, not_true_eq_false, if_false, hrows]
  have h1 : ¬ (rows > INT_MAX / (sz : Int)) := by omega
  have h2 : ¬ ((sz : Int) * rows > c.cap) := by omega
  simp only [h1, h2, if_false]
  have hl : (rleExpand (runs.zip vals.elems)).length = rleTotal runs :=
    C05.expand_zip_length runs vals.elems (by simpa [Obj.count] using hlen)
  have : (rleExpand (runs.zip vals.elems)).length = rows.toNat := by rw [hl, ← hrows]; simp
  simp [this]

/-- column name and type from the `Name` / `DataType` entries, wherever they stand in the list -/
theorem cm_name_type (m : Md) (nm : Bytes) (ty : UInt8) (pad : Bytes) (hpad : pad = [] ∨ pad.length = 2)
    (hn : Md.get CM_NAME m = .ok ⟨10, [nm]⟩) (ht : Md.get CM_DATATYPE m = .ok ⟨12, [ty :: pad]⟩) :
    cmGetName m = .ok nm ∧ cmGetType m = .ok ty.toNat := by
  constructor
  · simp [cmGetName, hn]
  · simp only [cmGetType, ht]
    rcases hpad with h | h
    · subst h; simp
    · simp [h]

end Sbdf.C04
