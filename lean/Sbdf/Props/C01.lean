/-
  C01 — Write-then-read round trip preserves the whole table.
  Composition of C03 (the writer calls emit the Spec bytes of the canonical physical layout) and
  C04 (the reader decodes every well-formed physical layout), plus the facts that make the
  canonical layout of an API-built table well formed.
-/
import Sbdf.Props.C03
import Sbdf.Props.C04
import Sbdf.Props.C10
namespace Sbdf.C01
open Spec

/-! ### building one column back from the canonical name list -/

/-- the entries the reader rebuilds for a column: one per name-list row whose value is present,
    in name-list order, carrying the row's default -/
def rebuilt : List NameRow → List (Option Obj) → List MdEntry
  | r :: rs, some v :: os => ⟨cstr r.name, some v, r.dflt⟩ :: rebuilt rs os
  | _ :: rs, none :: os => rebuilt rs os
  | _, _ => []

/-- the reader's column builder succeeds and yields exactly `rebuilt`, provided the present
    values are singletons of the row's type and the row names are pairwise different -/
theorem buildCol_ok (names : List NameRow) (vals : List (Option Obj)) (m : Md)
    (hmod : m.modifiable = true)
    (hlen : vals.length = names.length)
    (hdist : names.Pairwise (fun a b => Md.nameEq a.name b.name = false))
    (hfresh : ∀ r ∈ names, ∀ e ∈ m.entries, Md.nameEq e.name r.name = false)
    (hval : ∀ i (h1 : i < names.length) (h2 : i < vals.length) v, vals[i] = some v →
      v.count = 1 ∧ ∀ d, names[i].dflt = some d → d.tid = v.tid ∧ d.count = 1) :
    buildCol names vals m = .ok ⟨m.entries ++ rebuilt names vals, true⟩ := by
  induction names generalizing vals m with
  | nil =>
    cases vals with
    | nil => cases m; simp_all [buildCol, rebuilt]
    | cons o os => simp at hlen
  | cons r rs ih =>
    cases vals with
    | nil => simp at hlen
    | cons o os =>
      simp only [List.length_cons, Nat.add_right_cancel_iff] at hlen
      rw [List.pairwise_cons] at hdist
      have hval' : ∀ i (h1 : i < rs.length) (h2 : i < os.length) v, os[i] = some v →
          v.count = 1 ∧ ∀ d, rs[i].dflt = some d → d.tid = v.tid ∧ d.count = 1 := by
        intro i h1 h2 v hv
        have := hval (i + 1) (by simp; omega) (by simp; omega) v (by simpa using hv)
        simpa using this
      cases o with
      | none =>
        simp only [buildCol, rebuilt]
        exact ih os m hmod hlen hdist.2 (fun r' hr' => hfresh r' (by simp [hr'])) hval'
      | some v =>
        have h0 := hval 0 (by simp) (by simp) v (by simp)
        simp only [List.getElem_cons_zero] at h0
        have hadd : Md.add r.name v r.dflt m = .ok ⟨m.entries ++ [⟨cstr r.name, some v, r.dflt⟩], true⟩ := by
          unfold Md.add
          have hex : m.exists_ r.name = false := by
            simp only [Md.exists_, Md.find, Option.isSome_eq_false_iff, Option.isNone_iff_eq_none, List.find?_eq_none]
            intro e he; simpa using hfresh r (by simp) e he
          have htm : Md.dfltTypeMismatch v r.dflt = false := ((C10.dflt_checks v r.dflt).1).mpr (fun d hd => (h0.2 d hd).1)
          have hbc : Md.dfltBadCount r.dflt = false := ((C10.dflt_checks v r.dflt).2).mpr (fun d hd => (h0.2 d hd).2)
          cases m with | mk me mm =>
          simp only at hmod hex ⊢
          subst hmod
          simp [htm, hbc, h0.1, hex]
        simp only [buildCol, hadd, rebuilt]
        have := ih os ⟨m.entries ++ [⟨cstr r.name, some v, r.dflt⟩], true⟩ rfl hlen hdist.2 (by
          intro r' hr' e he
          simp only [List.mem_append, List.mem_singleton] at he
          rcases he with h | h
          · exact hfresh r' (by simp [hr']) e h
          · subst h; simp only; rw [C11.nameEq_cstr]; exact hdist.1 r' hr') hval'
        simpa using this

/-! ### the table-level entries survive unchanged -/

theorem triples_roundtrip (es : List MdEntry) (h : ∀ e ∈ es, ∃ v, e.value = some v) :
    (C03.tableTriples es).map (fun e => (⟨e.1, some e.2.1, e.2.2⟩ : MdEntry)) = es := by
  induction es with
  | nil => rfl
  | cons e es ih =>
    obtain ⟨v, hv⟩ := h e (by simp)
    simp only [C03.tableTriples, List.filterMap_cons, hv, Option.map_some, List.map_cons]
    have := ih (fun x hx => h x (by simp [hx]))
    simp only [C03.tableTriples] at this
    rw [this]
    cases e; simp_all

/-! ### the round trip -/

/-- C01: for every table the writers can represent (metadata `tm` whose column metadata folds to
    `kept`, slices of caller-built column slices), whose canonical layout is within the reader's
    allocation limits (`Ok`, `TSFits`): the bytes produced by the writer calls, read back by the
    caller loop (any trailing bytes, any column subset), give OK on every call, the same table
    metadata entries, per column the metadata rebuilt in name-list order, every slice with every
    cell and property array exactly as written, and then end-of-table at the end of the file. -/
theorem file_roundtrip (c : Cfg) (tm : TM) (slices : List (List CS)) (kept : List MdEntry) (cols : List Md)
    (hfold : foldCols (tm.cols.flatMap (·.entries)) = .ok kept)
    (htab : C03.MdWritable tm.table) (hcols : ∀ col ∈ tm.cols, C03.MdWritable col)
    (hkept : ∀ k ∈ kept, ∀ d, k.dflt = some d → Writable d)
    (hsl : ∀ s ∈ slices, ∀ x ∈ s, x.Writable)
    (hok : (C03.canonPhys tm kept).Ok c cols)
    (hn : ∀ s ∈ slices, s.length = tm.cols.length) (hf : ∀ s ∈ slices, TSFits c s)
    (sub : Option (List Bool)) (rest : Bytes) (fuel : Nat) (hfuel : slices.length < fuel) :
    ∃ bytes, Emits (writeFile c ⟨tm, slices.map (fun s => ⟨s.map some⟩)⟩) bytes ∧
      readFileF c sub fuel (bytes ++ rest).toArray =
        ⟨.ok (1, 0), some (.ok ⟨⟨tm.table.entries, false⟩, cols.map Md.freeze⟩),
         slices.map (fun s => ⟨maskFrom sub 0 s⟩), some (.tableEnd bytes.length)⟩ := by
  refine ⟨C04.file c (C03.canonPhys tm kept) slices, C03.file_bytes c tm slices kept hfold htab hcols hkept hsl, ?_⟩
  have hn' : ∀ s ∈ slices, s.length = (C03.canonPhys tm kept).cols.length := by
    intro s hs; simp [C03.canonPhys, hn s hs]
  rw [C04.reads_wellformed c _ cols slices hok hn' hf sub rest fuel hfuel]
  have : (C03.canonPhys tm kept).table.map (fun e => (⟨e.1, some e.2.1, e.2.2⟩ : MdEntry)) = tm.table.entries :=
    triples_roundtrip tm.table.entries (fun e he => by obtain ⟨⟨v, hv, _⟩, _⟩ := htab e he; exact ⟨v, hv⟩)
  simp only [C04.logicalTM, this]

/-- with no subset every column of every slice comes back -/
theorem full_read_returns_all (s : List CS) : maskFrom none 0 s = s.map some := maskFrom_none 0 s

/-- If the writer cannot represent the input — same-named column metadata whose type or default
    differ — it returns INCORRECT_METADATA from the table-metadata call instead of producing a
    file: the status of `sbdf_tm_write` is then not OK. -/
theorem unrepresentable_is_refused (c : Cfg) (tm : TM) (e : Status)
    (hfold : foldCols (tm.cols.flatMap (·.entries)) = .error e)
    (htab : C03.MdWritable tm.table) :
    (writeTM c tm).st = .incorrectMd := by
  have he := C03.fold_error_status _ e hfold
  subst he
  obtain ⟨hemit, _⟩ := C03.emits_tableEntries c tm.table.entries htab
  unfold writeTM
  simp only [hfold]
  have h1 : Emits (secWrite 2 ++ writeInt32 c tm.table.cnt ++ WOut.seqAll (tm.table.entries.map (writeTableEntry c)) ++
      writeInt32 c tm.cols.length) _ :=
    Emits.append (Emits.append (Emits.append (emits_sec 2) (emits_int32 c _)) hemit) (emits_int32 c _)
  rw [(WOut.append_ok h1.1).2]; rfl

end Sbdf.C01

namespace Sbdf.C01
/-- non-vacuity (a concrete instance of the conclusion, evaluated by the kernel): a table with one
    column carrying a `Name`, one slice with a run-length column of three int rows -/
example :
    let colMd : Md := ⟨[⟨[78, 97, 109, 101], some ⟨10, [[99]]⟩, none⟩], false⟩
    let tm : TM := ⟨⟨[], false⟩, [colMd]⟩
    let cs : CS := ⟨.rle 3 [1, 0] ⟨2, [[1, 0, 0, 0], [2, 0, 0, 0]]⟩, 0, []⟩
    let w := writeFile {} ⟨tm, [⟨[some cs]⟩]⟩
    w.st = .ok ∧
    readFileF {} none 5 w.bytes.toArray =
      ⟨.ok (1, 0), some (.ok tm), [⟨[some cs]⟩], some (.tableEnd w.bytes.length)⟩ := by
  refine ⟨rfl, ?_⟩
  rfl
end Sbdf.C01
