import Sbdf.Slice
namespace Sbdf.C01
end Sbdf.C01
