/-
  C01 — Write-then-read round trip preserves the whole table.
  Composition of C03 (the writer calls emit the Spec bytes of the canonical physical layout) and
  C04 (the reader decodes every well-formed physical layout), plus the facts that make the
  canonical layout of an API-built table well formed.
-/
import Sbdf.Props.C03
import Sbdf.Props.C04
import Sbdf.Props.C10
import Sbdf.Lemmas.Canon
namespace Sbdf.C01
open Spec

/-! ### building one column back from the canonical name list -/

/-- the entries the reader rebuilds for a column: one per name-list row whose value is present,
    in name-list order, carrying the row's default -/
def rebuilt : List NameRow → List (Option Obj) → List MdEntry
  | r :: rs, some v :: os => ⟨cstr r.name, some v, r.dflt⟩ :: rebuilt rs os
  | _ :: rs, none :: os => rebuilt rs os
  | _, _ => []

/-- the reader's column builder succeeds and yields exactly `rebuilt`, provided the present
    values are singletons of the row's type and the row names are pairwise different -/
theorem buildCol_ok (names : List NameRow) (vals : List (Option Obj)) (m : Md)
    (hmod : m.modifiable = true)
    (hlen : vals.length = names.length)
    (hdist : names.Pairwise (fun a b => Md.nameEq a.name b.name = false))
    (hfresh : ∀ r ∈ names, ∀ e ∈ m.entries, Md.nameEq e.name r.name = false)
    (hval : ∀ q ∈ names.zip vals, ∀ v, q.2 = some v →
      v.count = 1 ∧ ∀ d, q.1.dflt = some d → d.tid = v.tid ∧ d.count = 1) :
    buildCol names vals m = .ok ⟨m.entries ++ rebuilt names vals, true⟩ := by
  induction names generalizing vals m with
  | nil =>
    cases vals with
    | nil => cases m; simp_all [buildCol, rebuilt]
    | cons o os => simp at hlen
  | cons r rs ih =>
    cases vals with
    | nil => simp at hlen
    | cons o os =>
      simp only [List.length_cons, Nat.add_right_cancel_iff] at hlen
      rw [List.pairwise_cons] at hdist
      have hval' : ∀ q ∈ rs.zip os, ∀ v, q.2 = some v →
          v.count = 1 ∧ ∀ d, q.1.dflt = some d → d.tid = v.tid ∧ d.count = 1 := by
        intro q hq v hv; exact hval q (by simp [hq]) v hv
      cases o with
      | none =>
        simp only [buildCol, rebuilt]
        exact ih os m hmod hlen hdist.2 (fun r' hr' => hfresh r' (by simp [hr'])) hval'
      | some v =>
        have h0 := hval (r, some v) (by simp) v rfl
        simp only at h0
        have hadd : Md.add r.name v r.dflt m = .ok ⟨m.entries ++ [⟨cstr r.name, some v, r.dflt⟩], true⟩ := by
          unfold Md.add
          have hex : m.exists_ r.name = false := by
            simp only [Md.exists_, Md.find, Option.isSome_eq_false_iff, Option.isNone_iff_eq_none, List.find?_eq_none]
            intro e he; simpa using hfresh r (by simp) e he
          have htm : Md.dfltTypeMismatch v r.dflt = false := ((C10.dflt_checks v r.dflt).1).mpr (fun d hd => (h0.2 d hd).1)
          have hbc : Md.dfltBadCount r.dflt = false := ((C10.dflt_checks v r.dflt).2).mpr (fun d hd => (h0.2 d hd).2)
          cases m with | mk me mm =>
          simp only at hmod hex ⊢
          subst hmod
          simp [htm, hbc, h0.1, hex]
        simp only [buildCol, hadd, rebuilt]
        have := ih os ⟨m.entries ++ [⟨cstr r.name, some v, r.dflt⟩], true⟩ rfl hlen hdist.2 (by
          intro r' hr' e he
          simp only [List.mem_append, List.mem_singleton] at he
          rcases he with h | h
          · exact hfresh r' (by simp [hr']) e h
          · subst h; simp only; rw [C11.nameEq_cstr]; exact hdist.1 r' hr') hval'
        simpa using this

/-! ### the canonical layout of an API-built table is well formed -/

/-- in a list with pairwise different names, two entries carrying the same name are the same entry -/
theorem same_name_same_entry (l : List MdEntry) (hd : l.Pairwise (fun a b => Md.nameEq a.name b.name = false))
    (a b : MdEntry) (ha : a ∈ l) (hb : b ∈ l) (h : Md.nameEq a.name b.name = true) : a = b := by
  induction l with
  | nil => simp at ha
  | cons x xs ih =>
    rw [List.pairwise_cons] at hd
    simp only [List.mem_cons] at ha hb
    rcases ha with ha | ha <;> rcases hb with hb | hb
    · rw [ha, hb]
    · subst ha; have := hd.1 b hb; rw [h] at this; simp at this
    · subst hb; have := hd.1 a ha; rw [nameEq_symm' h] at this; simp at this
    · exact ih hd.2 ha hb

/-- what the API guarantees about a table metadata object, plus the size limits of the reader -/
structure ApiTM (c : Cfg) (tm : TM) (kept : List MdEntry) : Prop where
  fold : foldCols (tm.cols.flatMap (·.entries)) = .ok kept
  tabSingle : ∀ e ∈ tm.table.entries, ∃ v, e.value = some v ∧ v.count = 1 ∧
    (∀ d, e.dflt = some d → d.tid = v.tid ∧ d.count = 1)
  colInv : ∀ col ∈ tm.cols, C10.Inv col
  tabFit : ∀ e ∈ tm.table.entries, fitsStr c e.name.length ∧
    (∀ v, e.value = some v → v.Fits c ∧ v.tid < 256) ∧ (∀ d, e.dflt = some d → d.Fits c ∧ d.tid < 256)
  colFit : ∀ col ∈ tm.cols, ∀ e ∈ col.entries, fitsStr c e.name.length ∧
    (∀ v, e.value = some v → v.Fits c ∧ v.tid < 256) ∧ (∀ d, e.dflt = some d → d.Fits c ∧ d.tid < 256)
  tcnt : (tm.table.entries.length : Int) ≤ INT_MAX
  ccnt : (tm.cols.length : Int) * 8 ≤ c.cap ∧ (tm.cols.length : Int) ≤ INT_MAX
  ncnt : (kept.length : Int) * 8 ≤ c.cap ∧ (kept.length : Int) ≤ INT_MAX

/-- the per-column metadata the reader rebuilds from the canonical layout -/
def rebuiltCols (tm : TM) (kept : List MdEntry) : List Md :=
  tm.cols.map (fun col => ⟨rebuilt (kept.map (fun k => ⟨k.name, entryTid k, k.dflt⟩))
    (kept.map (fun k => (col.find k.name).bind (·.value))), true⟩)

theorem entry_of_kept {tm : TM} {kept : List MdEntry} {k : MdEntry}
    (hall : ∀ k ∈ kept, k ∈ tm.cols.flatMap (·.entries)) (hk : k ∈ kept) : ∃ col ∈ tm.cols, k ∈ col.entries := by
  have := hall k hk
  simp only [List.mem_flatMap] at this
  exact this

/-- a value a column holds under a name-list name: a singleton of the name row's type -/
theorem present_value (c : Cfg) (tm : TM) (kept : List MdEntry) (h : ApiTM c tm kept) (col : Md) (hcol : col ∈ tm.cols)
    (k : MdEntry) (hk : k ∈ kept) (x : Obj) (hx : (col.find k.name).bind (·.value) = some x) :
    MdObjOk c x ∧ x.tid = entryTid k ∧ x.count = 1 := by
  obtain ⟨hrep, _, hdist⟩ := fold_facts _ kept h.fold
  cases hf : col.find k.name with
  | none => simp [hf] at hx
  | some e =>
    simp only [hf, Option.bind_some] at hx
    have hmem : e ∈ col.entries := List.mem_of_find?_eq_some hf
    have hname : Md.nameEq e.name k.name = true := by
      have := List.find?_some hf; simpa using this
    obtain ⟨v, hv, hc1, _⟩ := (h.colInv col hcol).single e hmem
    rw [hv] at hx
    have hxv : v = x := by simpa using hx
    subst hxv
    obtain ⟨_, hfv, _⟩ := h.colFit col hcol e hmem
    obtain ⟨k', hk', hn', ht'⟩ := hrep e (by simp only [List.mem_flatMap]; exact ⟨col, hcol, hmem⟩)
    have hkk : k' = k := same_name_same_entry kept hdist k' k hk' hk (nameEq_trans hn' hname)
    subst hkk
    exact ⟨⟨(hfv v hv).1, hc1, (hfv v hv).2⟩, by rw [ht']; simp [entryTid, hv], hc1⟩

/-- The canonical physical layout of an API-built table metadata object satisfies every
    well-formedness condition C04 asks for: the hypothesis `hok` of `file_roundtrip` holds. -/
theorem canon_ok (c : Cfg) (tm : TM) (kept : List MdEntry) (h : ApiTM c tm kept) :
    (C03.canonPhys tm kept).Ok c (rebuiltCols tm kept) := by
  obtain ⟨hrep, hall, hdist⟩ := fold_facts _ kept h.fold
  -- facts about a kept entry: it is a column entry, so it has a singleton value, a fitting name ...
  have keptFacts : ∀ k ∈ kept, ∃ v, k.value = some v ∧ v.count = 1 ∧ entryTid k = v.tid ∧ v.tid < 256 ∧
      fitsStr c k.name.length ∧ (∀ d, k.dflt = some d → d.tid = v.tid ∧ d.count = 1 ∧ d.Fits c ∧ d.tid < 256) := by
    intro k hk
    obtain ⟨col, hcol, hkc⟩ := entry_of_kept hall hk
    obtain ⟨v, hv, hc1, hd⟩ := (h.colInv col hcol).single k hkc
    obtain ⟨hfs, hfv, hfd⟩ := h.colFit col hcol k hkc
    refine ⟨v, hv, hc1, by simp [entryTid, hv], (hfv v hv).2, hfs, ?_⟩
    intro d hdd
    exact ⟨(hd d hdd).1, (hd d hdd).2, (hfd d hdd).1, (hfd d hdd).2⟩
  refine ⟨?_, ?_, ?_, ?_, ?_, ?_⟩
  · -- table-level entries
    intro e he
    simp only [C03.canonPhys, C03.tableTriples, List.mem_filterMap] at he
    obtain ⟨x, hx, hxe⟩ := he
    obtain ⟨v, hv, hc1, hd⟩ := h.tabSingle x hx
    obtain ⟨hfs, hfv, hfd⟩ := h.tabFit x hx
    simp only [hv, Option.map_some, Option.some.injEq] at hxe
    subst hxe
    refine ⟨hfs, ⟨(hfv v hv).1, hc1, (hfv v hv).2⟩, ?_⟩
    intro d hdd
    exact ⟨⟨(hfd d hdd).1, (hd d hdd).2, (hfd d hdd).2⟩, (hd d hdd).1⟩
  · -- name rows
    intro r hr
    simp only [C03.canonPhys, List.mem_map] at hr
    obtain ⟨k, hk, rfl⟩ := hr
    obtain ⟨v, _, _, htid, hlt, hfs, hd⟩ := keptFacts k hk
    refine ⟨hfs, by simp only; rw [htid]; exact hlt, ?_⟩
    intro d hdd
    obtain ⟨h1, h2, h3, h4⟩ := hd d hdd
    exact ⟨⟨h3, h2, h4⟩, by simp only; rw [htid, h1]⟩
  · simp only [C03.canonPhys]
    have : (C03.tableTriples tm.table.entries).length ≤ tm.table.entries.length := by
      simp only [C03.tableTriples]; exact List.length_filterMap_le _ _
    have := h.tcnt; omega
  · simpa [C03.canonPhys] using h.ccnt
  · simpa [C03.canonPhys] using h.ncnt
  · -- per column
    simp only [C03.canonPhys, rebuiltCols]
    have hgen : ∀ cols : List Md, (∀ col ∈ cols, col ∈ tm.cols) →
        All2 (ColOk c (kept.map (fun k => (⟨k.name, entryTid k, k.dflt⟩ : NameRow))))
          (cols.map (fun col => kept.map (fun k => (col.find k.name).bind (·.value))))
          (cols.map (fun col => (⟨rebuilt (kept.map (fun k => (⟨k.name, entryTid k, k.dflt⟩ : NameRow)))
            (kept.map (fun k => (col.find k.name).bind (·.value))), true⟩ : Md))) := by
      intro cols
      induction cols with
      | nil => intro _; exact All2.nil
      | cons col rest ih =>
        intro hsub
        simp only [List.map_cons]
        refine All2.cons ?_ (ih (fun x hx => hsub x (by simp [hx])))
        have hcol := hsub col (by simp)
        -- facts about a present value of this column under a kept name
        have present : ∀ k ∈ kept, ∀ x, (col.find k.name).bind (·.value) = some x →
            MdObjOk c x ∧ x.tid = entryTid k ∧ x.count = 1 := by
          intro k hk x hx
          cases hf : col.find k.name with
          | none => simp [hf] at hx
          | some e =>
            simp only [hf, Option.bind_some] at hx
            have hmem : e ∈ col.entries := List.mem_of_find?_eq_some hf
            have hname : Md.nameEq e.name k.name = true := by
              have := List.find?_some hf; simpa using this
            obtain ⟨v, hv, hc1, _⟩ := (h.colInv col hcol).single e hmem
            rw [hv] at hx
            have hxv : v = x := by simpa using hx
            subst hxv
            obtain ⟨_, hfv, _⟩ := h.colFit col hcol e hmem
            obtain ⟨k', hk', hn', ht'⟩ := hrep e (by simp only [List.mem_flatMap]; exact ⟨col, hcol, hmem⟩)
            have hkk : k' = k := same_name_same_entry kept hdist k' k hk' hk (nameEq_trans hn' hname)
            subst hkk
            exact ⟨⟨(hfv v hv).1, hc1, (hfv v hv).2⟩, by rw [ht']; simp [entryTid, hv], hc1⟩
        refine ⟨by simp, ?_, ?_⟩
        · intro q hq x hx
          simp only [List.zip_map, List.mem_map] at hq
          obtain ⟨⟨k1, k2⟩, hkz, rfl⟩ := hq
          have : k1 = k2 ∧ k1 ∈ kept := by
            have hself : ∀ (l : List MdEntry) (a b : MdEntry), (a, b) ∈ l.zip l → a = b ∧ a ∈ l := by
              intro l; induction l with
              | nil => intro a b h'; simp at h'
              | cons y ys ihy =>
                intro a b h'
                simp only [List.zip_cons_cons, List.mem_cons, Prod.mk.injEq] at h'
                rcases h' with ⟨rfl, rfl⟩ | h'
                · exact ⟨rfl, by simp⟩
                · obtain ⟨e1, e2⟩ := ihy a b h'; exact ⟨e1, by simp [e2]⟩
            exact hself kept k1 k2 hkz
          obtain ⟨rfl, hk⟩ := this
          obtain ⟨h1, h2, _⟩ := present k1 hk x hx
          exact ⟨h1, h2⟩
        · apply buildCol_ok
          · rfl
          · simp
          · rw [List.pairwise_map]; exact hdist
          · intro r _ e he; simp [Md.empty] at he
          · intro q hq v hv
            simp only [List.zip_map, List.mem_map] at hq
            obtain ⟨⟨k1, k2⟩, hkz, rfl⟩ := hq
            have hself : ∀ (l : List MdEntry) (a b : MdEntry), (a, b) ∈ l.zip l → a = b ∧ a ∈ l := by
              intro l; induction l with
              | nil => intro a b h'; simp at h'
              | cons y ys ihy =>
                intro a b h'
                simp only [List.zip_cons_cons, List.mem_cons, Prod.mk.injEq] at h'
                rcases h' with ⟨rfl, rfl⟩ | h'
                · exact ⟨rfl, by simp⟩
                · obtain ⟨e1, e2⟩ := ihy a b h'; exact ⟨e1, by simp [e2]⟩
            obtain ⟨rfl, hk⟩ := hself kept k1 k2 hkz
            obtain ⟨_, htid, hc1⟩ := present k1 hk v hv
            refine ⟨hc1, ?_⟩
            intro d hdd
            obtain ⟨v', _, _, htid', _, _, hd⟩ := keptFacts k1 hk
            obtain ⟨h1, h2, _, _⟩ := hd d hdd
            exact ⟨by rw [h1, ← htid', htid], h2⟩
    exact hgen tm.cols (fun _ h' => h')

/-! ### the table-level entries survive unchanged -/

theorem triples_roundtrip (es : List MdEntry) (h : ∀ e ∈ es, ∃ v, e.value = some v) :
    (C03.tableTriples es).map (fun e => (⟨e.1, some e.2.1, e.2.2⟩ : MdEntry)) = es := by
  induction es with
  | nil => rfl
  | cons e es ih =>
    obtain ⟨v, hv⟩ := h e (by simp)
    simp only [C03.tableTriples, List.filterMap_cons, hv, Option.map_some, List.map_cons]
    have := ih (fun x hx => h x (by simp [hx]))
    simp only [C03.tableTriples] at this
    rw [this]
    cases e; simp_all

/-! ### the round trip -/

/-- C01: for every table the writers can represent (metadata `tm` whose column metadata folds to
    `kept`, slices of caller-built column slices), whose canonical layout is within the reader's
    allocation limits (`Ok`, `TSFits`): the bytes produced by the writer calls, read back by the
    caller loop (any trailing bytes, any column subset), give OK on every call, the same table
    metadata entries, per column the metadata rebuilt in name-list order, every slice with every
    cell and property array exactly as written, and then end-of-table at the end of the file. -/
theorem file_roundtrip (c : Cfg) (tm : TM) (slices : List (List CS)) (kept : List MdEntry) (cols : List Md)
    (hfold : foldCols (tm.cols.flatMap (·.entries)) = .ok kept)
    (htab : C03.MdWritable tm.table) (hcols : ∀ col ∈ tm.cols, C03.MdWritable col)
    (hkept : ∀ k ∈ kept, ∀ d, k.dflt = some d → Writable d)
    (hsl : ∀ s ∈ slices, ∀ x ∈ s, x.Writable)
    (hok : (C03.canonPhys tm kept).Ok c cols)
    (hn : ∀ s ∈ slices, s.length = tm.cols.length) (hf : ∀ s ∈ slices, TSFits c s)
    (sub : Option (List Bool)) (rest : Bytes) (fuel : Nat) (hfuel : slices.length < fuel) :
    ∃ bytes, Emits (writeFile c ⟨tm, slices.map (fun s => ⟨s.map some⟩)⟩) bytes ∧
      readFileF c sub fuel (bytes ++ rest).toArray =
        ⟨.ok (1, 0), some (.ok ⟨⟨tm.table.entries, false⟩, cols.map Md.freeze⟩),
         slices.map (fun s => ⟨maskFrom sub 0 s⟩), some (.tableEnd bytes.length)⟩ := by
  refine ⟨C04.file c (C03.canonPhys tm kept) slices, C03.file_bytes c tm slices kept hfold htab hcols hkept hsl hn, ?_⟩
  have hn' : ∀ s ∈ slices, s.length = (C03.canonPhys tm kept).cols.length := by
    intro s hs; simp [C03.canonPhys, hn s hs]
  rw [C04.reads_wellformed c _ cols slices hok hn' hf sub rest fuel hfuel]
  have : (C03.canonPhys tm kept).table.map (fun e => (⟨e.1, some e.2.1, e.2.2⟩ : MdEntry)) = tm.table.entries :=
    triples_roundtrip tm.table.entries (fun e he => by obtain ⟨⟨v, hv, _⟩, _⟩ := htab e he; exact ⟨v, hv⟩)
  simp only [C04.logicalTM, this]

/-! ### the rebuilt column metadata is the original, as a name-keyed set -/

theorem find_congr (col : Md) (a b : Bytes) (h : Md.nameEq a b = true) : col.find a = col.find b := by
  unfold Md.find
  congr 1
  funext e
  rw [nameEq_iff] at h
  simp [Md.nameEq, h]

theorem rebuilt_find_aux (col : Md) (l : List MdEntry) (n : Bytes) :
    ((rebuilt (l.map (fun k => (⟨k.name, entryTid k, k.dflt⟩ : NameRow)))
        (l.map (fun k => (col.find k.name).bind (·.value)))).find? (fun e => Md.nameEq e.name n)).bind (·.value) =
    ((l.find? (fun k => Md.nameEq k.name n && ((col.find k.name).bind (·.value)).isSome)).bind
      (fun k => (col.find k.name).bind (·.value))) := by
  induction l with
  | nil => simp [rebuilt]
  | cons k ks ih =>
    simp only [List.map_cons]
    cases hv : (col.find k.name).bind (·.value) with
    | none =>
      simp only [rebuilt, List.find?_cons, hv, Option.isSome_none, Bool.and_false]
      exact ih
    | some v =>
      simp only [rebuilt, List.find?_cons, hv, Option.isSome_some, Bool.and_true, C11.nameEq_cstr]
      by_cases hn : Md.nameEq k.name n = true
      · simp [hn, hv]
      · have : Md.nameEq k.name n = false := by simpa using hn
        simp only [this]
        exact ih

/-- looking a name up in the rebuilt column metadata gives the value the original column has
    under that name (present or absent alike): the two are equal as name-keyed sets of values -/
theorem rebuilt_lookup (col : Md) (kept : List MdEntry)
    (hrep : ∀ e ∈ col.entries, ∃ k ∈ kept, Md.nameEq k.name e.name = true)
    (n : Bytes) :
    ((⟨rebuilt (kept.map (fun k => (⟨k.name, entryTid k, k.dflt⟩ : NameRow)))
        (kept.map (fun k => (col.find k.name).bind (·.value))), true⟩ : Md).find n).bind (·.value) =
    (col.find n).bind (·.value) := by
  have h := rebuilt_find_aux col kept n
  have e1 : ∀ (l : List MdEntry), (⟨l, true⟩ : Md).find n = l.find? (fun e => Md.nameEq e.name n) := fun _ => rfl
  rw [e1, h]
  cases hf : kept.find? (fun k => Md.nameEq k.name n && ((col.find k.name).bind (·.value)).isSome) with
  | some k =>
    have hk := List.find?_some hf
    simp only [Bool.and_eq_true] at hk
    simp only [Option.bind_some]
    rw [find_congr col k.name n hk.1]
  | none =>
    simp only [Option.bind_none]
    cases hc : col.find n with
    | none => rfl
    | some e =>
      simp only [Option.bind_some]
      cases hv : e.value with
      | none => rfl
      | some v =>
        exfalso
        have hc' : col.entries.find? (fun e => Md.nameEq e.name n) = some e := hc
        have hmem : e ∈ col.entries := List.mem_of_find?_eq_some hc'
        have hen : Md.nameEq e.name n = true := by have := List.find?_some hc'; simpa using this
        obtain ⟨k, hk, hke⟩ := hrep e hmem
        have hkn : Md.nameEq k.name n = true := nameEq_trans hke hen
        have hfk : col.find k.name = some e := by rw [find_congr col k.name n hkn]; exact hc
        have := List.find?_eq_none.mp hf k hk
        simp [hkn, hfk, hv] at this

/-! ### everything together, for tables built through the API -/

theorem writable_of_fits {c : Cfg} {o : Obj} (h : o.Fits c) : Writable o := by
  unfold Obj.Fits at h
  split at h
  · rename_i ha; exact .inl ha
  · obtain ⟨sz, hsz, _⟩ := h; exact .inr ⟨sz, hsz⟩

theorem va_writable_of_fits {c : Cfg} {va : VA} (h : va.Fits c) : va.Writable := by
  cases va with
  | plain o => exact writable_of_fits h.1
  | rle rows runs vals => exact writable_of_fits h.2.2.1
  | bit vt rows bits => trivial

theorem cs_writable_of_fits {c : Cfg} {x : CS} (h : x.Fits c) : x.Writable :=
  ⟨va_writable_of_fits h.1, fun p hp => va_writable_of_fits (h.2.2.2.2 p hp).2⟩

/-- C01, end to end: for every table metadata object the API can build (invariants of C10) whose
    column metadata folds, and every list of slices of caller-built column slices, all within
    the reader's allocation limits: writing header, table metadata, slices and end marker and
    reading the stream back (any trailing bytes, any column subset) gives OK on every call, the
    same table-level entries, per column the same name-keyed metadata (rebuilt in name-list
    order), every slice with every cell and property array exactly as written, and then
    end-of-table at the end of the file. -/
theorem api_roundtrip (c : Cfg) (tm : TM) (slices : List (List CS)) (kept : List MdEntry)
    (h : ApiTM c tm kept) (hn : ∀ s ∈ slices, s.length = tm.cols.length) (hf : ∀ s ∈ slices, TSFits c s)
    (sub : Option (List Bool)) (rest : Bytes) (fuel : Nat) (hfuel : slices.length < fuel) :
    ∃ bytes, Emits (writeFile c ⟨tm, slices.map (fun s => ⟨s.map some⟩)⟩) bytes ∧
      readFileF c sub fuel (bytes ++ rest).toArray =
        ⟨.ok (1, 0), some (.ok ⟨⟨tm.table.entries, false⟩, (rebuiltCols tm kept).map Md.freeze⟩),
         slices.map (fun s => ⟨maskFrom sub 0 s⟩), some (.tableEnd bytes.length)⟩ := by
  obtain ⟨_, hall, _⟩ := fold_facts _ kept h.fold
  have mdw : ∀ (m : Md), (∀ e ∈ m.entries, ∃ v, e.value = some v ∧ v.count = 1 ∧
      (∀ d, e.dflt = some d → d.tid = v.tid ∧ d.count = 1)) → (∀ e ∈ m.entries, fitsStr c e.name.length ∧
      (∀ v, e.value = some v → v.Fits c ∧ v.tid < 256) ∧ (∀ d, e.dflt = some d → d.Fits c ∧ d.tid < 256)) →
      C03.MdWritable m := by
    intro m hi hfit e he
    obtain ⟨v, hv, _, _⟩ := hi e he
    obtain ⟨_, hfv, hfd⟩ := hfit e he
    exact ⟨⟨v, hv, writable_of_fits (hfv v hv).1⟩, fun d hd => writable_of_fits (hfd d hd).1⟩
  refine file_roundtrip c tm slices kept (rebuiltCols tm kept) h.fold (mdw _ h.tabSingle h.tabFit)
    (fun col hcol => mdw col (h.colInv col hcol).single (h.colFit col hcol)) ?_ ?_ (canon_ok c tm kept h) hn hf sub rest fuel hfuel
  · intro k hk d hd
    obtain ⟨col, hcol, hkc⟩ := entry_of_kept hall hk
    exact writable_of_fits ((h.colFit col hcol k hkc).2.2 d hd).1
  · intro s hs x hx
    exact cs_writable_of_fits ((hf s hs).1 x hx)

/-- with no subset every column of every slice comes back -/
theorem full_read_returns_all (s : List CS) : maskFrom none 0 s = s.map some := maskFrom_none 0 s

/-- If the writer cannot represent the input — same-named column metadata whose type or default
    differ — it returns INCORRECT_METADATA from the table-metadata call instead of producing a
    file: the status of `sbdf_tm_write` is then not OK. -/
theorem unrepresentable_is_refused (c : Cfg) (tm : TM) (e : Status)
    (hfold : foldCols (tm.cols.flatMap (·.entries)) = .error e)
    (htab : C03.MdWritable tm.table) :
    (writeTM c tm).st = .incorrectMd := by
  have he := C03.fold_error_status _ e hfold
  subst he
  obtain ⟨hemit, _⟩ := C03.emits_tableEntries c tm.table.entries htab
  unfold writeTM
  simp only [hfold]
  have h1 : Emits (secWrite 2 ++ writeInt32 c tm.table.cnt ++ WOut.seqAll (tm.table.entries.map (writeTableEntry c)) ++
      writeInt32 c tm.cols.length) _ :=
    Emits.append (Emits.append (Emits.append (emits_sec 2) (emits_int32 c _)) hemit) (emits_int32 c _)
  rw [(WOut.append_ok h1.1).2]; rfl

end Sbdf.C01

namespace Sbdf.C01
/-- non-vacuity (a concrete instance of the conclusion, evaluated by the kernel): a table with one
    column carrying a `Name`, one slice with a run-length column of three int rows -/
example :
    let colMd : Md := ⟨[⟨[78, 97, 109, 101], some ⟨10, [[99]]⟩, none⟩], false⟩
    let tm : TM := ⟨⟨[], false⟩, [colMd]⟩
    let cs : CS := ⟨.rle 3 [1, 0] ⟨2, [[1, 0, 0, 0], [2, 0, 0, 0]]⟩, 0, []⟩
    let w := writeFile {} ⟨tm, [⟨[some cs]⟩]⟩
    w.st = .ok ∧
    readFileF {} none 5 w.bytes.toArray =
      ⟨.ok (1, 0), some (.ok tm), [⟨[some cs]⟩], some (.tableEnd w.bytes.length)⟩ := by
  refine ⟨rfl, ?_⟩
  rfl

/-! ### what the writer cannot represent is refused (repair F26)

A table slice that does not have as many column slices as its table metadata has columns cannot be
read back (`sbdf_ts_read` answers COLUMN_COUNT_MISMATCH); since the repair the writer answers that
itself, before writing anything of the slice. -/

theorem mismatching_slice_refused (c : Cfg) (tm : TM) (ts : TS) (h : ts.cols.length ≠ tm.cols.length) :
    writeTSOf c tm ts = WOut.err .colCountMismatch := by
  simp [writeTSOf, h]

theorem st_append_ok {a b : WOut} (h : (a ++ b).st = .ok) : a.st = .ok ∧ b.st = .ok := by
  have h' : (WOut.seq a b).st = .ok := h
  unfold WOut.seq at h'
  by_cases ha : a.st = .ok
  · simp only [ha, if_true] at h'; exact ⟨ha, h'⟩
  · simp only [ha, if_false] at h'

theorem st_seqAll_ok (ws : List WOut) (h : (WOut.seqAll ws).st = .ok) : ∀ w ∈ ws, w.st = .ok := by
  induction ws with
  | nil => intro w hw; simp at hw
  | cons x xs ih =>
    intro w hw
    have := st_append_ok (a := x) (b := WOut.seqAll xs) h
    simp only [List.mem_cons] at hw
    rcases hw with rfl | hw
    · exact this.1
    · exact ih this.2 w hw

/-- if the writer calls for a whole table all report OK, every slice has the column count of the
    table metadata — the writer never produces a file whose slices the reader would refuse for
    their column count -/
theorem written_slices_match (c : Cfg) (tm : TM) (tss : List TS) (bytes : Bytes)
    (h : Emits (writeFile c ⟨tm, tss⟩) bytes) : ∀ ts ∈ tss, ts.cols.length = tm.cols.length := by
  intro ts hts
  have hst : (writeFile c ⟨tm, tss⟩).st = .ok := h.1
  unfold writeFile at hst
  have h1 := (st_append_ok hst).1
  have h2 := (st_append_ok h1).2
  have h3 := st_seqAll_ok _ h2 (writeTSOf c tm ts) (List.mem_map.mpr ⟨ts, hts, rfl⟩)
  false_or_by_contra
  rename_i hne
  rw [mismatching_slice_refused c tm ts hne] at h3
  simp [WOut.err] at h3

end Sbdf.C01
