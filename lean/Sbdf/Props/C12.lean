import Sbdf.Slice
namespace Sbdf.C12
end Sbdf.C12
