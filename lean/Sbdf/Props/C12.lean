/-
  C12 — Inputs are copied, outputs are independent, everything is released exactly once.

  The model is value-semantic, so "the constructor is unaffected by later modification of its
  input" and "a getter's result is independent of the container" hold by construction there; that
  part of the property lives in the tie (the harness overwrites and releases every input right
  after the constructor returns, and every returned copy, and compares with the model).

  What is proved here is the ownership protocol: every constructor, reader and copying getter
  creates a root that owns FRESH blocks (deep copy); a caller-built column/table slice owns only
  its own frame, a reader-built one owns the arrays / column slices it created.  For every history
  of such creations, releasing each root once — in any order — frees every block and frees none
  twice.
-/
import Sbdf.Basic
namespace Sbdf.C12

/-- a root object the caller must release, with the heap blocks its destroy function frees -/
structure Root where
  blocks : List Nat
  deriving DecidableEq, Repr

/-- the heap: blocks currently allocated -/
abbrev Heap := List Nat

/-- the documented destroy function: frees the root's blocks; `none` = some block is not live
    (double or invalid free) -/
def release (h : Heap) (r : Root) : Option Heap :=
  if r.blocks.all (fun b => h.contains b) then some (h.filter (fun b => !r.blocks.contains b)) else none

def releaseAll (h : Heap) : List Root → Option Heap
  | [] => some h
  | r :: rs => match release h r with
    | none => none
    | some h' => releaseAll h' rs

/-- ownership invariant: every live block belongs to exactly one root, once -/
structure Owned (h : Heap) (roots : List Root) : Prop where
  nodup : (roots.flatMap (·.blocks)).Nodup
  cover : ∀ b, b ∈ h ↔ b ∈ roots.flatMap (·.blocks)
  hnodup : h.Nodup

/-- constructors / readers / copying getters: a new root over fresh blocks (a deep copy shares
    nothing with its source).  `n` blocks numbered from the allocation counter `next`. -/
def create (h : Heap) (roots : List Root) (next n : Nat) : Heap × List Root × Nat :=
  let bs := List.range' next n
  (h ++ bs, roots ++ [⟨bs⟩], next + n)

theorem create_owned (h : Heap) (roots : List Root) (next n : Nat) (ho : Owned h roots)
    (hfresh : ∀ b ∈ h, b < next) :
    Owned (create h roots next n).1 (create h roots next n).2.1 ∧ ∀ b ∈ (create h roots next n).1, b < next + n := by
  simp only [create]
  have hbs : (List.range' next n).Nodup := List.nodup_range'
  have hdisj : ∀ b ∈ List.range' next n, b ∉ h := by
    intro b hb hbh
    rw [List.mem_range'_1] at hb
    have := hfresh _ hbh; omega
  refine ⟨⟨?_, ?_, ?_⟩, ?_⟩
  · simp only [List.flatMap_append, List.flatMap_cons, List.flatMap_nil, List.append_nil]
    rw [List.nodup_append]
    refine ⟨ho.nodup, hbs, ?_⟩
    intro a ha b hb hab
    subst hab
    exact hdisj a hb ((ho.cover a).mpr ha)
  · intro b
    simp only [List.mem_append, List.flatMap_append, List.flatMap_cons, List.flatMap_nil, List.append_nil]
    rw [ho.cover b]
  · rw [List.nodup_append]
    exact ⟨ho.hnodup, hbs, fun a ha b hb hab => by subst hab; exact hdisj a hb ha⟩
  · intro b hb
    simp only [List.mem_append, List.mem_range'_1] at hb
    rcases hb with hb | hb
    · have := hfresh b hb; omega
    · omega

/-- releasing one root of an owned heap succeeds, frees exactly its blocks, and the rest stays owned -/
theorem release_one (h : Heap) (r : Root) (rest : List Root) (ho : Owned h (r :: rest)) :
    ∃ h', release h r = some h' ∧ Owned h' rest := by
  have hall : r.blocks.all (fun b => h.contains b) = true := by
    rw [List.all_eq_true]; intro b hb
    simp only [List.contains_iff_mem, decide_eq_true_eq] 
    exact (ho.cover b).mpr (by simp [hb])
  refine ⟨h.filter (fun b => !r.blocks.contains b), by unfold release; rw [if_pos hall], ?_⟩
  have hnd := ho.nodup
  simp only [List.flatMap_cons] at hnd
  rw [List.nodup_append] at hnd
  refine ⟨hnd.2.1, ?_, ho.hnodup.filter _⟩
  intro b
  simp only [List.mem_filter, Bool.not_eq_true', List.contains_eq_mem, decide_eq_false_iff_not]
  rw [ho.cover b]
  simp only [List.flatMap_cons, List.mem_append]
  constructor
  · intro ⟨h1, h2⟩; rcases h1 with h1 | h1
    · exact absurd h1 h2
    · exact h1
  · intro h1
    exact ⟨.inr h1, fun h2 => hnd.2.2 b h2 b h1 rfl⟩

/-- Releasing every root exactly once, in the given order, frees everything and nothing twice. -/
theorem release_all (h : Heap) (roots : List Root) (ho : Owned h roots) : releaseAll h roots = some [] := by
  induction roots generalizing h with
  | nil =>
    have : h = [] := by
      cases h with
      | nil => rfl
      | cons b bs => have := (ho.cover b).mp (by simp); simp at this
    simp [releaseAll, this]
  | cons r rest ih =>
    obtain ⟨h', h1, h2⟩ := release_one h r rest ho
    simp only [releaseAll, h1]
    exact ih h' h2

/-- ownership does not depend on the order in which the caller releases -/
theorem owned_perm (h : Heap) (roots roots' : List Root) (hp : roots.Perm roots') (ho : Owned h roots) :
    Owned h roots' := by
  have hp' : (roots.flatMap (·.blocks)).Perm (roots'.flatMap (·.blocks)) := hp.flatMap_right _
  exact ⟨hp'.nodup_iff.mp ho.nodup, fun b => by rw [ho.cover b]; exact hp'.mem_iff, ho.hnodup⟩

/-- ... so any order of release works -/
theorem release_all_any_order (h : Heap) (roots order : List Root) (hp : roots.Perm order) (ho : Owned h roots) :
    releaseAll h order = some [] := release_all h order (owned_perm h roots order hp ho)

/-- releasing a root twice is detected (so "exactly once" is necessary) -/
theorem double_release (h : Heap) (r : Root) (rest : List Root) (ho : Owned h (r :: rest)) (hne : r.blocks ≠ []) :
    ∀ h', release h r = some h' → release h' r = none := by
  intro h' hr
  obtain ⟨h'', h1, h2⟩ := release_one h r rest ho
  rw [h1] at hr
  have hh : h'' = h' := by simpa using hr
  subst hh
  obtain ⟨b, hb⟩ := List.exists_mem_of_ne_nil _ hne
  have hnd := ho.nodup
  simp only [List.flatMap_cons] at hnd
  rw [List.nodup_append] at hnd
  have : b ∉ h'' := by
    intro hbh
    have := (h2.cover b).mp hbh
    exact hnd.2.2 b hb b this rfl
  have hall : ¬ (r.blocks.all (fun b => h''.contains b) = true) := by
    rw [List.all_eq_true]; intro hc
    have := hc b hb
    simp only [List.contains_iff_mem, decide_eq_true_eq] at this
    contradiction
  unfold release; rw [if_neg hall]

/-! ### which blocks the containers own -/

/-- a caller-built column slice / table slice: only its frame (and its name copies); the value
    arrays and column slices it references stay separate roots of the caller -/
def callerSlice (frame : List Nat) : Root := ⟨frame⟩
/-- a reader-built slice: its frame plus everything it created -/
def readerSlice (frame : List Nat) (parts : List Root) : Root := ⟨frame ++ parts.flatMap (·.blocks)⟩

/-- a caller-built slice and the arrays it references are released independently: both orders
    are fine and together they free everything -/
theorem caller_slice_and_arrays (next : Nat) (nArr nFrame : Nat) :
    let s0 := create [] [] next nArr
    let s1 := create s0.1 s0.2.1 s0.2.2 nFrame
    releaseAll s1.1 s1.2.1 = some [] ∧ releaseAll s1.1 s1.2.1.reverse = some [] := by
  intro s0 s1
  have h0 : Owned ([] : Heap) [] := ⟨by simp, by simp, by simp⟩
  have o0 := create_owned [] [] next nArr h0 (by simp)
  have o1 := create_owned s0.1 s0.2.1 s0.2.2 nFrame o0.1 (by
    intro b hb; have := o0.2 b hb; simpa [s0, create] using this)
  exact ⟨release_all _ _ o1.1, release_all_any_order _ _ _ (List.reverse_perm _).symm o1.1⟩

/-! ### adding to a reader-built (owning) container

Ownership is one flag per container.  What the caller adds by reference to a slice the *reader*
built (a value array as a property, a caller-built column slice as a column) is released with
that slice: the container adopts it, and the caller's list of things to release loses it.  The
history "add, destroy the slice, destroy what I added" is therefore a double release — stated
here so that the rule the harness follows (`radd`) is part of the model. -/

/-- the reader-built container after an addition: it owns the added element's blocks too -/
def adopt (container elem : Root) : Root := ⟨container.blocks ++ elem.blocks⟩

theorem adopt_owned (h : Heap) (c e : Root) (rest : List Root) (ho : Owned h (c :: e :: rest)) :
    Owned h (adopt c e :: rest) := by
  refine ⟨?_, ?_, ho.hnodup⟩
  · have := ho.nodup
    simpa [adopt, List.flatMap_cons, List.append_assoc] using this
  · intro b
    have := ho.cover b
    simpa [adopt, List.flatMap_cons, List.append_assoc] using this

/-- after the addition, releasing the container and the caller's other roots — each once, in any
    order — frees everything, the added element included -/
theorem adopted_released_with_container (h : Heap) (c e : Root) (rest order : List Root)
    (ho : Owned h (c :: e :: rest)) (hp : (adopt c e :: rest).Perm order) : releaseAll h order = some [] :=
  release_all_any_order h _ order hp (adopt_owned h c e rest ho)

/-- ... and releasing the added element once more afterwards is a double free -/
theorem adopted_released_again (h : Heap) (c e : Root) (rest : List Root) (ho : Owned h (c :: e :: rest))
    (hne : e.blocks ≠ []) : ∀ h', release h (adopt c e) = some h' → release h' e = none := by
  intro h' hr
  obtain ⟨h'', h1, h2⟩ := release_one h (adopt c e) rest (adopt_owned h c e rest ho)
  rw [h1] at hr
  have hh : h'' = h' := by simpa using hr
  subst hh
  obtain ⟨b, hb⟩ := List.exists_mem_of_ne_nil _ hne
  have hnd := (adopt_owned h c e rest ho).nodup
  simp only [List.flatMap_cons] at hnd
  rw [List.nodup_append] at hnd
  have hba : b ∈ (adopt c e).blocks := by simp [adopt, hb]
  have : b ∉ h'' := by
    intro hbh
    have := (h2.cover b).mp hbh
    exact hnd.2.2 b hba b this rfl
  have hall : ¬ (e.blocks.all (fun b => h''.contains b) = true) := by
    rw [List.all_eq_true]; intro hc
    have := hc b hb
    simp only [List.contains_iff_mem, decide_eq_true_eq] at this
    contradiction
  unfold release; rw [if_neg hall]

end Sbdf.C12
