/-
  C11 — Column and table slices keep their structural invariants.
-/
import Sbdf.Slice
import Sbdf.Gen.Tables
import Sbdf.Lemmas.P
namespace Sbdf.C11

/-! ### property additions -/

/-- An addition is accepted exactly when the row counts agree and the name is new. -/
theorem add_accepted_iff (cs : CS) (name : Bytes) (va : VA) :
    (∃ cs', csAddProperty cs name va = .ok cs') ↔
      (cs.values.rowCnt = va.rowCnt ∧ ¬ cs.props.any (fun p => Md.nameEq p.1 name) = true) := by
  unfold csAddProperty
  constructor
  · intro ⟨cs', h⟩
    split at h
    · simp at h
    · split at h
      · simp at h
      · rename_i h1 h2; exact ⟨by simpa using h1, h2⟩
  · intro ⟨h1, h2⟩
    simp [h1, h2]

/-- the two rejection statuses -/
theorem add_rejected (cs : CS) (name : Bytes) (va : VA) :
    (cs.values.rowCnt ≠ va.rowCnt → csAddProperty cs name va = .error .rowCountMismatch) ∧
    (cs.values.rowCnt = va.rowCnt → cs.props.any (fun p => Md.nameEq p.1 name) = true →
      csAddProperty cs name va = .error .propExists) := by
  unfold csAddProperty
  exact ⟨fun h => by simp [h], fun h1 h2 => by simp [h1, h2]⟩

/-- An accepted property is appended (insertion order preserved, nothing else changes) ... -/
theorem add_appends (cs cs' : CS) (name : Bytes) (va : VA) (h : csAddProperty cs name va = .ok cs') :
    cs'.props = cs.props ++ [(cstr name, va)] ∧ cs'.values = cs.values ∧ cs'.propCnt = cs.propCnt + 1 := by
  unfold csAddProperty at h
  split at h
  · simp at h
  · split at h
    · simp at h
    · simp at h; subst h; simp

theorem nameEq_cstr (a b : Bytes) : Md.nameEq (cstr a) b = Md.nameEq a b := by
  have : cstr (cstr a) = cstr a := by
    unfold cstr
    induction a with
    | nil => rfl
    | cons x xs ih =>
      simp only [List.takeWhile_cons]
      split
      · rename_i hx; simp only [List.takeWhile_cons, hx, if_true, ih]
      · rfl
  simp [Md.nameEq, this]

theorem nameEq_refl (a : Bytes) : Md.nameEq a a = true := by simp [Md.nameEq]

/-- ... and is retrievable by name as the very same array: the lookup returns the slot the
    addition filled (identity = index of the addition), whose content is the array added. -/
theorem get_after_add (cs cs' : CS) (name : Bytes) (va : VA) (h : csAddProperty cs name va = .ok cs') :
    csGetPropertyIdx cs' name = some cs.props.length ∧ csGetProperty cs' name = .ok va := by
  have hacc := (add_accepted_iff cs name va).mp ⟨cs', h⟩
  obtain ⟨hp, _, _⟩ := add_appends cs cs' name va h
  have hnone : ∀ p ∈ cs.props, Md.nameEq p.1 name = false := by
    intro p hpm
    have := hacc.2
    simp only [List.any_eq_true, not_exists, not_and, Bool.not_eq_true] at this
    exact this p hpm
  constructor
  · unfold csGetPropertyIdx
    rw [hp, List.findIdx?_append]
    have h1 : cs.props.findIdx? (fun p => Md.nameEq p.1 name) = none := by
      rw [List.findIdx?_eq_none_iff]; intro p hpm; simp [hnone p hpm]
    simp [h1, nameEq_cstr, nameEq_refl]
  · unfold csGetProperty
    rw [hp, List.find?_append]
    have h1 : cs.props.find? (fun p => Md.nameEq p.1 name) = none := by
      rw [List.find?_eq_none]; intro p hpm; simp [hnone p hpm]
    simp [h1, nameEq_cstr, nameEq_refl]

/-- earlier properties keep their slot and content -/
theorem get_preserved (cs cs' : CS) (name other : Bytes) (va : VA) (i : Nat)
    (h : csAddProperty cs name va = .ok cs') (hi : csGetPropertyIdx cs other = some i) :
    csGetPropertyIdx cs' other = some i := by
  obtain ⟨hp, _, _⟩ := add_appends cs cs' name va h
  unfold csGetPropertyIdx at hi ⊢
  rw [hp, List.findIdx?_append, hi]; rfl

/-- structural invariant of caller-built column slices -/
structure Inv (cs : CS) : Prop where
  cnt : cs.propCnt = cs.props.length
  rows : ∀ p ∈ cs.props, p.2.rowCnt = cs.values.rowCnt
  uniq : cs.props.Pairwise (fun p q => Md.nameEq p.1 q.1 = false)

theorem inv_create (v : VA) : Inv (csCreate v) := ⟨by simp [csCreate], by simp [csCreate], by simp [csCreate]⟩

theorem nameEq_symm (a b : Bytes) : Md.nameEq a b = Md.nameEq b a := by
  simp only [Md.nameEq]; exact Bool.eq_iff_iff.mpr ⟨fun h => by simpa using (beq_iff_eq.mp h).symm, fun h => by simpa using (beq_iff_eq.mp h).symm⟩

theorem inv_add (cs cs' : CS) (name : Bytes) (va : VA) (hinv : Inv cs) (h : csAddProperty cs name va = .ok cs') :
    Inv cs' := by
  have hacc := (add_accepted_iff cs name va).mp ⟨cs', h⟩
  obtain ⟨hp, hv, hc⟩ := add_appends cs cs' name va h
  refine ⟨?_, ?_, ?_⟩
  · rw [hc, hp, hinv.cnt]; simp
  · intro p hpm; rw [hp] at hpm; rw [hv]
    simp only [List.mem_append, List.mem_singleton] at hpm
    rcases hpm with h1 | h1
    · exact hinv.rows p h1
    · subst h1; exact hacc.1.symm
  · rw [hp, List.pairwise_append]
    refine ⟨hinv.uniq, by simp, ?_⟩
    intro p hpm q hq
    simp only [List.mem_singleton] at hq; subst hq
    have := hacc.2
    simp only [List.any_eq_true, not_exists, not_and, Bool.not_eq_true] at this
    simp only [nameEq_symm p.1, nameEq_cstr]
    rw [nameEq_symm]; exact this p hpm

/-- a table slice lists exactly the column slices added to it, in order -/
theorem ts_lists_added (css : List CS) : (css.foldl tsAdd tsCreate).cols = css.map some := by
  suffices h : ∀ (t : TS), (css.foldl tsAdd t).cols = t.cols ++ css.map some by simpa [tsCreate] using h tsCreate
  induction css with
  | nil => intro t; simp
  | cons c cs ih => intro t; simp [ih, tsAdd]

/-- every history of additions (accepted or rejected) from a fresh slice keeps the invariant;
    a rejected addition leaves the slice as it was -/
def addAll (cs : CS) : List (Bytes × VA) → CS
  | [] => cs
  | (n, v) :: rest => match csAddProperty cs n v with
    | .ok cs' => addAll cs' rest
    | .error _ => addAll cs rest

theorem inv_history (v : VA) (ops : List (Bytes × VA)) : Inv (addAll (csCreate v) ops) := by
  suffices h : ∀ cs, Inv cs → Inv (addAll cs ops) from h _ (inv_create v)
  induction ops with
  | nil => intro cs h; exact h
  | cons op rest ih =>
    intro cs h
    obtain ⟨n, va⟩ := op
    simp only [addAll]
    cases hr : csAddProperty cs n va with
    | ok cs' => exact ih cs' (inv_add cs cs' n va h hr)
    | error e => exact ih cs h

/-! ### slices read from a stream have exactly the metadata's column count -/

theorem readCols_length (c : Cfg) (n : Nat) (sub : Option (List Bool)) (i : Nat) (d : Array UInt8) (pos : Nat)
    (cols : List (Option CS)) (pos' : Nat) (h : readCols c n sub i d pos = .ok (cols, pos')) :
    cols.length = n := by
  induction n generalizing i pos cols pos' with
  | zero => simp [readCols, P.pure] at h; rw [h.1]; rfl
  | succ n ih =>
    simp only [readCols, P.bind_def, P.pure_def', P.bind] at h
    split at h
    · simp at h
    · rename_i col p1 _
      split at h
      · simp at h
      · rename_i rest p2 hrest
        simp only [P.pure] at h
        cases h
        simp [ih _ _ _ _ hrest]

theorem read_column_count (c : Cfg) (ncols : Nat) (sub : Option (List Bool)) (d : Array UInt8) (pos : Nat)
    (ts : TS) (pos' : Nat) (h : readTS c ncols sub d pos = .ok (some ts, pos')) :
    ts.cols.length = ncols := by
  simp only [readTS, P.bind_def, P.pure_def'] at h
  obtain ⟨v, p1, _, h⟩ := P.bind_eq_ok.mp h
  split at h
  · simp [P.pure_eq_ok] at h
  · split at h
    · simp at h
    · obtain ⟨cc, p2, _, h⟩ := P.bind_eq_ok.mp h
      split at h
      · simp at h
      · split at h
        · simp at h
        · obtain ⟨_, p3, _, h⟩ := P.bind_eq_ok.mp h
          obtain ⟨cols, p4, hcols, h⟩ := P.bind_eq_ok.mp h
          simp only [P.pure_eq_ok, Prod.mk.injEq, Option.some.injEq] at h
          rw [h.1]
          exact readCols_length c ncols sub 0 d _ cols _ hcols

/-! ### capacity growth (ghost arithmetic of the four realloc-when-full sites) -/

/-- `sbdf_calculate_array_capacity`: `while (cap < size) cap = g(cap);` for a growth step `g`
    (the library uses `g cap = 1 + cap * 3 / 2`).  Fuel = size + 1 iterations suffice for any
    step that grows by at least one.  The safety argument below holds for EVERY strictly
    growing step, so a different growth factor does not invalidate it. -/
def calcCapAux (g : Nat → Nat) : Nat → Nat → Nat → Nat
  | 0, cap, _ => cap
  | f+1, cap, size => if cap < size then calcCapAux g f (g cap) size else cap

def calcCap (g : Nat → Nat) (size : Nat) : Nat := calcCapAux g (size + 1) 0 size

/-- the library's growth step -/
def growLib (cap : Nat) : Nat := 1 + cap * 3 / 2

/-- tie to the compiled function (table regenerated every run): it returns at least the
    requested size for 0..40 — the fact the bounds argument rests on -/
theorem capacity_covers_size : ∀ r ∈ Gen.capRows, r.1 ≤ r.2 := by decide

theorem aux_ge (g : Nat → Nat) (hg : ∀ c, c < g c) (f cap size : Nat) (h : size ≤ f + cap) :
    size ≤ calcCapAux g f cap size := by
  induction f generalizing cap with
  | zero => simpa [calcCapAux] using h
  | succ f ih =>
    simp only [calcCapAux]
    split
    · apply ih; have := hg cap; omega
    · omega

theorem aux_fuel (g : Nat → Nat) (hg : ∀ c, c < g c) (f cap size : Nat) (h : size ≤ f + cap) :
    calcCapAux g (f + 1) cap size = calcCapAux g f cap size := by
  induction f generalizing cap with
  | zero => simp only [calcCapAux]; split <;> omega
  | succ f ih =>
    rw [calcCapAux]
    conv => rhs; rw [calcCapAux]
    split
    · apply ih; have := hg cap; omega
    · rfl

theorem aux_step (g : Nat → Nat) (f cap n : Nat) (hne : calcCapAux g f cap n ≠ n) :
    calcCapAux g f cap (n + 1) = calcCapAux g f cap n := by
  induction f generalizing cap with
  | zero => rfl
  | succ f ih =>
    simp only [calcCapAux] at hne ⊢
    by_cases h : cap < n
    · have h' : cap < n + 1 := by omega
      simp only [h, h', if_true] at hne ⊢
      exact ih _ hne
    · simp only [h, if_false] at hne ⊢
      have : ¬ cap < n + 1 := by omega
      simp [this]

/-- The growth pattern `if (calcCap(cnt) == cnt) realloc(calcCap(cnt + 1))` keeps the allocated
    capacity equal to `calcCap` of the element count, so the slot written next, index `cnt`, is
    always inside the allocation — for every strictly growing step. -/
theorem capacity_safe (g : Nat → Nat) (hg : ∀ c, c < g c) (n alloc : Nat) (hinv : alloc = calcCap g n) :
    let alloc' := if calcCap g n = n then calcCap g (n + 1) else alloc
    alloc' = calcCap g (n + 1) ∧ n < alloc' := by
  have hge : n + 1 ≤ calcCap g (n + 1) := aux_ge g hg _ _ _ (by omega)
  by_cases h : calcCap g n = n
  · simp only [h, if_true]; exact ⟨True.intro, by omega⟩
  · simp only [h, if_false]
    have e : calcCap g (n + 1) = calcCap g n := by
      unfold calcCap
      rw [aux_fuel g hg (n + 1) 0 (n + 1) (by omega)]
      exact aux_step g (n + 1) 0 n h
    rw [hinv, e]
    refine ⟨rfl, ?_⟩
    rw [← e]; omega

/-! #### arrays allocated by the readers

The readers (`sbdf_cs_read`, `sbdf_ts_read`, `sbdf_tm_read`) allocate exactly `count` entries, so
`alloc = calcCap count` does NOT hold for what they return — the hypothesis `hinv` above excludes
them, and at the excluded point the original code wrote past the array (defect F19, repaired):
slices carry an `owned` flag, and an owned slice is now always given room for one more entry;
`sbdf_tm_add` always sizes the array for `count + 1`. -/

/-- a pointer array of the library: who allocated it, how many entries are used / allocated -/
structure Arr where
  owned : Bool      -- built by a reader (exact size) rather than grown by the add functions
  n : Nat
  alloc : Nat
  deriving Repr, DecidableEq

/-- what is known about the allocation -/
def Arr.Inv (g : Nat → Nat) (a : Arr) : Prop :=
  if a.owned then a.n ≤ a.alloc else a.alloc = calcCap g a.n

/-- `sbdf_ts_add` / `sbdf_cs_add_property` after the repair: grow when full by the capacity rule,
    or whenever the slice is reader-built; then write slot `n` -/
def Arr.add (g : Nat → Nat) (a : Arr) : Arr :=
  ⟨a.owned, a.n + 1, if calcCap g a.n = a.n ∨ a.owned = true then calcCap g (a.n + 1) else a.alloc⟩

/-- every addition writes inside the allocation and keeps the invariant — for arrays grown by
    the library and for arrays allocated by a reader alike, for every strictly growing step -/
theorem add_in_bounds (g : Nat → Nat) (hg : ∀ c, c < g c) (a : Arr) (h : a.Inv g) :
    a.n < (a.add g).alloc ∧ (a.add g).Inv g := by
  have hge : a.n + 1 ≤ calcCap g (a.n + 1) := aux_ge g hg _ _ _ (by omega)
  cases ho : a.owned with
  | true =>
    simp only [Arr.add, Arr.Inv, ho, or_true, if_true]
    exact ⟨by omega, hge⟩
  | false =>
    simp only [Arr.Inv, ho, Bool.false_eq_true, if_false] at h
    have := capacity_safe g hg a.n a.alloc h
    simp only at this
    simp only [Arr.add, Arr.Inv, ho, Bool.false_eq_true, or_false, if_false]
    exact ⟨this.2, this.1⟩

/-- `k` additions in a row -/
def Arr.addN (g : Nat → Nat) : Nat → Arr → Arr
  | 0, a => a
  | k + 1, a => Arr.addN g k (a.add g)

/-- any number of additions, starting from a created (empty) or a reader-built (exact) array -/
theorem adds_in_bounds (g : Nat → Nat) (hg : ∀ c, c < g c) (k : Nat) (a : Arr) (h : a.Inv g) :
    (Arr.addN g k a).Inv g ∧ (Arr.addN g k a).n = a.n + k := by
  induction k generalizing a with
  | zero => exact ⟨h, rfl⟩
  | succ k ih =>
    have := ih (a.add g) (add_in_bounds g hg a h).2
    simp only [Arr.addN]
    exact ⟨this.1, by rw [this.2]; simp [Arr.add]; omega⟩

theorem created_inv (g : Nat → Nat) : (⟨false, 0, 0⟩ : Arr).Inv g := by
  simp [Arr.Inv, calcCap, calcCapAux]

theorem reader_built_inv (g : Nat → Nat) (n : Nat) : (⟨true, n, n⟩ : Arr).Inv g := by
  simp [Arr.Inv]

/-- `sbdf_tm_add` after the repair: the array is sized for `count + 1` on every call, whatever
    allocated it before -/
theorem tm_add_in_bounds (g : Nat → Nat) (hg : ∀ c, c < g c) (n : Nat) : n < calcCap g (n + 1) := by
  have := aux_ge g hg (n + 1 + 1) 0 (n + 1) (by omega)
  unfold calcCap; omega

/-- the excluded point of the original code, as a concrete instance: a reader-built array of 3
    entries is full, yet `calcCap 3 = 4 ≠ 3`, so the original rule did not grow it -/
example : calcCap growLib 3 = 4 ∧ (3 : Nat) ≥ (⟨true, 3, 3⟩ : Arr).alloc := by decide

/-- the library's step is strictly growing -/
theorem growLib_grows (c : Nat) : c < growLib c := by unfold growLib; omega

/-- non-vacuity -/
example : (csAddProperty (csCreate (.plain ⟨2, [[1, 0, 0, 0]]⟩)) [112] (.plain ⟨1, [[0]]⟩)).toOption.isSome = true
    ∧ calcCap growLib 5 = 7 := by decide

end Sbdf.C11
