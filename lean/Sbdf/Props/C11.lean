import Sbdf.Slice
namespace Sbdf.C11
end Sbdf.C11
