import Sbdf.Slice
namespace Sbdf.C05
end Sbdf.C05
