/-
  C05 — Hostile or corrupt input never breaks memory safety (the part a model can carry).

  Proved here, for every byte string and every column subset:
  * totality — every reader, skipper and accessor of the model is a total function (accepted by
    Lean's termination checker; loops are bounded by the counts the C loops use);
  * no ghost check fails (`NoUB`): no out-of-range shift, no overflowing size computation, no
    buffer-filling loop writing past / short of its allocation;
  * only documented status codes;
  * `returned_arrays_decode_no_ub`: `sbdf_va_get_values` on every value array (column values and
    properties) of everything a whole-file read of ARBITRARY bytes returned, with any column
    subset, succeeds or returns a status (postconditions of the readers, Lemmas/Post.lean).
  Heap discipline of the C error paths (double free, use after free, leaks, output arguments)
  is NOT in the model; it is observed under ASan + allocator accounting by the correspondence.
-/
import Sbdf.Lemmas.NoUB
import Sbdf.Lemmas.Post
import Sbdf.Lemmas.Mono
import Sbdf.Gen.Tables
namespace Sbdf.C05

/-- every reading entry point, on every input: no precondition of a C operation is violated -/
theorem readers_no_ub (c : Cfg) (n : Nat) (sub : Option (List Bool)) :
    NoUB fhRead ∧ NoUB (readTM c) ∧ NoUB (readTS c n sub) ∧ NoUB (skipTS c n) ∧
    NoUB (readCS c) ∧ NoUB (skipCS c) ∧ NoUB (readVA c) ∧ NoUB (skipVA c) := by
  refine ⟨nub_fhRead, nub_readTM c, nub_readTS c n sub, ?_, nub_readCS c, nub_skipCS c, nub_readVA c, nub_skipVA c⟩
  unfold skipTS; simp only [P.bind_def]
  exact NoUB.bind (nub_readTS c n _) (fun _ => NoUB.pure _)

/-- the caller loop over slices never ends in a failed ghost check -/
theorem readSlices_no_ub (c : Cfg) (n : Nat) (sub : Option (List Bool)) (d : Array UInt8) (fuel pos : Nat) (w : String) :
    (readSlices c n sub d fuel pos).2 ≠ .failed (.ub w) := by
  induction fuel generalizing pos with
  | zero => simp [readSlices]
  | succ fuel ih =>
    simp only [readSlices]
    cases h : readTS c n sub d pos with
    | error e =>
      simp only
      intro he; cases he
      exact (nub_readTS c n sub).out d pos w h
    | ok r =>
      obtain ⟨o, p1⟩ := r
      cases o with
      | none => simp
      | some ts => exact ih p1

/-- whole-file read of arbitrary bytes: no call ends in a failed ghost check -/
theorem readFile_no_ub (c : Cfg) (sub : Option (List Bool)) (fuel : Nat) (d : Array UInt8) (w : String) :
    let r := readFileF c sub fuel d
    r.fh ≠ .error (.ub w) ∧ r.tm ≠ some (.error (.ub w)) ∧ r.last ≠ some (.failed (.ub w)) := by
  simp only [readFileF]
  cases hfh : fhRead d 0 with
  | error e =>
    refine ⟨?_, by simp, by simp⟩
    intro he; cases he; exact nub_fhRead.out d 0 w hfh
  | ok r1 =>
    obtain ⟨v, p1⟩ := r1
    simp only
    cases htm : readTM c d p1 with
    | error e =>
      refine ⟨by simp, ?_, by simp⟩
      intro he; simp at he; cases he; exact (nub_readTM c).out d p1 w htm
    | ok r2 =>
      obtain ⟨tm, p2⟩ := r2
      refine ⟨by simp, by simp, ?_⟩
      intro he; simp at he
      exact readSlices_no_ub c _ sub d fuel p2 w he

/-! ### decoding what the readers return -/

theorem expand_zip_length (runs : Bytes) (vals : List Bytes) (h : runs.length = vals.length) :
    (rleExpand (runs.zip vals)).length = rleTotal runs := by
  unfold rleTotal
  suffices hs : ∀ acc, List.foldl (fun acc r => acc + r.toNat + 1) acc runs = acc + (rleExpand (runs.zip vals)).length by
    simpa using (hs 0).symm
  induction runs generalizing vals with
  | nil => intro acc; simp [rleExpand]
  | cons r rs ih =>
    cases vals with
    | nil => simp at h
    | cons v vs =>
      intro acc
      simp only [List.length_cons, Nat.add_right_cancel_iff] at h
      simp only [List.foldl_cons, List.zip_cons_cons, rleExpand, List.length_append, List.length_replicate, ih vs h]
      omega

/-- the run-length decoder never writes past, or short of, its output buffer — for ANY stored
    row count, run bytes and values (inconsistent ones are refused with a status) -/
theorem rle_decode_no_ub (c : Cfg) (rows : Int) (runs : Bytes) (vals : Obj) (w : String) :
    getValues c (.rle rows runs vals) ≠ .error (.ub w) := by
  simp only [getValues]
  split
  · simp
  · split; · simp
    split; · simp
    split; · simp
    split; · simp
    rename_i h1 h2 _ _
    simp only [ne_eq, Decidable.not_not] at h1 h2
    have hl := expand_zip_length runs vals.elems h1
    have : (rleExpand (runs.zip vals.elems)).length = rows.toNat := by rw [hl, ← h2]; simp
    simp [this]

/-- value arrays as the reader builds them: a bit array holds exactly ⌈rows/8⌉ bytes -/
def Sane : VA → Prop
  | .bit _ rows bits => 0 ≤ rows → rows.toNat ≤ bits.length * 8
  | _ => True

theorem packedSize_enough (v : Int) (h : 0 ≤ v) : v.toNat ≤ (packedSize v).toNat * 8 := by
  unfold packedSize
  have h1 : Int.tdiv v 8 = v / 8 := Int.tdiv_eq_ediv_of_nonneg h
  have h2 : Int.tmod v 8 = v % 8 := Int.tmod_eq_emod_of_nonneg h
  rw [h1, h2]
  split <;> omega

theorem readN_length (n : Nat) (d : Array UInt8) (pos : Nat) (b : Bytes) (p : Nat) (h : readN n d pos = .ok (b, p)) :
    b.length = n := by
  unfold readN at h
  split at h
  · rename_i hn; simp at h; rw [h.1, hn]; rfl
  · split at h
    · simp at h; rw [← h.1]; simp; omega
    · simp at h

theorem readVA_sane (c : Cfg) (d : Array UInt8) (pos : Nat) (va : VA) (p : Nat) (h : readVA c d pos = .ok (va, p)) :
    Sane va := by
  simp only [readVA, P.bind_def] at h
  obtain ⟨e, _, _, h⟩ := P.bind_eq_ok.mp h
  obtain ⟨vt, _, _, h⟩ := P.bind_eq_ok.mp h
  split at h
  · obtain ⟨o, _, _, h⟩ := P.bind_eq_ok.mp h
    simp only [P.pure_eq_ok, Prod.mk.injEq] at h; rw [h.1]; trivial
  · split at h
    · obtain ⟨_, _, _, h⟩ := P.bind_eq_ok.mp h
      obtain ⟨_, _, _, h⟩ := P.bind_eq_ok.mp h
      obtain ⟨_, _, _, h⟩ := P.bind_eq_ok.mp h
      simp only [P.pure_eq_ok, Prod.mk.injEq] at h; rw [h.1]; trivial
    · split at h
      · obtain ⟨v, _, _, h⟩ := P.bind_eq_ok.mp h
        split at h
        · simp at h
        · obtain ⟨_, _, _, h⟩ := P.bind_eq_ok.mp h
          obtain ⟨bits, _, hb, h⟩ := P.bind_eq_ok.mp h
          obtain ⟨_, _, _, h⟩ := P.bind_eq_ok.mp h
          simp only [P.pure_eq_ok, Prod.mk.injEq] at h; rw [h.1]
          intro hv
          rw [readN_length _ _ _ _ _ hb]
          exact packedSize_enough v hv
      · simp at h

/-- decoding any array the reader returned never reads past the packed buffer nor fills the
    output wrongly: `sbdf_va_get_values` either succeeds or returns a status -/
theorem decode_no_ub (c : Cfg) (va : VA) (hs : Sane va) (w : String) : getValues c va ≠ .error (.ub w) := by
  cases va with
  | plain o => simp [getValues]
  | rle rows runs vals => exact rle_decode_no_ub c rows runs vals w
  | bit vt rows bits =>
    simp only [getValues]
    split
    · simp
    · rename_i h
      simp only [not_or, Int.not_lt] at h
      have := hs h.1
      have : ¬ (bits.length * 8 < rows.toNat) := by omega
      simp [this]

theorem read_then_decode_no_ub (c : Cfg) (d : Array UInt8) (pos : Nat) (va : VA) (p : Nat)
    (h : readVA c d pos = .ok (va, p)) (w : String) : getValues c va ≠ .error (.ub w) :=
  decode_no_ub c va (readVA_sane c d pos va p h) w

/-! ### only documented statuses -/

/-! ### ... for everything a whole-file read returns, with any column subset -/

theorem post_readVA_sane (c : Cfg) : Post (readVA c) Sane :=
  fun d pos va p h => readVA_sane c d pos va p h

/-- every value array of a column slice the reader returns: the column values and every property -/
def CSSane (x : CS) : Prop := Sane x.values ∧ ∀ p ∈ x.props, Sane p.2

theorem post_readCS_sane (c : Cfg) : Post (readCS c) CSSane := by
  unfold readCS readProp
  simp only [P.bind_def]
  refine Post.bind (Q := fun _ => True) Post.trivial (fun _ _ => ?_)
  refine Post.bind (post_readVA_sane c) (fun values hv => ?_)
  refine Post.bind (Q := fun _ => True) Post.trivial (fun v _ => ?_)
  refine Post.ite (fun _ => Post.fail) (fun _ => ?_)
  refine Post.ite (fun _ => ?_) (fun _ => Post.pure ⟨hv, by simp⟩)
  refine Post.ite (fun _ => Post.fail) (fun _ => ?_)
  refine Post.bind (Q := fun _ => True) Post.trivial (fun _ _ => ?_)
  refine Post.bind (Q := fun _ => True) Post.trivial (fun _ _ => ?_)
  refine Post.bind (Post.readMany (Q := fun (p : Bytes × VA) => Sane p.2)
    (Post.bind (Q := fun _ => True) Post.trivial (fun name _ =>
      Post.bind (post_readVA_sane c) (fun va hva => Post.pure hva))) v.toNat) (fun props hp => Post.pure ?_)
  exact ⟨hv, hp.2⟩

theorem post_readCols_sane (c : Cfg) (n : Nat) (sub : Option (List Bool)) (i : Nat) :
    Post (readCols c n sub i) (fun l => ∀ x, some x ∈ l → CSSane x) := by
  induction n generalizing i with
  | zero => exact Post.pure (by simp)
  | succ n ih =>
    simp only [readCols, P.bind_def]
    refine Post.bind (Q := fun (o : Option CS) => ∀ x, o = some x → CSSane x) ?_ (fun col hcol => ?_)
    · refine Post.ite (fun _ => ?_) (fun _ => ?_)
      · exact Post.bind (post_readCS_sane c) (fun cs hcs => Post.pure (by
          intro x hx; simp only [Option.some.injEq] at hx; subst hx; exact hcs))
      · exact Post.bind (Q := fun _ => True) Post.trivial (fun _ _ => Post.pure (by intro x hx; cases hx))
    · refine Post.bind (ih (i + 1)) (fun rest hrest => Post.pure ?_)
      intro x hx
      simp only [List.mem_cons] at hx
      rcases hx with hx | hx
      · exact hcol x hx.symm
      · exact hrest x hx

theorem post_readTS_sane (c : Cfg) (n : Nat) (sub : Option (List Bool)) :
    Post (readTS c n sub) (fun r => ∀ ts, r = some ts → ∀ x, some x ∈ ts.cols → CSSane x) := by
  unfold readTS
  simp only [P.bind_def]
  refine Post.bind (Q := fun _ => True) Post.trivial (fun v _ => ?_)
  refine Post.ite (fun _ => Post.pure (by intro ts h; cases h)) (fun _ => ?_)
  refine Post.ite (fun _ => Post.fail) (fun _ => ?_)
  refine Post.bind (Q := fun _ => True) Post.trivial (fun cc _ => ?_)
  refine Post.ite (fun _ => Post.fail) (fun _ => ?_)
  refine Post.ite (fun _ => Post.fail) (fun _ => ?_)
  refine Post.bind (Q := fun _ => True) Post.trivial (fun _ _ => ?_)
  refine Post.bind (post_readCols_sane c n sub 0) (fun cols hcols => Post.pure ?_)
  intro ts hts
  simp only [Option.some.injEq] at hts
  subst hts
  exact hcols

theorem readSlices_mem (c : Cfg) (n : Nat) (sub : Option (List Bool)) (d : Array UInt8) :
    ∀ (fuel pos : Nat) (ts : TS), ts ∈ (readSlices c n sub d fuel pos).1 →
      ∃ p p', readTS c n sub d p = .ok (some ts, p') := by
  intro fuel
  induction fuel with
  | zero => intro pos ts h; simp [readSlices] at h
  | succ f ih =>
    intro pos ts h
    simp only [readSlices] at h
    split at h
    · simp at h
    · simp at h
    · rename_i t pos' hr
      simp only [List.mem_cons] at h
      rcases h with rfl | h
      · exact ⟨pos, pos', hr⟩
      · exact ih pos' ts h

/-- C05, accessors on whatever was returned: for EVERY byte string presented as a file, every
    column subset and every call bound, `sbdf_va_get_values` on the values or on any property of
    any column slice of any slice the reading loop returned never reads past a packed buffer and
    never fills its output wrongly — it succeeds or returns a status. -/
theorem returned_arrays_decode_no_ub (c : Cfg) (sub : Option (List Bool)) (fuel : Nat) (d : Array UInt8)
    (ts : TS) (hts : ts ∈ (readFileF c sub fuel d).slices) (x : CS) (hx : some x ∈ ts.cols) (w : String) :
    getValues c x.values ≠ .error (.ub w) ∧ ∀ p ∈ x.props, getValues c p.2 ≠ .error (.ub w) := by
  unfold readFileF at hts
  split at hts
  · simp at hts
  · split at hts
    · simp at hts
    · rename_i tm pos' _
      simp only at hts
      obtain ⟨p, p', hr⟩ := readSlices_mem c _ sub d fuel pos' ts hts
      have hs := post_readTS_sane c _ sub d p (some ts) p' hr ts rfl x hx
      exact ⟨decode_no_ub c x.values hs.1 w, fun q hq => decode_no_ub c q.2 (hs.2 q hq) w⟩

/-! ### the reading loop ends -/

/-- C05, "terminates", for the caller's loop as a whole: for EVERY byte string and every column
    subset, reading header, table metadata and then slices until a non-OK status ends with a
    status (an error or end-of-table) after at most `size / 3 + 1` slice calls — the bound of
    `size + 8` calls both drivers use is never exhausted.  (Every OK from `sbdf_ts_read` moves
    the stream at least three bytes forward inside the input: `Lemmas/Mono.lean`.  Before the
    repair of F20 this was false: a 43-byte file made `sbdf_ts_skip` return OK for ever.) -/
theorem reading_loop_terminates (c : Cfg) (sub : Option (List Bool)) (d : Array UInt8) (p : Nat) :
    (readFile c sub d).last ≠ some (.fuel p) := readFile_terminates c sub d p

/-- each OK from `sbdf_ts_read` consumes at least the three marker bytes -/
theorem slice_read_makes_progress (c : Cfg) (n : Nat) (sub : Option (List Bool)) (d : Array UInt8) (pos : Nat)
    (r : Option TS) (pos' : Nat) (h : readTS c n sub d pos = .ok (r, pos')) : pos + 3 ≤ pos' ∧ pos + 3 ≤ d.size :=
  readTS_advances c n sub d pos r pos' h

theorem status_all_complete (s : Status) : s ∈ Status.all := by cases s <;> decide

/-- every status code of the model is a status macro of include/errors.h (regenerated table) -/
theorem documented_status (s : Status) : s.toInt ∈ Gen.statusMacros.map (·.2) := by
  have h : ∀ s ∈ Status.all, s.toInt ∈ Gen.statusMacros.map (·.2) := by decide
  exact h s (status_all_complete s)

/-- non-vacuity: a hostile six-group length is refused, not shifted out of range -/
example : read7 ([0xff, 0xff, 0xff, 0xff, 0xff, 0x01] : Bytes).toArray 0 = .error (.st .invalidSize) := by rfl

end Sbdf.C05
