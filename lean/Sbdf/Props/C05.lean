/-
  C05 — Hostile or corrupt input never breaks memory safety (the part a model can carry).

  Proved here, for every byte string and every column subset:
  * totality — every reader, skipper and accessor of the model is a total function (accepted by
    Lean's termination checker; loops are bounded by the counts the C loops use);
  * no ghost check fails (`NoUB`): no out-of-range shift, no overflowing size computation, no
    buffer-filling loop writing past / short of its allocation;
  * only documented status codes.
  Heap discipline of the C error paths (double free, use after free, leaks, output arguments)
  is NOT in the model; it is observed under ASan + allocator accounting by the correspondence.
-/
import Sbdf.Lemmas.NoUB
import Sbdf.Gen.Tables
namespace Sbdf.C05

/-- every reading entry point, on every input: no precondition of a C operation is violated -/
theorem readers_no_ub (c : Cfg) (n : Nat) (sub : Option (List Bool)) :
    NoUB fhRead ∧ NoUB (readTM c) ∧ NoUB (readTS c n sub) ∧ NoUB (skipTS c n) ∧
    NoUB (readCS c) ∧ NoUB (skipCS c) ∧ NoUB (readVA c) ∧ NoUB (skipVA c) := by
  refine ⟨nub_fhRead, nub_readTM c, nub_readTS c n sub, ?_, nub_readCS c, nub_skipCS c, nub_readVA c, nub_skipVA c⟩
  unfold skipTS; simp only [P.bind_def]
  exact NoUB.bind (nub_readTS c n _) (fun _ => NoUB.pure _)

/-- the caller loop over slices never ends in a failed ghost check -/
theorem readSlices_no_ub (c : Cfg) (n : Nat) (sub : Option (List Bool)) (d : Array UInt8) (fuel pos : Nat) (w : String) :
    (readSlices c n sub d fuel pos).2 ≠ .failed (.ub w) := by
  induction fuel generalizing pos with
  | zero => simp [readSlices]
  | succ fuel ih =>
    simp only [readSlices]
    cases h : readTS c n sub d pos with
    | error e =>
      simp only
      intro he; cases he
      exact (nub_readTS c n sub).out d pos w h
    | ok r =>
      obtain ⟨o, p1⟩ := r
      cases o with
      | none => simp
      | some ts => exact ih p1

/-- whole-file read of arbitrary bytes: no call ends in a failed ghost check -/
theorem readFile_no_ub (c : Cfg) (sub : Option (List Bool)) (fuel : Nat) (d : Array UInt8) (w : String) :
    let r := readFileF c sub fuel d
    r.fh ≠ .error (.ub w) ∧ r.tm ≠ some (.error (.ub w)) ∧ r.last ≠ some (.failed (.ub w)) := by
  simp only [readFileF]
  cases hfh : fhRead d 0 with
  | error e =>
    refine ⟨?_, by simp, by simp⟩
    intro he; cases he; exact nub_fhRead.out d 0 w hfh
  | ok r1 =>
    obtain ⟨v, p1⟩ := r1
    simp only
    cases htm : readTM c d p1 with
    | error e =>
      refine ⟨by simp, ?_, by simp⟩
      intro he; simp at he; cases he; exact (nub_readTM c).out d p1 w htm
    | ok r2 =>
      obtain ⟨tm, p2⟩ := r2
      refine ⟨by simp, by simp, ?_⟩
      intro he; simp at he
      exact readSlices_no_ub c _ sub d fuel p2 w he

/-! ### decoding what the readers return -/

theorem expand_zip_length (runs : Bytes) (vals : List Bytes) (h : runs.length = vals.length) :
    (rleExpand (runs.zip vals)).length = rleTotal runs := by
  unfold rleTotal
  suffices hs : ∀ acc, List.foldl (fun acc r => acc + r.toNat + 1) acc runs = acc + (rleExpand (runs.zip vals)).length by
    simpa using (hs 0).symm
  induction runs generalizing vals with
  | nil => intro acc; simp [rleExpand]
  | cons r rs ih =>
    cases vals with
    | nil => simp at h
    | cons v vs =>
      intro acc
      simp only [List.length_cons, Nat.add_right_cancel_iff] at h
      simp only [List.foldl_cons, List.zip_cons_cons, rleExpand, List.length_append, List.length_replicate, ih vs h]
      omega

/-- the run-length decoder never writes past, or short of, its output buffer — for ANY stored
    row count, run bytes and values (inconsistent ones are refused with a status) -/
theorem rle_decode_no_ub (c : Cfg) (rows : Int) (runs : Bytes) (vals : Obj) (w : String) :
    getValues c (.rle rows runs vals) ≠ .error (.ub w) := by
  simp only [getValues]
  split
  · simp
  · split; · simp
    split; · simp
    split; · simp
    split; · simp
    rename_i h1 h2 _ _
    simp only [ne_eq, Decidable.not_not] at h1 h2
    have hl := expand_zip_length runs vals.elems h1
    have : (rleExpand (runs.zip vals.elems)).length = rows.toNat := by rw [hl, ← h2]; simp
    simp [this]

/-- value arrays as the reader builds them: a bit array holds exactly ⌈rows/8⌉ bytes -/
def Sane : VA → Prop
  | .bit _ rows bits => 0 ≤ rows → rows.toNat ≤ bits.length * 8
  | _ => True

theorem packedSize_enough (v : Int) (h : 0 ≤ v) : v.toNat ≤ (packedSize v).toNat * 8 := by
  unfold packedSize
  have h1 : Int.tdiv v 8 = v / 8 := Int.tdiv_eq_ediv_of_nonneg h
  have h2 : Int.tmod v 8 = v % 8 := Int.tmod_eq_emod_of_nonneg h
  rw [h1, h2]
  split <;> omega

theorem readN_length (n : Nat) (d : Array UInt8) (pos : Nat) (b : Bytes) (p : Nat) (h : readN n d pos = .ok (b, p)) :
    b.length = n := by
  unfold readN at h
  split at h
  · rename_i hn; simp at h; rw [h.1, hn]; rfl
  · split at h
    · simp at h; rw [← h.1]; simp; omega
    · simp at h

theorem readVA_sane (c : Cfg) (d : Array UInt8) (pos : Nat) (va : VA) (p : Nat) (h : readVA c d pos = .ok (va, p)) :
    Sane va := by
  simp only [readVA, P.bind_def] at h
  obtain ⟨e, _, _, h⟩ := P.bind_eq_ok.mp h
  obtain ⟨vt, _, _, h⟩ := P.bind_eq_ok.mp h
  split at h
  · obtain ⟨o, _, _, h⟩ := P.bind_eq_ok.mp h
    simp only [P.pure_eq_ok, Prod.mk.injEq] at h; rw [h.1]; trivial
  · split at h
    · obtain ⟨_, _, _, h⟩ := P.bind_eq_ok.mp h
      obtain ⟨_, _, _, h⟩ := P.bind_eq_ok.mp h
      obtain ⟨_, _, _, h⟩ := P.bind_eq_ok.mp h
      simp only [P.pure_eq_ok, Prod.mk.injEq] at h; rw [h.1]; trivial
    · split at h
      · obtain ⟨v, _, _, h⟩ := P.bind_eq_ok.mp h
        obtain ⟨_, _, _, h⟩ := P.bind_eq_ok.mp h
        obtain ⟨bits, _, hb, h⟩ := P.bind_eq_ok.mp h
        obtain ⟨_, _, _, h⟩ := P.bind_eq_ok.mp h
        simp only [P.pure_eq_ok, Prod.mk.injEq] at h; rw [h.1]
        intro hv
        rw [readN_length _ _ _ _ _ hb]
        exact packedSize_enough v hv
      · simp at h

/-- decoding any array the reader returned never reads past the packed buffer nor fills the
    output wrongly: `sbdf_va_get_values` either succeeds or returns a status -/
theorem decode_no_ub (c : Cfg) (va : VA) (hs : Sane va) (w : String) : getValues c va ≠ .error (.ub w) := by
  cases va with
  | plain o => simp [getValues]
  | rle rows runs vals => exact rle_decode_no_ub c rows runs vals w
  | bit vt rows bits =>
    simp only [getValues]
    split
    · simp
    · rename_i h
      simp only [not_or, Int.not_lt] at h
      have := hs h.1
      have : ¬ (bits.length * 8 < rows.toNat) := by omega
      simp [this]

theorem read_then_decode_no_ub (c : Cfg) (d : Array UInt8) (pos : Nat) (va : VA) (p : Nat)
    (h : readVA c d pos = .ok (va, p)) (w : String) : getValues c va ≠ .error (.ub w) :=
  decode_no_ub c va (readVA_sane c d pos va p h) w

/-! ### only documented statuses -/

theorem status_all_complete (s : Status) : s ∈ Status.all := by cases s <;> decide

/-- every status code of the model is a status macro of include/errors.h (regenerated table) -/
theorem documented_status (s : Status) : s.toInt ∈ Gen.statusMacros.map (·.2) := by
  have h : ∀ s ∈ Status.all, s.toInt ∈ Gen.statusMacros.map (·.2) := by decide
  exact h s (status_all_complete s)

/-- non-vacuity: a hostile six-group length is refused, not shifted out of range -/
example : read7 ([0xff, 0xff, 0xff, 0xff, 0xff, 0x01] : Bytes).toArray 0 = .error (.st .invalidSize) := by rfl

end Sbdf.C05
