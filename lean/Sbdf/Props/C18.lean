/-
  C18 — Independent objects can be used from concurrent threads.
  (i) abstract non-interference: threads that only read an immutable shared part and
  read/write their own private state obtain, under every interleaving, the results of their
  sequential runs; (ii) decided from the generated tables: the library has no mutable
  shared state (every reference to every variable with static storage duration is a read or
  passes its address to a const parameter) and calls only re-entrant externals.
-/
import Sbdf.Gen.Globals
import Sbdf.Gen.Surface
import Sbdf.Props.C20
namespace Sbdf.C18

variable {G S Out : Type}

/-- one atomic step of a thread: reads the shared immutable `g`, updates its own state -/
abbrev Step (G S Out : Type) := G → S → S × Out

/-- run a schedule (a list of thread ids): each entry lets that thread take one step -/
def runSched (step : Step G S Out) (g : G) : List Nat → (Nat → S) → (Nat → S) × List (Nat × Out)
  | [], st => (st, [])
  | i :: rest, st =>
    let r := step g (st i)
    let st' := fun j => if j = i then r.1 else st j
    let rr := runSched step g rest st'
    (rr.1, (i, r.2) :: rr.2)

/-- thread `i` running alone for `n` steps -/
def runSeq (step : Step G S Out) (g : G) : Nat → S → S × List Out
  | 0, s => (s, [])
  | n+1, s =>
    let r := step g s
    let rr := runSeq step g n r.1
    (rr.1, r.2 :: rr.2)

def outputsOf (i : Nat) (l : List (Nat × Out)) : List Out :=
  (l.filter (fun p => p.1 = i)).map (·.2)

/-- Non-interference: under every schedule, thread `i` ends in the state and has produced the
    outputs of its sequential run with as many steps as the schedule gave it. -/
theorem noninterference (step : Step G S Out) (g : G) (sched : List Nat) (st : Nat → S) (i : Nat) :
    (runSched step g sched st).1 i = (runSeq step g (sched.count i) (st i)).1 ∧
    outputsOf i (runSched step g sched st).2 = (runSeq step g (sched.count i) (st i)).2 := by
  induction sched generalizing st with
  | nil => simp [runSched, runSeq, outputsOf]
  | cons j rest ih =>
    simp only [runSched]
    by_cases hji : j = i
    · subst hji
      have := ih (fun k => if k = j then (step g (st j)).1 else st k)
      simp only [if_true] at this
      simp only [List.count_cons_self, runSeq, outputsOf, List.filter_cons, decide_true, if_true,
        List.map_cons]
      exact ⟨this.1, by rw [← this.2]; rfl⟩
    · have := ih (fun k => if k = j then (step g (st j)).1 else st k)
      have hij : ¬ i = j := fun h => hji h.symm
      simp only [hij, if_false] at this
      have hc : (j :: rest).count i = rest.count i := by
        simp [List.count_cons, hji]
      rw [hc]
      simp only [outputsOf, List.filter_cons, hji, decide_false]
      exact this

/-- the access kinds that cannot modify a variable (`unevaluated` = operand of `sizeof`) -/
def readOnlyKinds : List String := ["read", "constarg", "unevaluated"]

/-- (ii-a) every variable with static storage duration in src/*.c is either declared `const`
    (the whole object: a write to it does not compile) or every reference to it is a read, an
    unevaluated operand, or passes its address to a parameter declared pointer-to-const -/
theorem globals_read_only :
    ∀ g ∈ Gen.globals, g.2.2.2.1 = true ∨ ∀ r ∈ g.2.2.2.2, r.2 ∈ readOnlyKinds := by decide

/-- (ii-b) there is no function-local static variable, except objects declared `const`
    (lookup tables) -/
theorem no_static_locals : ∀ g ∈ Gen.globals, g.2.2.1 = "file-scope" ∨ g.2.2.2.1 = true := by decide

/-- (ii-c) every writable data symbol of every object is one of the variables accounted for above -/
theorem data_symbols_accounted :
    ∀ d ∈ Gen.dataSyms, (d.1, d.2.1) ∈ Gen.globals.map (fun g => (g.1, g.2.1)) := by decide

/-- (ii-d) every external callee is in the passive family of C20, all of which are re-entrant
    (no hidden static state: no strtok, rand, localtime, setlocale, ...) -/
theorem externals_reentrant : ∀ s ∈ Gen.undefinedSyms, s.2 ∈ C20.allowed := C20.passive

example : (runSched (fun (g : Nat) (s : Nat) => (s + g, s)) 1 [0, 1, 0] (fun _ => 0)).1 0 = 2 := by decide

end Sbdf.C18
