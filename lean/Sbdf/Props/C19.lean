/-
  C19 — Charset helpers are exact, size-consistent and stay inside the input.
  The converters walk the buffer `s ++ [0]` (exactly the allocation the harness gives them);
  a read outside it is `ub` in the model, so "reads nothing past the terminator" is "never `ub`".
-/
import Sbdf.Str
namespace Sbdf.C19

/-- transfer a statement over all 256 byte values to a bounded-Nat statement `decide` can do -/
theorem forall_uint8 (p : UInt8 → Prop) (h : ∀ n : Fin 256, p (UInt8.ofNat n.val)) : ∀ b : UInt8, p b := by
  intro b
  have := h ⟨b.toNat, b.toNat_lt⟩
  simpa using this

/-! ### the size-only call announces exactly what the converting call writes -/

theorem u2i_size_eq (f : Nat) (l : Bytes) :
    u2iSize f l = (u2iOut f l).map (fun o => o.length + 1) := by
  induction f generalizing l with
  | zero => simp [u2iSize, u2iOut, Except.map]
  | succ f ih =>
    cases l with
    | nil => simp [u2iSize, u2iOut, Except.map]
    | cons ch rest =>
      simp only [u2iSize, u2iOut]
      split
      · simp [Except.map]
      · split
        · rw [ih]; cases u2iOut f rest <;> simp [Except.map]
        · split
          · cases rest with
            | nil => simp [Except.map]
            | cons ch2 rest2 =>
              simp only
              rw [ih]; cases u2iOut f _ <;> simp [Except.map]
          · cases skipCont rest with
            | none => simp [Except.map]
            | some r' => simp only; rw [ih]; cases u2iOut f r' <;> simp [Except.map]

/-- UTF-8 → ISO-8859-1: length-only result = bytes written, terminator included -/
theorem utf8ToLatin1_size (l : Bytes) :
    utf8ToLatin1Size l = (utf8ToLatin1 l).map (fun o => o.length + 1) := u2i_size_eq _ l

/-- ISO-8859-1 → UTF-8: the same -/
theorem i2u_size_eq (l : Bytes) : i2uSize l = (i2uOut l).map (fun o => o.length + 1) := by
  induction l with
  | nil => simp [i2uSize, i2uOut, Except.map]
  | cons ch rest ih =>
    simp only [i2uSize, i2uOut]
    split
    · simp [Except.map]
    · split
      · rw [ih]; cases i2uOut rest <;> simp [Except.map]
      · rw [ih]; cases i2uOut rest <;> simp [Except.map]

/-! ### staying inside the input -/

theorem skipCont_terminated (t : Bytes) :
    ∃ t', skipCont (t ++ [0]) = some (t' ++ [0]) ∧ t'.length ≤ t.length := by
  induction t with
  | nil => exact ⟨[], by simp [skipCont, isCont], by simp⟩
  | cons x xs ih =>
    simp only [List.cons_append, skipCont]
    split
    · obtain ⟨t', h1, h2⟩ := ih
      exact ⟨t', h1, by simp; omega⟩
    · exact ⟨x :: xs, rfl, by simp⟩

/-- UTF-8 → ISO-8859-1 never reads past the terminator, whatever (malformed, truncated) bytes
    precede it, and always terminates with a result -/
theorem u2i_in_bounds (f : Nat) (t : Bytes) (hf : t.length < f) : ∃ o, u2iOut f (t ++ [0]) = .ok o := by
  induction f generalizing t with
  | zero => omega
  | succ f ih =>
    cases t with
    | nil => exact ⟨[], by simp [u2iOut]⟩
    | cons ch rest =>
      simp only [List.length_cons] at hf
      simp only [List.cons_append, u2iOut]
      split
      · exact ⟨[], rfl⟩
      · split
        · obtain ⟨o, ho⟩ := ih rest (by omega)
          exact ⟨ch :: o, by rw [ho]; rfl⟩
        · split
          · cases rest with
            | nil =>
              -- the lead byte is directly followed by the terminator: it is not consumed
              simp only [List.nil_append]
              obtain ⟨o, ho⟩ := ih [] (by simp; omega)
              simp only [List.nil_append] at ho
              exact ⟨dec2 ch 0 :: o, by simp [ho, Except.map]⟩
            | cons ch2 rest2 =>
              simp only [List.cons_append]
              by_cases h0 : ch2 = 0
              · obtain ⟨o, ho⟩ := ih (ch2 :: rest2) (by simp at hf ⊢; omega)
                simp only [List.cons_append] at ho
                exact ⟨dec2 ch ch2 :: o, by simp [h0] at ho ⊢; simp [ho, Except.map]⟩
              · obtain ⟨o, ho⟩ := ih rest2 (by simp at hf; omega)
                exact ⟨dec2 ch ch2 :: o, by simp [h0, ho, Except.map]⟩
          · obtain ⟨t', h1, h2⟩ := skipCont_terminated rest
            rw [h1]
            obtain ⟨o, ho⟩ := ih t' (by omega)
            exact ⟨REPL :: o, by simp [ho, Except.map]⟩

theorem utf8ToLatin1_in_bounds (t : Bytes) : ∃ o, utf8ToLatin1 (t ++ [0]) = .ok o :=
  u2i_in_bounds _ t (by simp; omega)

/-- ISO-8859-1 → UTF-8 never reads past the terminator -/
theorem i2u_in_bounds (t : Bytes) : ∃ o, i2uOut (t ++ [0]) = .ok o := by
  induction t with
  | nil => exact ⟨[], by simp [i2uOut]⟩
  | cons ch rest ih =>
    obtain ⟨o, ho⟩ := ih
    simp only [List.cons_append, i2uOut]
    split
    · exact ⟨[], rfl⟩
    · split
      · exact ⟨ch :: o, by simp [ho, Except.map]⟩
      · exact ⟨((0xc0 : UInt8) ||| (ch >>> 6)) :: ((0x80 : UInt8) ||| (ch &&& 0x3f)) :: o, by simp [ho, Except.map]⟩

/-! ### exactness -/

/-- byte-level facts about the two-byte form of a Latin-1 character ≥ 0x80 -/
theorem two_byte_facts : ∀ ch : UInt8, ch > 0x7f →
    ((0xc0 : UInt8) ||| (ch >>> 6)) ≠ 0 ∧ ¬ ((0xc0 : UInt8) ||| (ch >>> 6)) ≤ 0x7f ∧
    ((0xc0 : UInt8) ||| (ch >>> 6)) ≥ 0xc0 ∧ ((0xc0 : UInt8) ||| (ch >>> 6)) < 0xdf ∧
    ((0x80 : UInt8) ||| (ch &&& 0x3f)) ≠ 0 ∧ isCont ((0x80 : UInt8) ||| (ch &&& 0x3f)) = true ∧
    dec2 ((0xc0 : UInt8) ||| (ch >>> 6)) ((0x80 : UInt8) ||| (ch &&& 0x3f)) = ch ∧
    (((0xc0 : UInt8) ||| (ch >>> 6)) = 0xc2 ∨ ((0xc0 : UInt8) ||| (ch >>> 6)) = 0xc3) := by
  apply forall_uint8
  decide +kernel

/-- ISO-8859-1 → UTF-8 → ISO-8859-1 is the identity on NUL-free strings (`f` = any sufficient
    fuel of the model's loop) -/
theorem roundtrip_fuel (s : Bytes) (h0 : (0 : UInt8) ∉ s) :
    ∃ u, i2uOut (s ++ [0]) = .ok u ∧ ∀ f, u.length < f → u2iOut f (u ++ [0]) = .ok s := by
  induction s with
  | nil =>
    refine ⟨[], by simp [i2uOut], ?_⟩
    intro f h
    cases f with
    | zero => omega
    | succ f => simp [u2iOut]
  | cons ch rest ih =>
    simp only [List.mem_cons, not_or] at h0
    have hch : ch ≠ 0 := fun e => h0.1 e.symm
    obtain ⟨u, hu, hb⟩ := ih h0.2
    simp only [List.cons_append, i2uOut, hch, if_false]
    by_cases hascii : ch ≤ 0x7f
    · refine ⟨ch :: u, by simp [hascii, hu, Except.map], ?_⟩
      intro f hl
      cases f with
      | zero => omega
      | succ f =>
        simp only [List.length_cons] at hl
        simp only [List.cons_append, u2iOut, hch, if_false, hascii, if_true]
        rw [hb f (by omega)]; rfl
    · have hgt : ch > 0x7f := by
        rcases UInt8.lt_or_lt_of_ne (a := ch) (b := 0x7f) (fun e => hascii (by rw [e]; decide)) with h | h
        · exact absurd (UInt8.le_of_lt h) hascii
        · exact h
      obtain ⟨f1, f2, f3, f4, f5, f6, f7, _⟩ := two_byte_facts ch hgt
      refine ⟨((0xc0 : UInt8) ||| (ch >>> 6)) :: ((0x80 : UInt8) ||| (ch &&& 0x3f)) :: u,
        by simp [hascii, hu, Except.map], ?_⟩
      intro f hl
      cases f with
      | zero => omega
      | succ f =>
        simp only [List.length_cons] at hl
        simp only [List.cons_append, u2iOut, f1, if_false, f2, f3, f4, and_self, if_true, f5, f7]
        rw [hb f (by omega)]; rfl

/-- ISO-8859-1 → UTF-8 → ISO-8859-1 returns the original, for every NUL-free string -/
theorem roundtrip (s : Bytes) (h0 : (0 : UInt8) ∉ s) :
    ∃ u, i2uOut (s ++ [0]) = .ok u ∧ utf8ToLatin1 (u ++ [0]) = .ok s := by
  obtain ⟨u, h1, h2⟩ := roundtrip_fuel s h0
  exact ⟨u, h1, h2 _ (by simp; omega)⟩

/-- the intermediate UTF-8 is well formed: ASCII bytes and two-byte sequences
    (lead 0xC2/0xC3, continuation 0x80..0xBF) only -/
inductive WellFormed : Bytes → Prop
  | nil : WellFormed []
  | ascii (b : UInt8) (rest : Bytes) : b ≤ 0x7f → WellFormed rest → WellFormed (b :: rest)
  | two (l c : UInt8) (rest : Bytes) : (l = 0xc2 ∨ l = 0xc3) → isCont c = true → WellFormed rest →
      WellFormed (l :: c :: rest)

theorem i2u_wellformed (s : Bytes) : ∀ u, i2uOut (s ++ [0]) = .ok u → WellFormed u := by
  induction s with
  | nil => intro u h; simp [i2uOut] at h; subst h; exact .nil
  | cons ch rest ih =>
    intro u h
    simp only [List.cons_append, i2uOut] at h
    split at h
    · simp at h; subst h; exact .nil
    · cases hr : i2uOut (rest ++ [0]) with
      | error e => simp [hr, Except.map] at h
      | ok o =>
        have hw := ih o hr
        split at h
        · rename_i hle
          simp [hr, Except.map] at h; subst h
          exact .ascii ch o hle hw
        · rename_i hne hle
          simp [hr, Except.map] at h; subst h
          have hgt : ch > 0x7f := by
            rcases UInt8.lt_or_lt_of_ne (a := ch) (b := 0x7f) (fun e => hle (by rw [e]; decide)) with h | h
            · exact absurd (UInt8.le_of_lt h) hle
            · exact h
          obtain ⟨_, _, _, _, _, f6, _, f8⟩ := two_byte_facts ch hgt
          exact .two _ _ o f8 f6 hw

/-- every byte the UTF-8 → ISO-8859-1 converter writes is a decoded character or the substitute:
    an undecodable lead/continuation combination or an out-of-range code point gives 0x1A -/
theorem dec2_substitute (l c : UInt8) (h : isCont c = false ∨ (l &&& 0x1f).toNat * 64 + (c &&& 0x3f).toNat ≥ 256) :
    dec2 l c = REPL := by
  unfold dec2
  rcases h with h | h
  · simp [h]
  · simp only [h, decide_true, Bool.or_true, if_true]

/-- non-vacuity / the witness that motivated the repair: a trailing lead byte -/
example : utf8ToLatin1 [0x41, 0xc3, 0] = .ok [0x41, 0x1a] ∧ utf8ToLatin1Size [0x41, 0xc3, 0] = .ok 3 :=
  ⟨rfl, rfl⟩

end Sbdf.C19
