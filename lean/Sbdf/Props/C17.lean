/-
  C17 — Files are byte-order independent.
  Every theorem of C01/C03/C04/C07 is stated for an arbitrary configuration `c`, so it holds for
  the big-endian configuration (`c.swap = true`, the `-D__sparc` build) as well: reader and writer
  of that configuration are inverse to each other on the big-endian Spec.  Here: the conversion is
  an involution, it is applied to exactly the numeric fields, and the big-endian Spec is the
  field-wise mirror of the little-endian one.
-/
import Sbdf.Props.C04
import Sbdf.Props.C03
namespace Sbdf.C17
open Spec

def LE : Cfg := { swap := false }
def BE : Cfg := { swap := true }

/-- the conversion routine is an involution (element-wise byte reversal) -/
theorem swap_involution (c : Cfg) (b : Bytes) : swapElem c (swapElem c b) = b := swapElem_swapElem c b

theorem swap_be_reverses (b : Bytes) : swapElem BE b = b.reverse ∧ swapElem LE b = b := ⟨rfl, rfl⟩

/-- every 32-bit field (counts, lengths, row counts, byte sizes): the big-endian bytes are the
    little-endian bytes reversed -/
theorem int32_mirror (v : Int) : le BE v = (le LE v).reverse := by
  simp [le, int32Bytes, swapElem, BE, LE]

/-- fixed-size values (32/64-bit integers, floats, doubles, date/time values, 128-bit decimals):
    each element reversed, element order kept -/
theorem fixed_mirror (o : Obj) (h : isArr o.tid = false) (packed : Bool) :
    objBody BE o packed = o.elems.flatMap List.reverse ∧ objBody LE o packed = o.elems.flatten := by
  simp only [objBody, h, BE, LE, Bool.false_eq_true, if_false]
  constructor
  · congr 1
  · have : (swapElem ({ swap := false } : Cfg)) = id := by funext b; rfl
    rw [this]; simp [List.flatMap_id]

/-- byte-oriented fields are untouched: string/binary payloads and their 7-bit lengths ... -/
theorem packed_elem_same (e : Bytes) : elem BE true e = elem LE true e := rfl
/-- ... section markers, ids and flags ... -/
theorem sec_same (id : Nat) : sec id = sec id := rfl
/-- ... bit arrays: only the row count is numeric -/
theorem bit_array_mirror (vt : Nat) (rows : Int) (bits : Bytes) :
    Spec.va BE (.bit vt rows bits) = [3, UInt8.ofNat vt] ++ (le LE rows).reverse ++ bits := by
  simp [Spec.va, int32_mirror]
/-- ... run bytes of a run-length array (an array of 1-byte elements: reversal is the identity) -/
theorem runs_same (runs : Bytes) (packed : Bool) : objBody BE (runsObj runs) packed = objBody LE (runsObj runs) packed := by
  simp only [objBody, runsObj, isArr, show ((254 : Nat) == 10) = false from rfl,
    show ((254 : Nat) == 12) = false from rfl, Bool.or_false, Bool.false_eq_true, if_false]
  induction runs with
  | nil => rfl
  | cons r rs ih => simp only [List.map_cons, List.flatMap_cons, ih]; rfl

/-- the conversion is applied exactly once in each direction: the reader of one configuration
    reads what the writer of the SAME configuration wrote, for every 32-bit value ... -/
theorem int32_same_config (c : Cfg) (v : Int) (h : isInt32 v) : Reads (readInt32 c) (le c v) v := reads_int32 c v h

/-- ... and the whole-file round trip holds in the big-endian configuration -/
theorem be_reads_wellformed (cap : Nat) (p : PhysTM) (cols : List Md) (slices : List (List CS))
    (hp : p.Ok { swap := true, cap := cap } cols) (hn : ∀ s ∈ slices, s.length = p.cols.length)
    (hf : ∀ s ∈ slices, TSFits { swap := true, cap := cap } s)
    (sub : Option (List Bool)) (rest : Bytes) (fuel : Nat) (hfuel : slices.length < fuel) :
    readFileF { swap := true, cap := cap } sub fuel (C04.file { swap := true, cap := cap } p slices ++ rest).toArray =
      ⟨.ok (1, 0), some (.ok (C04.logicalTM p cols)), slices.map (fun s => ⟨maskFrom sub 0 s⟩),
       some (.tableEnd (C04.file { swap := true, cap := cap } p slices).length)⟩ :=
  C04.reads_wellformed _ p cols slices hp hn hf sub rest fuel hfuel

/-- a missing conversion is visible: the little-endian reader does not read big-endian numbers -/
example : readInt32 LE (le BE 1).toArray 0 = .ok (16777216, 4) ∧ readInt32 BE (le BE 1).toArray 0 = .ok (1, 4) :=
  ⟨rfl, rfl⟩

end Sbdf.C17
