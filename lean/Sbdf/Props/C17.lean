import Sbdf.Slice
namespace Sbdf.C17
end Sbdf.C17
