/-
  C17 — Files are byte-order independent.
  Every theorem of C01/C03/C04/C07 is stated for an arbitrary configuration `c`, so it holds for
  the big-endian configuration (`c.swap = true`, the `-D__sparc` build) as well: reader and writer
  of that configuration are inverse to each other on the big-endian Spec.  Here: the conversion is
  an involution, it is applied to exactly the numeric fields, and the big-endian Spec is the
  field-wise mirror of the little-endian one.
-/
import Sbdf.Props.C04
import Sbdf.Props.C03
namespace Sbdf.C17
open Spec

def LE : Cfg := { swap := false }
def BE : Cfg := { swap := true }

/-- the conversion routine is an involution (element-wise byte reversal) -/
theorem swap_involution (c : Cfg) (b : Bytes) : swapElem c (swapElem c b) = b := swapElem_swapElem c b

theorem swap_be_reverses (b : Bytes) : swapElem BE b = b.reverse ∧ swapElem LE b = b := ⟨rfl, rfl⟩

/-- every 32-bit field (counts, lengths, row counts, byte sizes): the big-endian bytes are the
    little-endian bytes reversed -/
theorem int32_mirror (v : Int) : le BE v = (le LE v).reverse := by
  simp [le, int32Bytes, swapElem, BE, LE]

/-- fixed-size values (32/64-bit integers, floats, doubles, date/time values, 128-bit decimals):
    each element reversed, element order kept -/
theorem fixed_mirror (o : Obj) (h : isArr o.tid = false) (packed : Bool) :
    objBody BE o packed = o.elems.flatMap List.reverse ∧ objBody LE o packed = o.elems.flatten := by
  simp only [objBody, h, BE, LE, Bool.false_eq_true, if_false]
  constructor
  · congr 1
  · have : (swapElem ({ swap := false } : Cfg)) = id := by funext b; rfl
    rw [this]; simp [List.flatMap_id]

/-- byte-oriented fields are untouched: string/binary payloads and their 7-bit lengths ... -/
theorem packed_elem_same (e : Bytes) : elem BE true e = elem LE true e := rfl
/-- ... section markers, ids and flags ... -/
theorem sec_same (id : Nat) : sec id = sec id := rfl
/-- ... bit arrays: only the row count is numeric -/
theorem bit_array_mirror (vt : Nat) (rows : Int) (bits : Bytes) :
    Spec.va BE (.bit vt rows bits) = [3, UInt8.ofNat vt] ++ (le LE rows).reverse ++ bits := by
  simp [Spec.va, int32_mirror]
/-- ... run bytes of a run-length array (an array of 1-byte elements: reversal is the identity) -/
theorem runs_same (runs : Bytes) (packed : Bool) : objBody BE (runsObj runs) packed = objBody LE (runsObj runs) packed := by
  simp only [objBody, runsObj, isArr, show ((254 : Nat) == 10) = false from rfl,
    show ((254 : Nat) == 12) = false from rfl, Bool.or_false, Bool.false_eq_true, if_false]
  induction runs with
  | nil => rfl
  | cons r rs ih => simp only [List.map_cons, List.flatMap_cons, ih]; rfl

/-- the conversion is applied exactly once in each direction: the reader of one configuration
    reads what the writer of the SAME configuration wrote, for every 32-bit value ... -/
theorem int32_same_config (c : Cfg) (v : Int) (h : isInt32 v) : Reads (readInt32 c) (le c v) v := reads_int32 c v h

/-- ... and the whole-file round trip holds in the big-endian configuration -/
theorem be_reads_wellformed (cap : Nat) (p : PhysTM) (cols : List Md) (slices : List (List CS))
    (hp : p.Ok { swap := true, cap := cap } cols) (hn : ∀ s ∈ slices, s.length = p.cols.length)
    (hf : ∀ s ∈ slices, TSFits { swap := true, cap := cap } s)
    (sub : Option (List Bool)) (rest : Bytes) (fuel : Nat) (hfuel : slices.length < fuel) :
    readFileF { swap := true, cap := cap } sub fuel (C04.file { swap := true, cap := cap } p slices ++ rest).toArray =
      ⟨.ok (1, 0), some (.ok (C04.logicalTM p cols)), slices.map (fun s => ⟨maskFrom sub 0 s⟩),
       some (.tableEnd (C04.file { swap := true, cap := cap } p slices).length)⟩ :=
  C04.reads_wellformed _ p cols slices hp hn hf sub rest fuel hfuel


/-! ### the whole file as a list of fields, independent of the byte order -/

/-- a field of the format: `num` = a multi-byte numeric field (given by its little-endian image),
    `raw` = byte-oriented data -/
inductive Field where
  | num (b : Bytes)
  | raw (b : Bytes)

/-- the bytes of a list of fields in configuration `c`: numeric fields pass through the
    conversion routine once, byte-oriented ones are copied -/
def render (c : Cfg) : List Field → Bytes
  | [] => []
  | .num b :: fs => swapElem c b ++ render c fs
  | .raw b :: fs => b ++ render c fs

theorem render_append (c : Cfg) (a b : List Field) : render c (a ++ b) = render c a ++ render c b := by
  induction a with
  | nil => rfl
  | cons f fs ih => cases f <;> simp [render, ih]

theorem render_flatMap {α : Type} (c : Cfg) (l : List α) (f : α → List Field) :
    render c (l.flatMap f) = l.flatMap (fun x => render c (f x)) := by
  induction l with
  | nil => rfl
  | cons x xs ih => simp [List.flatMap_cons, render_append, ih]

namespace F
def le (v : Int) : List Field := [.num (natLE 4 (ofInt32 v))]
def str (s : Bytes) : List Field := le s.length ++ [.raw s]
def elem (packed : Bool) (e : Bytes) : List Field :=
  (if packed then [.raw (bytes7 e.length)] else le e.length) ++ [.raw e]
def objBody (o : Obj) (packed : Bool) : List Field :=
  if isArr o.tid then (if packed then le (byteSize o.elems) else []) ++ o.elems.flatMap (elem packed)
  else o.elems.map .num
def objArr (o : Obj) : List Field := le o.count ++ objBody o true
def va : VA → List Field
  | .plain o => [.raw [1, UInt8.ofNat o.tid]] ++ objArr o
  | .rle rows runs vals => [.raw [2, UInt8.ofNat vals.tid]] ++ le rows ++ objArr (runsObj runs) ++ objArr vals
  | .bit vt rows bits => [.raw [3, UInt8.ofNat vt]] ++ le rows ++ [.raw bits]
def cs (x : CS) : List Field :=
  [.raw (sec 4)] ++ va x.values ++ le x.propCnt ++ x.props.flatMap (fun p => str p.1 ++ va p.2)
def ts (cols : List CS) : List Field := [.raw (sec 3)] ++ le cols.length ++ cols.flatMap cs
def optObj : Option Obj → List Field
  | some o => [.raw [1]] ++ objBody o false
  | none => [.raw [0]]
def tableEntry (name : Bytes) (v : Obj) (d : Option Obj) : List Field :=
  str name ++ [.raw [UInt8.ofNat v.tid]] ++ [.raw [1]] ++ objBody v false ++ optObj d
def nameRow (r : NameRow) : List Field := str r.name ++ [.raw [UInt8.ofNat r.vt]] ++ optObj r.dflt
def tm (p : PhysTM) : List Field :=
  [.raw (sec 2)] ++ le p.table.length ++ p.table.flatMap (fun e => tableEntry e.1 e.2.1 e.2.2) ++
  le p.cols.length ++ le p.names.length ++ p.names.flatMap nameRow ++
  p.cols.flatMap (fun col => col.flatMap optObj)
def file (p : PhysTM) (slices : List (List CS)) : List Field :=
  [.raw header] ++ tm p ++ (slices.flatMap ts ++ [.raw tsEnd])
end F

theorem r_le (c : Cfg) (v : Int) : render c (F.le v) = Spec.le c v := by
  simp [F.le, render, Spec.le, int32Bytes]

theorem r_str (c : Cfg) (s : Bytes) : render c (F.str s) = Spec.str c s := by
  simp [F.str, render_append, r_le, render, Spec.str]

theorem r_elem (c : Cfg) (packed : Bool) (e : Bytes) : render c (F.elem packed e) = Spec.elem c packed e := by
  cases packed <;> simp [F.elem, render_append, r_le, render, Spec.elem]

theorem r_nums (c : Cfg) (es : List Bytes) : render c (es.map .num) = es.flatMap (swapElem c) := by
  induction es with
  | nil => rfl
  | cons x xs ih => simp [render, ih]

theorem r_objBody (c : Cfg) (o : Obj) (packed : Bool) : render c (F.objBody o packed) = Spec.objBody c o packed := by
  unfold F.objBody Spec.objBody
  split
  · rw [render_append, render_flatMap]
    simp only [r_elem]
    cases packed <;> simp [r_le, render]
  · exact r_nums c o.elems

theorem r_objArr (c : Cfg) (o : Obj) : render c (F.objArr o) = Spec.objArr c o := by
  simp [F.objArr, render_append, r_le, r_objBody, Spec.objArr]

theorem r_va (c : Cfg) (v : VA) : render c (F.va v) = Spec.va c v := by
  cases v <;> simp [F.va, render_append, render, r_le, r_objArr, Spec.va]

theorem r_cs (c : Cfg) (x : CS) : render c (F.cs x) = Spec.cs c x := by
  simp only [F.cs, render_append, render_flatMap, render, r_va, r_le, r_str, Spec.cs, List.append_nil]

theorem r_ts (c : Cfg) (cols : List CS) : render c (F.ts cols) = Spec.ts c cols := by
  simp only [F.ts, render_append, render_flatMap, render, r_cs, r_le, Spec.ts, List.append_nil]

theorem r_optObj (c : Cfg) (o : Option Obj) : render c (F.optObj o) = Spec.optObj c o := by
  cases o <;> simp [F.optObj, render_append, render, r_objBody, Spec.optObj, Spec.obj]

theorem r_tableEntry (c : Cfg) (e : Bytes × Obj × Option Obj) :
    render c (F.tableEntry e.1 e.2.1 e.2.2) = Spec.tableEntry c e.1 e.2.1 e.2.2 := by
  simp [F.tableEntry, render_append, render, r_str, r_objBody, r_optObj, Spec.tableEntry, Spec.obj]

theorem r_nameRow (c : Cfg) (r : NameRow) : render c (F.nameRow r) = Spec.nameRow c r := by
  simp [F.nameRow, render_append, render, r_str, r_optObj, Spec.nameRow]

theorem r_tm (c : Cfg) (p : PhysTM) : render c (F.tm p) = Spec.tm c p := by
  simp only [F.tm, render_append, render_flatMap, render, r_le, r_tableEntry, r_nameRow, r_optObj,
    Spec.tm, List.append_nil, List.append_assoc]

/-- C17, the mirror statement for whole files: there is ONE list of fields, not depending on the
    configuration, of which the file of either configuration is the rendering — so the
    big-endian file is the little-endian file with exactly the numeric fields (counts, lengths,
    row counts, byte sizes, fixed-size values) reversed element-wise, each once, and every
    byte-oriented field (markers, ids, flags, packed lengths, payloads, run bytes, bit arrays)
    identical. -/
theorem file_fields (c : Cfg) (p : PhysTM) (slices : List (List CS)) :
    C04.file c p slices = render c (F.file p slices) := by
  simp only [F.file, render_append, render_flatMap, render, r_tm, r_ts, C04.file, List.append_nil]

/-- without the conversion (little-endian host) every field is copied ... -/
theorem render_noswap (c : Cfg) (h : c.swap = false) (fs : List Field) :
    render c fs = fs.flatMap (fun f => match f with | .num b => b | .raw b => b) := by
  induction fs with
  | nil => rfl
  | cons f fs ih => cases f <;> simp [render, ih, swapElem, h]

/-- ... with it (big-endian host) exactly the numeric fields are reversed, each once -/
theorem render_swap (c : Cfg) (h : c.swap = true) (fs : List Field) :
    render c fs = fs.flatMap (fun f => match f with | .num b => b.reverse | .raw b => b) := by
  induction fs with
  | nil => rfl
  | cons f fs ih => cases f <;> simp [render, ih, swapElem, h]

/-- what the writers of the two configurations emit for the same table are the two renderings of
    the same field list (C03.file_bytes holds for every configuration) -/
theorem writers_mirror (cap : Nat) (tm : TM) (slices : List (List CS)) (kept : List MdEntry)
    (hfold : foldCols (tm.cols.flatMap (·.entries)) = .ok kept)
    (htab : C03.MdWritable tm.table) (hcols : ∀ col ∈ tm.cols, C03.MdWritable col)
    (hkept : ∀ k ∈ kept, ∀ d, k.dflt = some d → Writable d)
    (hsl : ∀ s ∈ slices, ∀ x ∈ s, x.Writable) (hlen : ∀ s ∈ slices, s.length = tm.cols.length) :
    ∃ fs : List Field, ∀ sw : Bool,
      Emits (writeFile { swap := sw, cap := cap } ⟨tm, slices.map (fun s => ⟨s.map some⟩)⟩)
        (render { swap := sw, cap := cap } fs) := by
  refine ⟨F.file (C03.canonPhys tm kept) slices, fun sw => ?_⟩
  rw [← file_fields]
  exact C03.file_bytes _ tm slices kept hfold htab hcols hkept hsl hlen

/-- a missing conversion is visible: the little-endian reader does not read big-endian numbers -/
example : readInt32 LE (le BE 1).toArray 0 = .ok (16777216, 4) ∧ readInt32 BE (le BE 1).toArray 0 = .ok (1, 4) :=
  ⟨rfl, rfl⟩

end Sbdf.C17
