/-
  C16 — Packed length encoding and fixed-width integers are exact for every value.
  Property theorems only; helper lemmas live in Sbdf/Lemmas.
-/
import Sbdf.Lemmas.Prim
import Sbdf.Object
import Sbdf.Lemmas.NoUB
namespace Sbdf.C16

/-- Every 32-bit integer (in particular every length 0 ≤ n < 2^31) written in the 7-bit-group
    encoding is read back as itself, the reader stopping exactly at the end of the groups,
    whatever follows in the stream. -/
theorem read7_write7 (v : Int) (h : isInt32 v) : Reads read7 (bytes7 v) v := reads_7bit v h

/-- ... and it occupies exactly the number of bytes the writer accounts for in byte-size
    headers (`sbdf_get_7bitpacked_len`), between one and five. -/
theorem bytes7_length (v : Int) (h0 : 0 ≤ v) (h1 : v < 2147483648) :
    (bytes7 v).length = len7 v ∧ 1 ≤ len7 v ∧ len7 v ≤ 5 := Sbdf.bytes7_length' v h0 h1

/-- groups are least significant first; the continuation bit is set on all but the last byte -/
theorem bytes7_groups (f val : Nat) (hv : val < 128 ^ f) (i : Nat)
    (hi : i < (write7Aux f val).length) :
    ((write7Aux f val)[i]).toNat % 128 = (val / 128 ^ i) % 128 ∧
    (((write7Aux f val)[i]).toNat ≥ 128 ↔ i + 1 < (write7Aux f val).length) := by
  induction f generalizing val i with
  | zero => simp [write7Aux] at hi
  | succ f ih =>
    have hv' : val / 128 < 128 ^ f := by
      rw [Nat.pow_succ] at hv
      exact Nat.div_lt_of_lt_mul (by rw [Nat.mul_comm]; exact hv)
    by_cases hbig : val > 127
    · have hw : write7Aux (f + 1) val = UInt8.ofNat (val % 128 + 128) :: write7Aux f (val / 128) := by
        simp only [write7Aux, hbig, if_true]
      simp only [hw] at hi ⊢
      cases i with
      | zero =>
        simp only [List.getElem_cons_zero, UInt8.toNat_ofNat', Nat.pow_zero, Nat.div_one,
          List.length_cons]
        refine ⟨by omega, ?_⟩
        constructor
        · intro _
          -- a continuation byte is followed by at least one more group
          cases f with
          | zero => simp at hv; omega
          | succ f => simp only [write7Aux]; split <;> simp
        · intro _; omega
      | succ i =>
        simp only [List.getElem_cons_succ, List.length_cons] at hi ⊢
        have := ih (val / 128) hv' i (by omega)
        rw [Nat.pow_succ, Nat.mul_comm, ← Nat.div_div_eq_div_mul]
        exact ⟨this.1, by rw [this.2]; omega⟩
    · have hw : write7Aux (f + 1) val = [UInt8.ofNat val] := by
        simp only [write7Aux, hbig, if_false]
      simp only [hw] at hi ⊢
      have : i = 0 := by simpa using hi
      subst this
      simp only [List.getElem_cons_zero, UInt8.toNat_ofNat', Nat.pow_zero, Nat.div_one,
        List.length_cons, List.length_nil]
      omega

/-- instance for the writer: a 32-bit value always fits the five groups -/
theorem bytes7_groups32 (v : Int) (i : Nat) (hi : i < (bytes7 v).length) :
    ((bytes7 v)[i]).toNat % 128 = (ofInt32 v / 128 ^ i) % 128 ∧
    (((bytes7 v)[i]).toNat ≥ 128 ↔ i + 1 < (bytes7 v).length) :=
  bytes7_groups 5 (ofInt32 v) (by have := ofInt32_lt v; omega) i hi

/-- the reader never performs an out-of-range shift, on any input -/
theorem read7Aux_no_ub (f shl result : Nat) (hs : shl + 7 * f ≤ 35) (d : Array UInt8) (pos : Nat)
    (w : String) : read7Aux f shl result d pos ≠ .error (.ub w) :=
  (nub_read7Aux f shl result hs).out d pos w

theorem read7_no_ub (d : Array UInt8) (pos : Nat) (w : String) : read7 d pos ≠ .error (.ub w) :=
  read7Aux_no_ub 5 0 0 (by omega) d pos w

/-- a fifth group carrying bits beyond the 32nd is refused instead of being shifted out of range
    (repair F23) -/
theorem read7_fifth_group_out_of_range (b1 b2 b3 b4 b5 : UInt8) (rest : Bytes)
    (h1 : b1.toNat ≥ 128) (h2 : b2.toNat ≥ 128) (h3 : b3.toNat ≥ 128) (h4 : b4.toNat ≥ 128)
    (h5 : b5.toNat % 128 ≥ 16) :
    read7 (b1 :: b2 :: b3 :: b4 :: b5 :: rest).toArray 0 = .error (.st .invalidSize) := by
  have hb : ∀ (x : UInt8), leNat [x] = x.toNat := by intro x; simp [leNat]
  simp [read7, read7Aux, P.bind, readN, hb, h1, h2, h3, h4, h5, P.fail, List.extract_eq_take_drop]

/-- an over-long group sequence (continuation bit on the fifth byte) is refused -/
theorem read7_overlong (b1 b2 b3 b4 b5 : UInt8) (rest : Bytes)
    (h1 : b1.toNat ≥ 128) (h2 : b2.toNat ≥ 128) (h3 : b3.toNat ≥ 128) (h4 : b4.toNat ≥ 128)
    (h5 : b5.toNat ≥ 128) :
    read7 (b1 :: b2 :: b3 :: b4 :: b5 :: rest).toArray 0 = .error (.st .invalidSize) := by
  have hb : ∀ (x : UInt8), leNat [x] = x.toNat := by intro x; simp [leNat]
  simp [read7, read7Aux, P.bind, readN, hb, h1, h2, h3, h4, h5, P.fail, List.extract_eq_take_drop]

/-- every 32-bit integer is written as four bytes and read back unchanged -/
theorem int32_roundtrip (c : Cfg) (v : Int) (h : isInt32 v) :
    Reads (readInt32 c) (int32Bytes c v) v := reads_int32 c v h

/-- ... little-endian in the default configuration: byte k is bits 8k..8k+7 of the two's
    complement value -/
theorem int32_little_endian (v : Int) :
    int32Bytes {} v = [UInt8.ofNat (ofInt32 v % 256), UInt8.ofNat (ofInt32 v / 256 % 256),
      UInt8.ofNat (ofInt32 v / 256 / 256 % 256), UInt8.ofNat (ofInt32 v / 256 / 256 / 256 % 256)] := by
  simp [int32Bytes, swapElem, natLE]

/-- and big-endian (the same bytes reversed) in the big-endian configuration -/
theorem int32_big_endian (v : Int) (cap : Nat) :
    int32Bytes { swap := true, cap := cap } v = (int32Bytes {} v).reverse := by
  simp [int32Bytes, swapElem]

/-- byte-size header of a packed array = Σ (length-of-length + length) -/
theorem byteSize_eq (es : List Bytes) :
    byteSize es = ((es.map (fun e => len7 e.length + e.length)).sum : Nat) := by
  unfold byteSize
  suffices h : ∀ (acc : Int), es.foldl (fun acc e => acc + (len7 e.length : Int) + e.length) acc =
      acc + ((es.map (fun e => len7 e.length + e.length)).sum : Nat) by simpa using h 0
  induction es with
  | nil => intro acc; simp
  | cons e es ih => intro acc; simp only [List.foldl_cons, ih, List.map_cons, List.sum_cons]; omega

/-- non-vacuity: the hypotheses are met by ordinary values -/
example : isInt32 300 ∧ bytes7 300 = [0xac, 0x02] ∧ len7 300 = 2 := by decide
example : isInt32 (-1) ∧ bytes7 (-1) = [0xff, 0xff, 0xff, 0xff, 0x0f] := by decide

end Sbdf.C16
