/-
  Sbdf.Str — model of the charset helpers of src/sbdfstring.c (62-165) and of
  create/copy for length-prefixed strings.

  A converter walks a buffer `l` = everything from the current input pointer to the end of
  the allocation.  Reading `*inp` when `l = []` is an out-of-bounds read: `ub`.  So "never
  reads past the terminator" is "no `ub` on `s ++ [0]`" — the buffer the ASan harness uses.
-/
import Sbdf.Basic
namespace Sbdf

def REPL : UInt8 := 0x1a

def isCont (b : UInt8) : Bool := b &&& 0xc0 == 0x80

/-- `while ((*inp & 0xc0) == 0x80) ++inp;` — `none` = ran off the buffer -/
def skipCont : Bytes → Option Bytes
  | [] => none
  | b :: rest => if isCont b then skipCont rest else some (b :: rest)

/-- decoded 2-byte character or substitute (sbdfstring.c:82-98) -/
def dec2 (ch ch2 : UInt8) : UInt8 :=
  let uch : Nat := (ch &&& 0x1f).toNat * 64 + (ch2 &&& 0x3f).toNat
  if !isCont ch2 || uch ≥ 256 then REPL else UInt8.ofNat uch

/-- `sbdf_convert_utf8_to_iso88591(inp, out)` with `out != NULL`: bytes written before the
    terminator.  After the repair (F6) a lead byte directly before the terminator does not
    consume the terminator. -/
def u2iOut : Nat → Bytes → Except Fail Bytes
  | 0, _ => .error (.ub "fuel")
  | _+1, [] => .error (.ub "read past the end of the input buffer")
  | f+1, ch :: rest =>
    if ch = 0 then .ok []
    else if ch ≤ 0x7f then (u2iOut f rest).map (ch :: ·)
    else if ch ≥ 0xc0 ∧ ch < 0xdf then
      match rest with
      | [] => .error (.ub "read past the end of the input buffer")
      | ch2 :: rest2 =>
        (u2iOut f (if ch2 = 0 then rest else rest2)).map (dec2 ch ch2 :: ·)
    else
      match skipCont rest with
      | none => .error (.ub "read past the end of the input buffer")
      | some rest' => (u2iOut f rest').map (REPL :: ·)

/-- the same call with `out == NULL`: the count only, terminator included -/
def u2iSize : Nat → Bytes → Except Fail Nat
  | 0, _ => .error (.ub "fuel")
  | _+1, [] => .error (.ub "read past the end of the input buffer")
  | f+1, ch :: rest =>
    if ch = 0 then .ok 1
    else if ch ≤ 0x7f then (u2iSize f rest).map (· + 1)
    else if ch ≥ 0xc0 ∧ ch < 0xdf then
      match rest with
      | [] => .error (.ub "read past the end of the input buffer")
      | ch2 :: rest2 => (u2iSize f (if ch2 = 0 then rest else rest2)).map (· + 1)
    else
      match skipCont rest with
      | none => .error (.ub "read past the end of the input buffer")
      | some rest' => (u2iSize f rest').map (· + 1)

def utf8ToLatin1 (l : Bytes) : Except Fail Bytes := u2iOut (l.length + 1) l
def utf8ToLatin1Size (l : Bytes) : Except Fail Nat := u2iSize (l.length + 1) l

/-- `sbdf_convert_iso88591_to_utf8` with `out != NULL` -/
def i2uOut : Bytes → Except Fail Bytes
  | [] => .error (.ub "read past the end of the input buffer")
  | ch :: rest =>
    if ch = 0 then .ok []
    else if ch ≤ 0x7f then (i2uOut rest).map (ch :: ·)
    else (i2uOut rest).map (fun o => ((0xc0 : UInt8) ||| (ch >>> 6)) :: ((0x80 : UInt8) ||| (ch &&& 0x3f)) :: o)

def i2uSize : Bytes → Except Fail Nat
  | [] => .error (.ub "read past the end of the input buffer")
  | ch :: rest =>
    if ch = 0 then .ok 1
    else if ch ≤ 0x7f then (i2uSize rest).map (· + 1)
    else (i2uSize rest).map (· + 2)

end Sbdf
