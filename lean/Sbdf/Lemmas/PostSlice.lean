/-
  Postconditions of the slice readers on ARBITRARY input (continuation of Lemmas/Post.lean): whatever
  `sbdf_va_read`, `sbdf_cs_read`, `sbdf_ts_read` return with OK is within the limits the
  `Reads`/`Emits` theorems ask for (`Fits`), except for one fact that is a property of the input
  rather than of the reader: that the byte-size header of a string/binary array (Σ over its
  elements) fits an `int` — it does whenever the file is smaller than 400 MiB.  (Before the
  repair of F21 a second exception was needed: `sbdf_cs_read` accepted a negative property
  count as "no properties".)
-/
import Sbdf.Lemmas.Post
import Sbdf.Lemmas.ReadsSlice
namespace Sbdf

theorem Post.readObjArr (c : Cfg) (tid : Nat) :
    Post (Sbdf.readObjArr c tid) (fun o => o.tid = tid ∧ o.Fits c) := by
  unfold Sbdf.readObjArr
  simp only [P.bind_def]
  refine Post.bind (Post.readInt32 c) (fun count hc => ?_)
  refine (Post.readObjects c tid count true (by unfold isInt32 at hc; unfold INT_MAX; omega)).weaken
    (fun o ho => ⟨ho.1, ho.2.2⟩)

theorem flatten_singletons (es : List Bytes) (h : ∀ e ∈ es, e.length = 1) :
    (es.flatten).map (fun b => [b]) = es := by
  induction es with
  | nil => rfl
  | cons e es ih =>
    have he := h e (by simp)
    match e, he with
    | [b], _ =>
      simp only [List.flatten_cons, List.singleton_append, List.map_cons]
      rw [ih (fun x hx => h x (by simp [hx]))]

/-- `VA.Fits` without the clause about the byte-size header -/
def VA.FitsR (c : Cfg) : VA → Prop
  | .plain o => o.Fits c ∧ o.tid < 256
  | .rle rows runs vals => isInt32 rows ∧ (runsObj runs).Fits c ∧ vals.Fits c ∧ vals.tid < 256
  | .bit vt rows bits =>
    isInt32 rows ∧ vt < 256 ∧ 0 ≤ packedSize rows ∧ bits.length = (packedSize rows).toNat ∧
    packedSize rows + 4 ≤ c.cap ∧ packedSize rows ≤ INT_MAX ∧ 0 ≤ rows

/-- the byte-size header of the array's string/binary part is representable -/
def VA.BSOk : VA → Prop
  | .plain o => isArr o.tid = true → isInt32 (byteSize o.elems)
  | .rle _ _ vals => isArr vals.tid = true → isInt32 (byteSize vals.elems)
  | .bit .. => True

theorem VA.fits_of {c : Cfg} {va : VA} (h : va.FitsR c) (hb : va.BSOk) : va.Fits c := by
  cases va with
  | plain o => exact ⟨h.1, hb, h.2⟩
  | rle rows runs vals => exact ⟨h.1, h.2.1, h.2.2.1, hb, h.2.2.2⟩
  | bit vt rows bits => exact h

theorem packedSize_le (v : Int) (h : v ≤ INT_MAX) : packedSize v ≤ INT_MAX := by
  unfold packedSize
  by_cases hv : 0 ≤ v
  · rw [Int.tdiv_eq_ediv_of_nonneg hv]
    unfold INT_MAX at *
    split <;> omega
  · have hneg : Int.tdiv v 8 ≤ 0 := by
      have : v = -(-v) := by omega
      rw [this, Int.neg_tdiv, Int.tdiv_eq_ediv_of_nonneg (by omega)]
      omega
    unfold INT_MAX
    split <;> omega

theorem Post.readVA (c : Cfg) : Post (Sbdf.readVA c) (VA.FitsR c) := by
  unfold Sbdf.readVA
  simp only [P.bind_def]
  refine Post.bind Post.readInt8 (fun e _ => ?_)
  refine Post.bind Post.readInt8 (fun vt hvt => ?_)
  refine Post.ite (fun _ => ?_) (fun _ => Post.ite (fun _ => ?_) (fun _ => Post.ite (fun _ => ?_) (fun _ => Post.fail)))
  · refine Post.bind (Post.readObjArr c vt) (fun o ho => Post.pure ?_)
    exact ⟨ho.2, by rw [ho.1]; exact hvt⟩
  · refine Post.bind (Post.readInt32 c) (fun rows hrows => ?_)
    refine Post.bind (Post.readObjArr c 254) (fun runs hruns => ?_)
    refine Post.bind (Post.readObjArr c vt) (fun vals hvals => Post.pure ?_)
    refine ⟨hrows, ?_, hvals.2, by rw [hvals.1]; exact hvt⟩
    -- the run bytes, re-wrapped as an object, are the object that was read
    have hf := hruns.2
    unfold Obj.Fits at hf
    have hna : isArr runs.tid = false := by rw [hruns.1]; rfl
    simp only [hna, Bool.false_eq_true, if_false] at hf
    obtain ⟨sz, hsz, hel, _, _⟩ := hf
    have hsz1 : sz = 1 := by
      rw [hruns.1] at hsz
      have : fixedSize 254 = .ok 1 := rfl
      rw [this] at hsz
      simp only [Except.ok.injEq] at hsz
      exact hsz.symm
    subst hsz1
    have : runsObj runs.elems.flatten = runs := by
      unfold runsObj
      rw [flatten_singletons runs.elems hel]
      cases runs
      simp_all
    rw [this]
    exact hruns.2
  · refine Post.bind (Post.readInt32 c) (fun v hv => ?_)
    refine Post.ite (fun _ => Post.fail) (fun hv0 => ?_)
    refine Post.bind (Post.alloc c _) (fun _ ha => ?_)
    refine Post.bind (Post.readN _) (fun bits hb => ?_)
    refine Post.bind (Post.allocBa c _) (fun _ hba => Post.pure ?_)
    exact ⟨hv, hvt, ha.1, hb, hba, packedSize_le v (by unfold isInt32 at hv; unfold INT_MAX; omega), by omega⟩

/-- `CS.Fits` without the byte-size clauses, and with the two ways `sbdf_cs_read` fills the
    property fields: a positive count with that many properties, or any other count with none -/
def CS.FitsR (c : Cfg) (x : CS) : Prop :=
  x.values.FitsR c ∧
  ((x.propCnt = x.props.length ∧ (x.props.length : Int) * 8 ≤ c.cap ∧ (x.props.length : Int) * 8 ≤ INT_MAX) ∨
   (x.propCnt = 0 ∧ x.props = [])) ∧
  ∀ p ∈ x.props, fitsStr c p.1.length ∧ p.2.FitsR c

def CS.BSOk (x : CS) : Prop := x.values.BSOk ∧ ∀ p ∈ x.props, p.2.BSOk

theorem CS.fits_of {c : Cfg} {x : CS} (h : x.FitsR c) (hb : x.BSOk) : x.Fits c := by
  obtain ⟨hv, hp, hprops⟩ := h
  have hpp : ∀ p ∈ x.props, fitsStr c p.1.length ∧ p.2.Fits c :=
    fun p hp' => ⟨(hprops p hp').1, VA.fits_of (hprops p hp').2 (hb.2 p hp')⟩
  rcases hp with ⟨h1, h2, h3⟩ | ⟨h1, h2⟩
  · exact ⟨VA.fits_of hv hb.1, h1, h2, h3, hpp⟩
  · have h0 : x.propCnt = 0 := h1
    refine ⟨VA.fits_of hv hb.1, by rw [h0, h2]; rfl, by rw [h2]; simp, by rw [h2]; simp [INT_MAX], hpp⟩

theorem Post.readProp (c : Cfg) : Post (Sbdf.readProp c) (fun p => fitsStr c p.1.length ∧ p.2.FitsR c) := by
  unfold Sbdf.readProp
  simp only [P.bind_def]
  exact Post.bind (Post.readString c) (fun name hn => Post.bind (Post.readVA c) (fun va hva => Post.pure ⟨hn, hva⟩))

theorem Post.readCS (c : Cfg) : Post (Sbdf.readCS c) (CS.FitsR c) := by
  unfold Sbdf.readCS
  simp only [P.bind_def]
  refine Post.bind (Q := fun _ => True) Post.trivial (fun _ _ => ?_)
  refine Post.bind (Post.readVA c) (fun values hvals => ?_)
  refine Post.bind (Post.readInt32 c) (fun v hv => ?_)
  refine Post.ite (fun _ => Post.fail) (fun hv0 => ?_)
  refine Post.ite (fun hpos => ?_) (fun hnp => Post.pure ⟨hvals, .inr ⟨by simp only; omega, rfl⟩, by simp⟩)
  refine Post.ite (fun _ => Post.fail) (fun _ => ?_)
  refine Post.bind (Post.guardUB _ _) (fun _ hg => ?_)
  refine Post.bind (Post.alloc c _) (fun _ ha => ?_)
  refine Post.bind (Post.readMany (Post.readProp c) v.toNat) (fun props hprops => Post.pure ?_)
  have hcast : ((v.toNat : Nat) : Int) = v := Int.toNat_of_nonneg (by omega)
  refine ⟨hvals, .inl ⟨by simp only; rw [hprops.1, hcast], ?_, ?_⟩, hprops.2⟩
  · simp only; rw [hprops.1, hcast]; exact ha.2
  · simp only; rw [hprops.1, hcast]; simpa using hg

/-- a full read (no subset) returns every column, each within the limits -/
theorem Post.readCols (c : Cfg) (n i : Nat) :
    Post (Sbdf.readCols c n none i) (fun l => l.length = n ∧ ∀ o ∈ l, ∃ x, o = some x ∧ CS.FitsR c x) := by
  induction n generalizing i with
  | zero => exact Post.pure (by simp)
  | succ n ih =>
    simp only [Sbdf.readCols, P.bind_def, wantCol, if_true]
    refine Post.bind (Post.bind (Post.readCS c) (fun cs hcs =>
      Post.pure (Q := fun (o : Option CS) => ∃ x, o = some x ∧ CS.FitsR c x) ⟨cs, rfl, hcs⟩)) (fun col hcol => ?_)
    refine Post.bind (ih (i + 1)) (fun rest hrest => Post.pure ?_)
    refine ⟨by simp [hrest.1], ?_⟩
    intro o ho
    simp only [List.mem_cons] at ho
    rcases ho with rfl | ho
    · exact hcol
    · exact hrest.2 o ho

/-- `sbdf_ts_read` without a subset, on any input: end-of-table, or a slice with exactly `ncols`
    columns, all present, all within the limits, and a column array the allocator granted -/
theorem Post.readTS (c : Cfg) (ncols : Nat) :
    Post (Sbdf.readTS c ncols none) (fun r => ∀ ts, r = some ts →
      ts.cols.length = ncols ∧ (ncols : Int) * 8 ≤ c.cap ∧ (ncols : Int) ≤ INT_MAX ∧
      ∀ o ∈ ts.cols, ∃ x, o = some x ∧ CS.FitsR c x) := by
  unfold Sbdf.readTS
  simp only [P.bind_def]
  refine Post.bind (Q := fun _ => True) Post.trivial (fun v _ => ?_)
  refine Post.ite (fun _ => Post.pure (by intro ts h; cases h)) (fun _ => ?_)
  refine Post.ite (fun _ => Post.fail) (fun _ => ?_)
  refine Post.bind (Post.readInt32 c) (fun cc hcc => ?_)
  refine Post.ite (fun _ => Post.fail) (fun _ => ?_)
  refine Post.ite (fun _ => Post.fail) (fun heq => ?_)
  refine Post.bind (Post.alloc c _) (fun _ ha => ?_)
  refine Post.bind (Post.readCols c ncols 0) (fun cols hcols => Post.pure ?_)
  intro ts hts
  simp only [Option.some.injEq] at hts
  subst hts
  have hcn : cc = ncols := by simpa using heq
  refine ⟨hcols.1, by rw [← hcn]; exact ha.2, by rw [← hcn]; unfold isInt32 at hcc; unfold INT_MAX; omega, hcols.2⟩

end Sbdf
