/-
  The model writer emits exactly the bytes of the declarative Spec (and reports OK).
-/
import Sbdf.Lemmas.W
import Sbdf.Spec
namespace Sbdf
open Spec WOut

/-- `w` reports OK and, on a stream that accepts everything, emits exactly `bs` -/
def Emits (w : WOut) (bs : Bytes) : Prop := w.st = .ok ∧ w.bytes = bs

theorem Emits.nil : Emits WOut.nil [] := ⟨rfl, rfl⟩
theorem Emits.one (b : Bytes) (s : Status) : Emits (WOut.one b s) b := ⟨rfl, by simp⟩

theorem Emits.append {a b : WOut} {x y : Bytes} (ha : Emits a x) (hb : Emits b y) : Emits (a ++ b) (x ++ y) := by
  obtain ⟨h1, h2⟩ := ha
  obtain ⟨h3, h4⟩ := hb
  exact ⟨by rw [(append_ok h1).2]; exact h3, by rw [bytes_append_ok h1, h2, h4]⟩

theorem Emits.seqAllMap {α : Type} (xs : List α) (f : α → WOut) (enc : α → Bytes)
    (h : ∀ x ∈ xs, Emits (f x) (enc x)) : Emits (seqAll (xs.map f)) (xs.flatMap enc) := by
  induction xs with
  | nil => exact Emits.nil
  | cons x xs ih =>
    simp only [List.map_cons, seqAll, List.flatMap_cons]
    exact Emits.append (h x (by simp)) (ih (fun y hy => h y (by simp [hy])))

theorem Emits.congr {w : WOut} {a b : Bytes} (h : Emits w a) (e : a = b) : Emits w b := e ▸ h

theorem emits_int32 (c : Cfg) (v : Int) : Emits (writeInt32 c v) (le c v) := Emits.one _ _
theorem emits_int8 (v : Nat) : Emits (writeInt8 v) [UInt8.ofNat v] := Emits.one _ _

theorem emits_write7 (v : Int) : Emits (write7 v) (bytes7 v) := by
  refine ⟨rfl, ?_⟩
  simp only [write7, WOut.bytes, List.flatMap_map]
  induction bytes7 v with
  | nil => rfl
  | cons b bs ih => simp only [List.flatMap_cons, ih]; rfl

theorem emits_string (c : Cfg) (s : Bytes) : Emits (writeString c s) (str c s) :=
  Emits.append (emits_int32 c _) (Emits.one _ _)

theorem emits_sec (id : Nat) : Emits (secWrite id) (sec id) := by
  have := Emits.append (Emits.append (emits_int8 0xdf) (emits_int8 0x5b)) (emits_int8 id)
  exact this

theorem emits_fh : Emits fhWrite header := by
  have := Emits.append (Emits.append (emits_sec 1) (emits_int8 1)) (emits_int8 0)
  exact Emits.congr this (by simp [header])

theorem emits_end : Emits writeTSEnd tsEnd := emits_sec 5

theorem emits_elem (c : Cfg) (packed : Bool) (e : Bytes) : Emits (writeElem c packed e) (elem c packed e) := by
  unfold writeElem elem
  apply Emits.append
  · split
    · exact emits_write7 _
    · exact emits_int32 c _
  · split
    · rename_i h
      have : e = [] := List.length_eq_zero_iff.mp h
      subst this; exact Emits.nil
    · exact Emits.one _ _

/-- objects the writer can serialise: string/binary, or a known fixed-size type -/
def Writable (o : Obj) : Prop := isArr o.tid = true ∨ ∃ n, fixedSize o.tid = .ok n

theorem emits_objects (c : Cfg) (o : Obj) (packed : Bool) (h : Writable o) :
    Emits (writeObjects c o packed) (objBody c o packed) := by
  unfold writeObjects objBody
  split
  · apply Emits.append
    · split
      · exact emits_int32 c _
      · exact Emits.nil
    · exact Emits.seqAllMap o.elems (writeElem c packed) (elem c packed) (fun e _ => emits_elem c packed e)
  · rename_i harr
    rcases h with h | ⟨n, hn⟩
    · exact absurd h harr
    · simp only [hn]; exact Emits.one _ _

theorem emits_objArr (c : Cfg) (o : Obj) (h : Writable o) : Emits (writeObjArr c o) (objArr c o) :=
  Emits.append (emits_int32 c _) (emits_objects c o true h)

theorem emits_obj (c : Cfg) (o : Obj) (h : Writable o) : Emits (writeObj c o) (obj c o) := emits_objects c o false h

def VA.Writable : VA → Prop
  | .plain o => Sbdf.Writable o
  | .rle _ _ vals => Sbdf.Writable vals
  | .bit _ _ _ => True

theorem writable_runs (runs : Bytes) : Writable (runsObj runs) := .inr ⟨1, rfl⟩

theorem emits_va (c : Cfg) (va : VA) (h : va.Writable) : Emits (writeVA c va) (Spec.va c va) := by
  cases va with
  | plain o =>
    have := Emits.append (Emits.append (emits_int8 1) (emits_int8 o.tid)) (emits_objArr c o h)
    exact this
  | rle rows runs vals =>
    have := Emits.append (Emits.append (Emits.append (Emits.append (emits_int8 2) (emits_int8 vals.tid))
      (emits_int32 c rows)) (emits_objArr c _ (writable_runs runs))) (emits_objArr c vals h)
    exact Emits.congr this (by simp [Spec.va])
  | bit vt rows bits =>
    have := Emits.append (Emits.append (Emits.append (emits_int8 3) (emits_int8 vt)) (emits_int32 c rows))
      (Emits.one bits .io)
    exact Emits.congr this (by simp [Spec.va])

def CS.Writable (x : CS) : Prop := x.values.Writable ∧ ∀ p ∈ x.props, p.2.Writable

theorem emits_cs (c : Cfg) (x : CS) (h : x.Writable) : Emits (writeCS c x) (Spec.cs c x) := by
  unfold writeCS Spec.cs
  refine Emits.append (Emits.append (Emits.append (emits_sec 4) (emits_va c _ h.1)) (emits_int32 c _)) ?_
  exact Emits.seqAllMap x.props _ (fun p => str c p.1 ++ Spec.va c p.2)
    (fun p hp => Emits.append (emits_string c p.1) (emits_va c p.2 (h.2 p hp)))

theorem emits_ts (c : Cfg) (cols : List CS) (h : ∀ x ∈ cols, x.Writable) :
    Emits (writeTS c ⟨cols.map some⟩) (Spec.ts c cols) := by
  unfold writeTS Spec.ts
  simp only [List.length_map, List.map_map]
  refine Emits.append (Emits.append (emits_sec 3) (emits_int32 c _)) ?_
  exact Emits.seqAllMap cols _ (Spec.cs c) (fun x hx => emits_cs c x (h x hx))

theorem emits_optObj (c : Cfg) (o : Option Obj) (h : ∀ x, o = some x → Writable x) :
    Emits (writeOptObj c o) (optObj c o) := by
  cases o with
  | none => exact emits_int8 0
  | some x => exact Emits.append (emits_int8 1) (emits_obj c x (h x rfl))

end Sbdf
