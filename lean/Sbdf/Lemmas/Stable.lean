/-
  `Stable` (success on a truncated stream implies the same success on the full stream) for every
  reader and skipper of the model.  Each proof is the same script: unfold, then close under
  bind / if / match / counted loops.
-/
import Sbdf.Lemmas.P
import Sbdf.Slice
namespace Sbdf

/-- close a `Stable` goal structurally, using the given lemmas for sub-readers -/
macro "stable_tac" "[" ls:Lean.Parser.Tactic.SolveByElim.arg,* "]" : tactic =>
  `(tactic| (repeat' (first
      | exact Stable.pure _ | exact Stable.fail _ | exact Stable.ub _ | exact Stable.readN _
      | exact Stable.seek _ | exact Stable.skipBytes _ _ | exact Stable.alloc _ _ | exact Stable.guardUB _ _
      | solve_by_elim (maxDepth := 3) only [$ls,*]
      | refine Stable.bind ?_ (fun _ => ?_)
      | refine Stable.readMany ?_ _
      | refine Stable.skipMany ?_ _
      | refine Stable.ite ?_ ?_
      | (dsimp only)
      | split)))

theorem stable_readInt32 (c : Cfg) : Stable (readInt32 c) := by
  unfold readInt32; simp only [P.bind_def]; stable_tac []

theorem stable_readInt8 : Stable readInt8 := by
  unfold readInt8; simp only [P.bind_def]; stable_tac []

theorem stable_read7Aux (f shl r : Nat) : Stable (read7Aux f shl r) := by
  induction f generalizing shl r with
  | zero => exact Stable.fail _
  | succ f ih => unfold read7Aux; stable_tac [ih]

theorem stable_read7 : Stable read7 := stable_read7Aux _ _ _

theorem stable_allocStr (c : Cfg) (l : Int) : Stable (allocStr c l) := by unfold allocStr; stable_tac []
theorem stable_allocBa (c : Cfg) (l : Int) : Stable (allocBa c l) := by unfold allocBa; stable_tac []

theorem stable_readString (c : Cfg) : Stable (readString c) := by
  unfold readString; simp only [P.bind_def]; stable_tac [stable_readInt32, stable_allocStr]

theorem stable_skipString (c : Cfg) : Stable (skipString c) := by
  unfold skipString; simp only [P.bind_def]; stable_tac [stable_readInt32]

theorem stable_secRead : Stable secRead := by
  unfold secRead; simp only [P.bind_def]; stable_tac [stable_readInt8]

theorem stable_secExpect (id : Nat) : Stable (secExpect id) := by
  unfold secExpect; simp only [P.bind_def]; stable_tac [stable_secRead]

theorem stable_fhRead : Stable fhRead := by
  unfold fhRead; simp only [P.bind_def]; stable_tac [stable_secExpect, stable_readInt8]

theorem stable_readElem (c : Cfg) (s p : Bool) : Stable (readElem c s p) := by
  unfold readElem; simp only [P.bind_def]
  stable_tac [stable_read7, stable_readInt32, stable_allocStr, stable_allocBa]

theorem stable_readObjects (c : Cfg) (tid : Nat) (count : Int) (p : Bool) : Stable (readObjects c tid count p) := by
  unfold readObjects; simp only [P.bind_def]
  stable_tac [stable_readInt32, stable_readElem]

theorem stable_readObjArr (c : Cfg) (tid : Nat) : Stable (readObjArr c tid) := by
  unfold readObjArr; simp only [P.bind_def]; stable_tac [stable_readInt32, stable_readObjects]

theorem stable_readObj (c : Cfg) (tid : Nat) : Stable (readObj c tid) := stable_readObjects _ _ _ _

theorem stable_skipObjects (c : Cfg) (tid : Nat) (count : Int) (p : Bool) : Stable (skipObjects c tid count p) := by
  unfold skipObjects; simp only [P.bind_def]
  stable_tac [stable_readInt32]

theorem stable_skipObjArr (c : Cfg) (tid : Nat) : Stable (skipObjArr c tid) := by
  unfold skipObjArr; simp only [P.bind_def]; stable_tac [stable_readInt32, stable_skipObjects]

theorem stable_readVA (c : Cfg) : Stable (readVA c) := by
  unfold readVA; simp only [P.bind_def]
  stable_tac [stable_readInt8, stable_readInt32, stable_readObjArr, stable_allocBa]

theorem stable_skipVA (c : Cfg) : Stable (skipVA c) := by
  unfold skipVA; simp only [P.bind_def]
  stable_tac [stable_readInt8, stable_readInt32, stable_skipObjArr]

theorem stable_remapErr (s : Status) {p : P α} (hp : Stable p) : Stable (remapErr s p) := by
  constructor
  intro d L pos a pos' h
  unfold remapErr at h ⊢
  cases hpe : p (d.take L).toArray pos with
  | error e => cases e <;> simp [hpe] at h
  | ok r =>
    obtain ⟨a', p1⟩ := r
    simp only [hpe] at h
    rw [hp.out d L pos a' p1 hpe]; exact h

theorem stable_readOptObj (c : Cfg) (vt : Nat) (st : Bool) : Stable (readOptObj c vt st) := by
  unfold readOptObj; simp only [P.bind_def]; stable_tac [stable_readInt8, stable_readObj]
theorem stable_readMdValues (c : Cfg) (vt : Nat) : Stable (readMdValues c vt) := by
  unfold readMdValues; simp only [P.bind_def]; stable_tac [stable_readOptObj]
theorem stable_readTableEntry (c : Cfg) : Stable (readTableEntry c) := by
  unfold readTableEntry; simp only [P.bind_def]; stable_tac [stable_readString, stable_readInt8, stable_readMdValues]
theorem stable_readNameRow (c : Cfg) : Stable (readNameRow c) := by
  unfold readNameRow; simp only [P.bind_def]; stable_tac [stable_readString, stable_readInt8, stable_readOptObj]
theorem stable_readColumn (c : Cfg) (rows : List NameRow) (m : Md) : Stable (readColumn c rows m) := by
  induction rows generalizing m with
  | nil => exact Stable.pure _
  | cons r rs ih => unfold readColumn; simp only [P.bind_def]; stable_tac [stable_readOptObj, ih]
theorem stable_readTM (c : Cfg) : Stable (readTM c) := by
  unfold readTM; simp only [P.bind_def]
  stable_tac [stable_secExpect, stable_readInt32, stable_readTableEntry, stable_readNameRow,
    stable_readColumn, stable_remapErr]

theorem stable_readProp (c : Cfg) : Stable (readProp c) := by
  unfold readProp; simp only [P.bind_def]; stable_tac [stable_readString, stable_readVA]

theorem stable_readCS (c : Cfg) : Stable (readCS c) := by
  unfold readCS; simp only [P.bind_def]
  stable_tac [stable_secExpect, stable_readVA, stable_readInt32, stable_readProp]

theorem stable_skipCS (c : Cfg) : Stable (skipCS c) := by
  unfold skipCS; simp only [P.bind_def]
  stable_tac [stable_secExpect, stable_skipVA, stable_readInt32, stable_skipString]

theorem stable_readCols (c : Cfg) (n : Nat) (sub : Option (List Bool)) (i : Nat) : Stable (readCols c n sub i) := by
  induction n generalizing i with
  | zero => exact Stable.pure _
  | succ n ih =>
    unfold readCols; simp only [P.bind_def]
    stable_tac [stable_readCS, stable_skipCS, ih]

theorem stable_readTS (c : Cfg) (n : Nat) (sub : Option (List Bool)) : Stable (readTS c n sub) := by
  unfold readTS; simp only [P.bind_def]
  stable_tac [stable_secRead, stable_readInt32, stable_readCols]

end Sbdf
