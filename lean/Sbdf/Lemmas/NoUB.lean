/-
  `NoUB p`: on every input the reader `p` never reaches a ghost check that fails, i.e. the C code
  it models never executes an operation whose precondition does not hold (out-of-range shift,
  overflowing size computation).  Closed under bind / if / match / counted loops.
-/
import Sbdf.Lemmas.P
import Sbdf.Slice
namespace Sbdf

structure NoUB (p : P α) : Prop where
  out : ∀ (d : Array UInt8) (pos : Nat) (w : String), p d pos ≠ .error (.ub w)

theorem NoUB.pure (a : α) : NoUB (P.pure a) := ⟨by intro d pos w; simp [P.pure]⟩
theorem NoUB.fail (s : Status) : NoUB (P.fail s : P α) := ⟨by intro d pos w; simp [P.fail]⟩

theorem NoUB.bind {p : P α} {f : α → P β} (hp : NoUB p) (hf : ∀ a, NoUB (f a)) : NoUB (P.bind p f) := by
  constructor
  intro d pos w
  simp only [P.bind]
  cases h : p d pos with
  | error e =>
    simp only
    intro he; cases he; exact hp.out d pos w h
  | ok r => obtain ⟨a, p1⟩ := r; exact (hf a).out d p1 w

theorem NoUB.readN (n : Nat) : NoUB (Sbdf.readN n) := by
  constructor; intro d pos w; unfold Sbdf.readN; split
  · simp
  · split <;> simp

theorem NoUB.seek (dl : Int) : NoUB (Sbdf.seek dl) := by
  constructor; intro d pos w; unfold Sbdf.seek; split <;> simp

theorem NoUB.skipBytes (c : Cfg) (dl : Int) : NoUB (Sbdf.skipBytes c dl) := by
  unfold Sbdf.skipBytes Sbdf.discard; split
  · exact NoUB.bind (NoUB.readN _) (fun _ => NoUB.pure _)
  · exact NoUB.seek _

theorem NoUB.alloc (c : Cfg) (n : Int) : NoUB (Sbdf.alloc c n) := by
  unfold Sbdf.alloc; split
  · exact NoUB.fail _
  · exact NoUB.pure _

/-- a ghost check whose condition holds -/
theorem NoUB.guardTrue (w : String) : NoUB (Sbdf.guardUB true w) := by
  unfold Sbdf.guardUB; exact NoUB.pure _

theorem NoUB.ite {c : Prop} [Decidable c] {p q : P α} (hp : NoUB p) (hq : NoUB q) :
    NoUB (if c then p else q) := by
  split <;> assumption

theorem NoUB.readMany {p : P α} (hp : NoUB p) (n : Nat) : NoUB (readMany n p) := by
  induction n with
  | zero => exact NoUB.pure _
  | succ n ih =>
    simp only [Sbdf.readMany, P.bind_def, P.pure_def']
    exact NoUB.bind hp (fun a => NoUB.bind ih (fun as => NoUB.pure _))

theorem NoUB.skipMany {p : P Unit} (hp : NoUB p) (n : Nat) : NoUB (skipMany n p) := by
  induction n with
  | zero => exact NoUB.pure _
  | succ n ih =>
    simp only [Sbdf.skipMany, P.bind_def]
    exact NoUB.bind hp (fun _ => ih)

macro "nub_tac" "[" ls:Lean.Parser.Tactic.SolveByElim.arg,* "]" : tactic =>
  `(tactic| (repeat' (first
      | exact NoUB.pure _ | exact NoUB.fail _ | exact NoUB.readN _
      | exact NoUB.seek _ | exact NoUB.skipBytes _ _ | exact NoUB.alloc _ _
      | solve_by_elim (maxDepth := 3) only [$ls,*]
      | refine NoUB.bind ?_ (fun _ => ?_)
      | refine NoUB.readMany ?_ _
      | refine NoUB.skipMany ?_ _
      | refine NoUB.ite ?_ ?_
      | (dsimp only)
      | split)))

theorem nub_readInt32 (c : Cfg) : NoUB (readInt32 c) := by
  unfold readInt32; simp only [P.bind_def]; nub_tac []
theorem nub_readInt8 : NoUB readInt8 := by
  unfold readInt8; simp only [P.bind_def]; nub_tac []

/-- the shift count stays below 32: `shl + 7 * (groups still allowed) ≤ 35` -/
theorem nub_read7Aux (f shl r : Nat) (hs : shl + 7 * f ≤ 35) : NoUB (read7Aux f shl r) := by
  induction f generalizing shl r with
  | zero => exact NoUB.fail _
  | succ f ih =>
    have hshl : shl < 32 := by omega
    unfold read7Aux
    refine NoUB.bind (NoUB.readN _) (fun b => ?_)
    dsimp only
    by_cases hg : shl = 28 ∧ leNat b % 128 ≥ 16
    · rw [if_pos hg]; exact NoUB.fail _
    · rw [if_neg hg, if_pos hshl]
      by_cases h128 : leNat b ≥ 128
      · rw [if_pos h128]
        by_cases hf : f = 0
        · rw [if_pos hf]; exact NoUB.fail _
        · rw [if_neg hf]; exact ih _ _ (by omega)
      · rw [if_neg h128]; exact NoUB.pure _

theorem nub_read7 : NoUB read7 := nub_read7Aux 5 0 0 (by omega)

theorem nub_allocStr (c : Cfg) (l : Int) : NoUB (allocStr c l) := by unfold allocStr; nub_tac []
theorem nub_allocBa (c : Cfg) (l : Int) : NoUB (allocBa c l) := by unfold allocBa; nub_tac []
theorem nub_readString (c : Cfg) : NoUB (readString c) := by
  unfold readString; simp only [P.bind_def]; nub_tac [nub_readInt32, nub_allocStr]
theorem nub_skipString (c : Cfg) : NoUB (skipString c) := by
  unfold skipString; simp only [P.bind_def]; nub_tac [nub_readInt32]
theorem nub_secRead : NoUB secRead := by
  unfold secRead; simp only [P.bind_def]; nub_tac [nub_readInt8]
theorem nub_secExpect (id : Nat) : NoUB (secExpect id) := by
  unfold secExpect; simp only [P.bind_def]; nub_tac [nub_secRead]
theorem nub_fhRead : NoUB fhRead := by
  unfold fhRead; simp only [P.bind_def]; nub_tac [nub_secExpect, nub_readInt8]
theorem nub_readElem (c : Cfg) (s p : Bool) : NoUB (readElem c s p) := by
  unfold readElem; simp only [P.bind_def]
  nub_tac [nub_read7, nub_readInt32, nub_allocStr, nub_allocBa]

/-- `count ≤ INT_MAX / sz` (the repaired guard) implies the product fits an `int` -/
theorem mul_fits (sz : Nat) (count : Int) (hsz : 0 < sz) (h0 : ¬ count < 0) (h : ¬ count > INT_MAX / (sz : Int)) :
    decide ((sz : Int) * count ≤ INT_MAX) = true := by
  have h1 : count ≤ INT_MAX / (sz : Int) := by omega
  have h2 : (sz : Int) * count ≤ (sz : Int) * (INT_MAX / (sz : Int)) :=
    Int.mul_le_mul_of_nonneg_left h1 (by omega)
  have h3 : (sz : Int) * (INT_MAX / (sz : Int)) ≤ INT_MAX := Int.mul_ediv_self_le (by omega)
  simp; omega

theorem fixedSize_pos' {t n : Nat} (h : fixedSize t = .ok n) : 0 < n := by
  unfold fixedSize at h
  cases hu : unpackedSize t with
  | none => simp [hu] at h
  | some k => cases k with
    | zero => simp [hu] at h
    | succ k => simp [hu] at h; omega

theorem nub_readObjects (c : Cfg) (tid : Nat) (count : Int) (p : Bool) : NoUB (readObjects c tid count p) := by
  unfold readObjects; simp only [P.bind_def]
  split
  · exact NoUB.fail _
  · rename_i h0
    split
    · nub_tac [nub_readInt32, nub_readElem]
    · split
      · exact NoUB.fail _
      · rename_i sz hsz
        split
        · exact NoUB.fail _
        · rename_i hdiv
          rw [mul_fits sz count (fixedSize_pos' hsz) h0 hdiv]
          refine NoUB.bind (NoUB.guardTrue _) (fun _ => ?_)
          nub_tac []

theorem nub_readObjArr (c : Cfg) (tid : Nat) : NoUB (readObjArr c tid) := by
  unfold readObjArr; simp only [P.bind_def]; nub_tac [nub_readInt32, nub_readObjects]
theorem nub_readObj (c : Cfg) (tid : Nat) : NoUB (readObj c tid) := nub_readObjects _ _ _ _

theorem nub_skipObjects (c : Cfg) (tid : Nat) (count : Int) (p : Bool) : NoUB (skipObjects c tid count p) := by
  unfold skipObjects; simp only [P.bind_def]
  split
  · exact NoUB.fail _
  · rename_i h0
    split
    · nub_tac [nub_readInt32]
    · split
      · exact NoUB.fail _
      · rename_i sz hsz
        split
        · exact NoUB.fail _
        · rename_i hdiv
          rw [mul_fits sz count (fixedSize_pos' hsz) h0 hdiv]
          refine NoUB.bind (NoUB.guardTrue _) (fun _ => ?_)
          nub_tac []

theorem nub_skipObjArr (c : Cfg) (tid : Nat) : NoUB (skipObjArr c tid) := by
  unfold skipObjArr; simp only [P.bind_def]; nub_tac [nub_readInt32, nub_skipObjects]

theorem nub_readVA (c : Cfg) : NoUB (readVA c) := by
  unfold readVA; simp only [P.bind_def]
  nub_tac [nub_readInt8, nub_readInt32, nub_readObjArr, nub_allocBa]

theorem nub_skipVA (c : Cfg) : NoUB (skipVA c) := by
  unfold skipVA; simp only [P.bind_def]
  nub_tac [nub_readInt8, nub_readInt32, nub_skipObjArr]

theorem nub_remapErr (s : Status) {p : P α} (hp : NoUB p) : NoUB (remapErr s p) := by
  constructor
  intro d pos w
  unfold remapErr
  cases hpe : p d pos with
  | error e =>
    cases e with
    | st s' => simp
    | ub w' => exact absurd hpe (hp.out d pos w')
  | ok r => simp

theorem nub_readOptObj (c : Cfg) (vt : Nat) (st : Bool) : NoUB (readOptObj c vt st) := by
  unfold readOptObj; simp only [P.bind_def]; nub_tac [nub_readInt8, nub_readObj]
theorem nub_readMdValues (c : Cfg) (vt : Nat) : NoUB (readMdValues c vt) := by
  unfold readMdValues; simp only [P.bind_def]; nub_tac [nub_readOptObj]
theorem nub_readTableEntry (c : Cfg) : NoUB (readTableEntry c) := by
  unfold readTableEntry; simp only [P.bind_def]; nub_tac [nub_readString, nub_readInt8, nub_readMdValues]
theorem nub_readNameRow (c : Cfg) : NoUB (readNameRow c) := by
  unfold readNameRow; simp only [P.bind_def]; nub_tac [nub_readString, nub_readInt8, nub_readOptObj]
theorem nub_readColumn (c : Cfg) (rows : List NameRow) (m : Md) : NoUB (readColumn c rows m) := by
  induction rows generalizing m with
  | nil => exact NoUB.pure _
  | cons r rs ih => unfold readColumn; simp only [P.bind_def]; nub_tac [nub_readOptObj, ih]
theorem nub_readTM (c : Cfg) : NoUB (readTM c) := by
  unfold readTM; simp only [P.bind_def]
  nub_tac [nub_secExpect, nub_readInt32, nub_readTableEntry, nub_readNameRow, nub_readColumn, nub_remapErr]
theorem nub_readProp (c : Cfg) : NoUB (readProp c) := by
  unfold readProp; simp only [P.bind_def]; nub_tac [nub_readString, nub_readVA]

theorem nub_readCS (c : Cfg) : NoUB (readCS c) := by
  unfold readCS; simp only [P.bind_def]
  refine NoUB.bind (nub_secExpect _) (fun _ => NoUB.bind (nub_readVA c) (fun values => NoUB.bind (nub_readInt32 c) (fun v => ?_)))
  split
  · exact NoUB.fail _
  split
  · rename_i hv
    split
    · exact NoUB.fail _
    · rename_i hdiv
      have : decide (v * 8 ≤ INT_MAX) = true := by
        have := mul_fits 8 v (by omega) (by omega) (by simpa using hdiv)
        simp at this ⊢; omega
      rw [this]
      refine NoUB.bind (NoUB.guardTrue _) (fun _ => ?_)
      nub_tac [nub_readProp]
  · exact NoUB.pure _

theorem nub_skipCS (c : Cfg) : NoUB (skipCS c) := by
  unfold skipCS; simp only [P.bind_def]
  nub_tac [nub_secExpect, nub_skipVA, nub_readInt32, nub_skipString]
theorem nub_readCols (c : Cfg) (n : Nat) (sub : Option (List Bool)) (i : Nat) : NoUB (readCols c n sub i) := by
  induction n generalizing i with
  | zero => exact NoUB.pure _
  | succ n ih => unfold readCols; simp only [P.bind_def]; nub_tac [nub_readCS, nub_skipCS, ih]
theorem nub_readTS (c : Cfg) (n : Nat) (sub : Option (List Bool)) : NoUB (readTS c n sub) := by
  unfold readTS; simp only [P.bind_def]; nub_tac [nub_secRead, nub_readInt32, nub_readCols]

end Sbdf
