/-
  Postconditions of the readers for ARBITRARY input: whatever bytes a reader is given, if it
  returns OK then its result satisfies `Q`.  (`Reads` goes from well-formed bytes to results;
  `Post` goes from success on any bytes to facts about the result — sizes granted by the
  allocator, counts within int, element shapes.)  Closed under bind / if / counted loops.
-/
import Sbdf.Lemmas.ReadsTM
namespace Sbdf

/-- on every input and at every offset, success implies `Q` of the result -/
def Post (p : P α) (Q : α → Prop) : Prop :=
  ∀ (d : Array UInt8) (pos : Nat) (a : α) (pos' : Nat), p d pos = .ok (a, pos') → Q a

theorem Post.pure {a : α} {Q : α → Prop} (h : Q a) : Post (P.pure a) Q := by
  intro d pos a' pos' he
  simp only [P.pure, Except.ok.injEq, Prod.mk.injEq] at he
  rw [← he.1]; exact h

theorem Post.fail {s : Status} {Q : α → Prop} : Post (P.fail s : P α) Q := by
  intro d pos a pos' he; simp [P.fail] at he

theorem Post.ub {w : String} {Q : α → Prop} : Post (P.ub w : P α) Q := by
  intro d pos a pos' he; simp [P.ub] at he

theorem Post.bind {p : P α} {f : α → P β} {Q : α → Prop} {R : β → Prop}
    (hp : Post p Q) (hf : ∀ a, Q a → Post (f a) R) : Post (P.bind p f) R := by
  intro d pos b pos' he
  obtain ⟨a, p1, h1, h2⟩ := P.bind_eq_ok.mp he
  exact hf a (hp d pos a p1 h1) d p1 b pos' h2

theorem Post.weaken {p : P α} {Q R : α → Prop} (hp : Post p Q) (h : ∀ a, Q a → R a) : Post p R :=
  fun d pos a pos' he => h a (hp d pos a pos' he)

theorem Post.trivial {p : P α} : Post p (fun _ => True) := fun _ _ _ _ _ => True.intro

theorem Post.and {p : P α} {Q R : α → Prop} (h1 : Post p Q) (h2 : Post p R) : Post p (fun a => Q a ∧ R a) :=
  fun d pos a pos' he => ⟨h1 d pos a pos' he, h2 d pos a pos' he⟩

theorem Post.ite {cnd : Prop} [Decidable cnd] {p q : P α} {Q : α → Prop}
    (hp : cnd → Post p Q) (hq : ¬ cnd → Post q Q) : Post (if cnd then p else q) Q := by
  split
  · rename_i h; exact hp h
  · rename_i h; exact hq h

theorem Post.readN (n : Nat) : Post (Sbdf.readN n) (fun b => b.length = n) := by
  intro d pos a pos' he
  unfold Sbdf.readN at he
  split at he
  · rename_i h0; simp only [Except.ok.injEq, Prod.mk.injEq] at he; rw [← he.1, h0]; rfl
  · split at he
    · rename_i hle
      simp only [Except.ok.injEq, Prod.mk.injEq] at he
      rw [← he.1]
      simp only [Array.toList_extract, List.extract_eq_take_drop, List.length_take, List.length_drop,
        Array.length_toList]
      omega
    · simp at he

theorem Post.alloc (c : Cfg) (n : Int) : Post (Sbdf.alloc c n) (fun _ => 0 ≤ n ∧ n ≤ c.cap) := by
  unfold Sbdf.alloc
  refine Post.ite (fun _ => Post.fail) (fun h => Post.pure (by omega))

theorem Post.allocStr (c : Cfg) (l : Int) : Post (Sbdf.allocStr c l) (fun _ => l ≤ INT_MAX - 5 ∧ l + 5 ≤ c.cap) := by
  unfold Sbdf.allocStr
  refine Post.ite (fun _ => Post.fail) (fun h => (Post.alloc c _).weaken (fun _ hh => ⟨by omega, hh.2⟩))

theorem Post.allocBa (c : Cfg) (l : Int) : Post (Sbdf.allocBa c l) (fun _ => l + 4 ≤ c.cap) := by
  unfold Sbdf.allocBa
  exact (Post.alloc c _).weaken (fun _ hh => hh.2)

theorem Post.guardUB (b : Bool) (w : String) : Post (Sbdf.guardUB b w) (fun _ => b = true) := by
  unfold Sbdf.guardUB
  refine Post.ite (fun h => Post.pure h) (fun _ => Post.ub)

theorem Post.readMany {p : P α} {Q : α → Prop} (hp : Post p Q) (n : Nat) :
    Post (readMany n p) (fun l => l.length = n ∧ ∀ x ∈ l, Q x) := by
  induction n with
  | zero => exact Post.pure (by simp)
  | succ n ih =>
    simp only [Sbdf.readMany, P.bind_def, P.pure_def']
    refine Post.bind hp (fun a ha => Post.bind ih (fun as has => Post.pure ?_))
    refine ⟨by simp [has.1], ?_⟩
    intro x hx
    simp only [List.mem_cons] at hx
    rcases hx with rfl | hx
    · exact ha
    · exact has.2 x hx

theorem Post.remapErr {p : P α} {Q : α → Prop} (s : Status) (hp : Post p Q) : Post (remapErr s p) Q := by
  intro d pos a pos' he
  unfold Sbdf.remapErr at he
  split at he
  · simp at he
  · rename_i hne
    exact hp d pos a pos' he

/-! ### primitives -/

theorem Post.readInt32 (c : Cfg) : Post (Sbdf.readInt32 c) (fun v => isInt32 v) := by
  unfold Sbdf.readInt32
  simp only [P.bind_def]
  refine Post.bind (Post.readN 4) (fun b hb => Post.pure ?_)
  apply toInt32_isInt32
  have := leNat_lt (swapElem c b)
  have hl : (swapElem c b).length = 4 := by unfold swapElem; split <;> simp [hb]
  rw [hl] at this
  omega

theorem Post.readInt8 : Post Sbdf.readInt8 (fun v => v < 256) := by
  unfold Sbdf.readInt8
  simp only [P.bind_def]
  refine Post.bind (Post.readN 1) (fun b hb => Post.pure ?_)
  have := leNat_lt b
  rw [hb] at this
  omega

theorem Post.readString (c : Cfg) : Post (Sbdf.readString c) (fun s => fitsStr c s.length) := by
  unfold Sbdf.readString
  simp only [P.bind_def]
  refine Post.bind (Post.readInt32 c) (fun l _ => ?_)
  refine Post.ite (fun _ => Post.fail) (fun hl => ?_)
  refine Post.bind (Post.allocStr c l) (fun _ ha => ?_)
  refine (Post.readN l.toNat).weaken (fun s hs => ?_)
  unfold fitsStr
  rw [hs]
  have : ((l.toNat : Nat) : Int) = l := Int.toNat_of_nonneg (by omega)
  rw [this]; exact ha

theorem Post.read7 : Post Sbdf.read7 (fun v => v ≤ INT_MAX) := by
  intro d pos a pos' he
  unfold Sbdf.read7 at he
  have key : ∀ f shl res d pos a pos', read7Aux f shl res d pos = .ok (a, pos') → a ≤ INT_MAX := by
    intro f
    induction f with
    | zero => intro shl res d pos a pos' h; simp [read7Aux, P.fail] at h
    | succ f ih =>
      intro shl res d pos a pos' h
      simp only [read7Aux] at h
      obtain ⟨b, p1, _, h2⟩ := P.bind_eq_ok.mp h
      by_cases hg : shl = 28 ∧ leNat b % 128 ≥ 16
      · rw [if_pos hg] at h2; simp [P.fail] at h2
      · rw [if_neg hg] at h2
        by_cases hshl : shl < 32
        · rw [if_pos hshl] at h2
          by_cases h128 : leNat b ≥ 128
          · rw [if_pos h128] at h2
            by_cases hf : f = 0
            · rw [if_pos hf] at h2; simp [P.fail] at h2
            · rw [if_neg hf] at h2; exact ih _ _ d p1 a pos' h2
          · rw [if_neg h128] at h2
            simp only [P.pure, Except.ok.injEq, Prod.mk.injEq] at h2
            rw [← h2.1]
            unfold toInt32 INT_MAX; split <;> omega
        · rw [if_neg hshl] at h2; simp [P.ub] at h2
  exact key 5 0 0 d pos a pos' he

theorem Post.readElem (c : Cfg) (isStr packed : Bool) :
    Post (Sbdf.readElem c isStr packed) (fun e => fitsElem c isStr e.length) := by
  have tail : ∀ l : Int, l ≤ INT_MAX → Post (if l < 0 then P.fail Status.invalidSize
      else (if isStr = true then Sbdf.allocStr c l else Sbdf.allocBa c l).bind fun _ => Sbdf.readN l.toNat)
      (fun e => fitsElem c isStr e.length) := by
    intro l hl
    refine Post.ite (fun _ => Post.fail) (fun hl0 => ?_)
    have hcast : ((l.toNat : Nat) : Int) = l := Int.toNat_of_nonneg (by omega)
    unfold fitsElem
    cases isStr with
    | true =>
      simp only [if_true]
      refine Post.bind (Post.allocStr c l) (fun _ ha => (Post.readN l.toNat).weaken (fun s hs => ?_))
      unfold fitsStr; rw [hs, hcast]; exact ha
    | false =>
      simp only [Bool.false_eq_true, if_false]
      refine Post.bind (Post.allocBa c l) (fun _ ha => (Post.readN l.toNat).weaken (fun s hs => ?_))
      unfold fitsBa; rw [hs, hcast]; exact ⟨hl, ha⟩
  unfold Sbdf.readElem
  simp only [P.bind_def]
  split
  · exact Post.bind Post.read7 (fun l hl => tail l hl)
  · exact Post.bind ((Post.readInt32 c).weaken (fun v hv => by unfold isInt32 at hv; unfold INT_MAX; omega))
      (fun l hl => tail l hl)

theorem chunksOf_lengths (sz n : Nat) (b : Bytes) (h : b.length = sz * n) :
    (chunksOf sz n b).length = n ∧ ∀ e ∈ chunksOf sz n b, e.length = sz := by
  induction n generalizing b with
  | zero => simp [chunksOf]
  | succ n ih =>
    simp only [chunksOf, List.length_cons, List.mem_cons]
    have hd : (b.drop sz).length = sz * n := by rw [List.length_drop, h, Nat.mul_succ]; omega
    obtain ⟨h1, h2⟩ := ih (b.drop sz) hd
    refine ⟨by rw [h1], ?_⟩
    intro e he
    rcases he with rfl | he
    · rw [List.length_take, h, Nat.mul_succ]; omega
    · exact h2 e he

/-- `sbdf_read_objects`: whatever it returns has the requested type and count and only sizes the
    allocator granted -/
theorem Post.readObjects (c : Cfg) (tid : Nat) (count : Int) (packed : Bool) (hc : count ≤ INT_MAX) :
    Post (Sbdf.readObjects c tid count packed)
      (fun o => o.tid = tid ∧ (o.count : Int) = count ∧ o.Fits c) := by
  unfold Sbdf.readObjects
  simp only [P.bind_def]
  refine Post.ite (fun _ => Post.fail) (fun h0 => ?_)
  have hcast : ((count.toNat : Nat) : Int) = count := Int.toNat_of_nonneg (by omega)
  split
  · rename_i harr
    refine Post.bind (Post.alloc c _) (fun _ ha => ?_)
    refine Post.bind (Q := fun _ => True) Post.trivial (fun _ _ => ?_)
    refine Post.bind (Post.readMany (Post.readElem c (tid == 10) packed) count.toNat) (fun es hes => Post.pure ?_)
    refine ⟨rfl, by simp [Obj.count, hes.1, hcast], ?_⟩
    unfold Obj.Fits
    simp only [harr, if_true, Obj.count, hes.1, hcast]
    exact ⟨ha.2, hc, hes.2⟩
  · rename_i harr
    split
    · exact Post.fail
    · rename_i sz hsz
      refine Post.ite (fun _ => Post.fail) (fun hdiv => ?_)
      refine Post.bind (Post.guardUB _ _) (fun _ hg => ?_)
      refine Post.bind (Post.alloc c _) (fun _ ha => ?_)
      refine Post.bind (Post.readN _) (fun raw hraw => Post.pure ?_)
      obtain ⟨hl, hel⟩ := chunksOf_lengths sz count.toNat raw hraw
      have hcnt : ((⟨tid, (chunksOf sz count.toNat raw).map (swapElem c)⟩ : Obj).count : Int) = count := by
        simp [Obj.count, hl, hcast]
      refine ⟨rfl, hcnt, ?_⟩
      unfold Obj.Fits
      simp only [harr, Bool.false_eq_true, if_false]
      refine ⟨sz, hsz, ?_, ?_, ?_⟩
      · intro e he
        simp only [List.mem_map] at he
        obtain ⟨x, hx, rfl⟩ := he
        have : (swapElem c x).length = x.length := by unfold swapElem; split <;> simp
        rw [this]; exact hel x hx
      · rw [hcnt]; exact ha.2
      · rw [hcnt]; simpa using hg

theorem Post.readObj (c : Cfg) (tid : Nat) :
    Post (Sbdf.readObj c tid) (fun o => o.tid = tid ∧ o.count = 1 ∧ o.Fits c) := by
  unfold Sbdf.readObj
  refine (Post.readObjects c tid 1 false (by decide)).weaken (fun o ho => ⟨ho.1, by have := ho.2.1; omega, ho.2.2⟩)

theorem Post.readOptObj (c : Cfg) (vt : Nat) (strict : Bool) (hvt : vt < 256) :
    Post (Sbdf.readOptObj c vt strict) (fun o => ∀ x, o = some x → MdObjOk c x ∧ x.tid = vt) := by
  unfold Sbdf.readOptObj
  simp only [P.bind_def]
  refine Post.bind Post.readInt8 (fun v _ => ?_)
  refine Post.ite (fun _ => ?_) (fun _ => Post.pure (by intro x hx; cases hx))
  refine Post.ite (fun _ => Post.fail) (fun _ => ?_)
  refine Post.bind (Post.readObj c vt) (fun o ho => Post.pure ?_)
  intro x hx
  simp only [Option.some.injEq] at hx; subst hx
  exact ⟨⟨ho.2.2, ho.2.1, by rw [ho.1]; exact hvt⟩, ho.1⟩

end Sbdf
