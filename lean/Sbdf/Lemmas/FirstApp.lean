/-
  Combinatorics of first-appearance folding, for the idempotence of the column-metadata name
  list under read → write (C08).

  Setting: `K` — the name list (entries with pairwise different C-string names); `cols` — for
  every column a partial function `g : MdEntry → Option MdEntry` giving, for a name-list row, the
  entry of that column under that name (same name) or none.  The column as the reader rebuilds
  it is `K.filterMap g` (name-list order).  Claim: if `K` lists its names in order of first
  appearance over the columns (`Compat`), folding the rebuilt columns yields, for every used
  name of `K` in the order of `K`, the entry of the first column that has it.
-/
import Sbdf.Lemmas.Canon
namespace Sbdf

abbrev ColFn := MdEntry → Option MdEntry

def sameName (a b : MdEntry) : Bool := Md.nameEq a.name b.name

theorem sameName_refl (a : MdEntry) : sameName a a = true := by simp [sameName, Md.nameEq]
theorem sameName_symm {a b : MdEntry} (h : sameName a b = true) : sameName b a = true := nameEq_symm' h
theorem sameName_trans {a b c : MdEntry} (h1 : sameName a b = true) (h2 : sameName b c = true) :
    sameName a c = true := nameEq_trans h1 h2

/-- the name-keyed test of `firstAppearance` -/
theorem fa_cons (seen : List MdEntry) (e : MdEntry) (es : List MdEntry) :
    firstAppearance seen (e :: es) =
      if seen.any (fun s => sameName s e) then firstAppearance (e :: seen) es
      else e :: firstAppearance (e :: seen) es := rfl

/-- entries named like `a` can be dropped from the input once an `a`-named entry has been seen;
    `seen1` and `seen2` may differ by `a`-named entries -/
theorem fa_drop_named (a : MdEntry) (es : List MdEntry) : ∀ (seen1 seen2 : List MdEntry),
    (seen1.any (fun s => sameName s a) = true) →
    (∀ x, sameName a x = false → seen1.any (fun s => sameName s x) = seen2.any (fun s => sameName s x)) →
    firstAppearance seen1 es = firstAppearance seen2 (es.filter (fun e => !sameName a e)) := by
  induction es with
  | nil => intro _ _ _ _; rfl
  | cons e es ih =>
    intro seen1 seen2 hhas heq
    by_cases hae : sameName a e = true
    · -- e is named like a: already seen on the left, dropped on the right
      have hseen : seen1.any (fun s => sameName s e) = true := by
        rw [List.any_eq_true] at hhas ⊢
        obtain ⟨s, hs, hsa⟩ := hhas
        exact ⟨s, hs, sameName_trans hsa hae⟩
      rw [fa_cons, hseen]
      simp only [if_true, List.filter_cons, hae, Bool.not_true, Bool.false_eq_true, if_false]
      apply ih
      · simp [hhas]
      · intro x hx
        have hex : sameName e x = false := by
          cases h : sameName e x with
          | false => rfl
          | true => rw [sameName_trans hae h] at hx; simp at hx
        simp only [List.any_cons, hex, Bool.false_or]
        exact heq x hx
    · have hae' : sameName a e = false := by simpa using hae
      rw [fa_cons]
      simp only [List.filter_cons, hae', Bool.not_false, if_true]
      rw [fa_cons, heq e hae']
      have hrec := ih (e :: seen1) (e :: seen2) (by simp [hhas]) (by
        intro x hx; simp only [List.any_cons]; rw [heq x hx])
      split
      · exact hrec
      · rw [hrec]

/-- the entry of the first column that has the name of `k` -/
def firstCol (cols : List ColFn) (k : MdEntry) : Option MdEntry := cols.findSome? (fun g => g k)

/-- what the reader rebuilds, column after column -/
def rebuiltAll (cols : List ColFn) (K : List MdEntry) : List MdEntry := cols.flatMap (fun g => K.filterMap g)

/-- `a` stands before `b` in the name list ⇒ `a` occurs in a column no later than `b` does -/
def Before (cols : List ColFn) (a b : MdEntry) : Prop :=
  ∀ pre g post, cols = pre ++ g :: post → (g b).isSome = true → ∃ g' ∈ pre ++ [g], (g' a).isSome = true

theorem rebuiltAll_unused (cols : List ColFn) (a : MdEntry) (K : List MdEntry) (h : ∀ g ∈ cols, g a = none) :
    rebuiltAll cols (a :: K) = rebuiltAll cols K := by
  unfold rebuiltAll
  induction cols with
  | nil => rfl
  | cons g gs ih =>
    rw [List.flatMap_cons, List.flatMap_cons, ih (fun x hx => h x (by simp [hx]))]
    congr 1
    simp only [List.filterMap_cons, h g (by simp)]

theorem firstCol_none (cols : List ColFn) (a : MdEntry) (h : firstCol cols a = none) : ∀ g ∈ cols, g a = none := by
  intro g hg
  unfold firstCol at h
  rw [List.findSome?_eq_none_iff] at h
  exact h g hg

/-- main lemma -/
theorem fa_rebuilt (cols : List ColFn)
    (hkey : ∀ g ∈ cols, ∀ k e, g k = some e → sameName e k = true) :
    ∀ (K : List MdEntry), K.Pairwise (fun a b => sameName a b = false) → K.Pairwise (Before cols) →
    firstAppearance [] (rebuiltAll cols K) = K.filterMap (firstCol cols) := by
  intro K
  induction K with
  | nil =>
    intro _ _
    have : rebuiltAll cols [] = [] := by
      unfold rebuiltAll; rw [List.flatMap_eq_nil_iff]; intro g _; rfl
    rw [this]; rfl
  | cons a K ih =>
    intro hdist hbefore
    rw [List.pairwise_cons] at hdist hbefore
    have ihK := ih hdist.2 hbefore.2
    cases hfc : firstCol cols a with
    | none =>
      rw [rebuiltAll_unused cols a K (firstCol_none cols a hfc)]
      simp only [List.filterMap_cons, hfc]
      exact ihK
    | some e0 =>
      simp only [List.filterMap_cons, hfc]
      -- split the columns at the first one that has `a`
      unfold firstCol at hfc
      obtain ⟨pre, g0, post, hcols, hpre, hg0⟩ : ∃ pre g0 post, cols = pre ++ g0 :: post ∧
          (∀ g ∈ pre, g a = none) ∧ g0 a = some e0 := by
        clear ihK hbefore hkey ih
        induction cols with
        | nil => simp at hfc
        | cons g gs ihc =>
          simp only [List.findSome?_cons] at hfc
          cases hga : g a with
          | some e =>
            simp only [hga, Option.some.injEq] at hfc
            exact ⟨[], g, gs, rfl, by simp, by rw [hga, hfc]⟩
          | none =>
            simp only [hga] at hfc
            obtain ⟨pre, g0, post, h1, h2, h3⟩ := ihc hfc
            exact ⟨g :: pre, g0, post, by rw [h1]; rfl, by
              intro x hx; simp only [List.mem_cons] at hx; rcases hx with rfl | hx
              · exact hga
              · exact h2 x hx, h3⟩
      -- columns before g0 hold nothing at all (anything there would force `a` there too)
      have hpre_empty : ∀ g ∈ pre, ∀ b ∈ K, g b = none := by
        intro g hg b hb
        cases hgb : g b with
        | none => rfl
        | some eb =>
          exfalso
          obtain ⟨p1, p2, hp⟩ := List.append_of_mem hg
          have hsplit : cols = p1 ++ g :: (p2 ++ g0 :: post) := by rw [hcols, hp]; simp
          obtain ⟨g', hg', hsome⟩ := hbefore.1 b hb p1 g (p2 ++ g0 :: post) hsplit (by simp [hgb])
          have : g' ∈ pre := by
            rw [hp]
            rcases List.mem_append.mp hg' with h | h
            · exact List.mem_append.mpr (.inl h)
            · have := List.mem_singleton.mp h
              subst this; simp
          rw [hpre g' this] at hsome; simp at hsome
      have hpreK : ∀ (L : List MdEntry), (∀ b ∈ L, b ∈ K) → pre.flatMap (fun g => L.filterMap g) = [] := by
        intro L hL
        rw [List.flatMap_eq_nil_iff]
        intro g hg
        rw [List.filterMap_eq_nil_iff]
        intro b hb
        exact hpre_empty g hg b (hL b hb)
      have hpre_a : pre.flatMap (fun g => (a :: K).filterMap g) = [] := by
        rw [List.flatMap_eq_nil_iff]
        intro g hg
        simp only [List.filterMap_cons, hpre g hg]
        rw [List.filterMap_eq_nil_iff]
        intro b hb; exact hpre_empty g hg b hb
      have hall : rebuiltAll cols (a :: K) =
          e0 :: (K.filterMap g0 ++ post.flatMap (fun g => (a :: K).filterMap g)) := by
        unfold rebuiltAll
        rw [hcols, List.flatMap_append, hpre_a]
        simp only [List.nil_append, List.flatMap_cons, List.filterMap_cons, hg0, List.cons_append]
      have hallK : rebuiltAll cols K = K.filterMap g0 ++ post.flatMap (fun g => K.filterMap g) := by
        unfold rebuiltAll
        rw [hcols, List.flatMap_append, hpreK K (fun b hb => hb)]
        simp only [List.nil_append, List.flatMap_cons]
      rw [hall, fa_cons]
      simp only [List.any_nil, Bool.false_eq_true, if_false]
      congr 1
      -- after e0, entries named like a are irrelevant
      have he0a : sameName e0 a = true := hkey g0 (by rw [hcols]; simp) a e0 hg0
      have hKne : ∀ b ∈ K, ∀ g ∈ cols, ∀ eb, g b = some eb → sameName e0 eb = false := by
        intro b hb g hg eb hgb
        have h1 : sameName eb b = true := hkey g hg b eb hgb
        have h2 : sameName a b = false := hdist.1 b hb
        cases h : sameName e0 eb with
        | false => rfl
        | true =>
          have : sameName a b = true := sameName_trans (sameName_symm he0a) (sameName_trans h h1)
          rw [this] at h2; simp at h2
      have hpostfilter : ∀ (ps : List ColFn), (∀ g ∈ ps, g ∈ cols) →
          (ps.flatMap (fun g => (a :: K).filterMap g)).filter (fun e => !sameName e0 e) =
          ps.flatMap (fun g => K.filterMap g) := by
        intro ps
        induction ps with
        | nil => intro _; rfl
        | cons g gs ihp =>
          intro hps
          rw [List.flatMap_cons, List.flatMap_cons, List.filter_append, ihp (fun x hx => hps x (by simp [hx]))]
          congr 1
          have hKf : (K.filterMap g).filter (fun e => !sameName e0 e) = K.filterMap g := by
            rw [List.filter_eq_self]
            intro e he
            rw [List.mem_filterMap] at he
            obtain ⟨b, hb, hgb⟩ := he
            simp [hKne b hb g (hps g (by simp)) e hgb]
          cases hga : g a with
          | none => simp only [List.filterMap_cons, hga]; exact hKf
          | some ea =>
            have : sameName e0 ea = true :=
              sameName_trans he0a (sameName_symm (hkey g (hps g (by simp)) a ea hga))
            simp only [List.filterMap_cons, hga, List.filter_cons, this, Bool.not_true, Bool.false_eq_true, if_false]
            exact hKf
      have hfilter : (K.filterMap g0 ++ post.flatMap (fun g => (a :: K).filterMap g)).filter (fun e => !sameName e0 e) =
          K.filterMap g0 ++ post.flatMap (fun g => K.filterMap g) := by
        rw [List.filter_append, hpostfilter post (by intro g hg; rw [hcols]; simp [hg])]
        congr 1
        rw [List.filter_eq_self]
        intro e he
        rw [List.mem_filterMap] at he
        obtain ⟨b, hb, hgb⟩ := he
        simp [hKne b hb g0 (by rw [hcols]; simp) e hgb]
      rw [fa_drop_named e0 _ [e0] [] (by simp [sameName_refl]) (by
        intro x hx; simp [hx]), hfilter, ← hallK]
      exact ihK

/-! ### the name list is ordered by first appearance: prefix form -/

/-- for every column index, the names that occur up to that column form a prefix of the name list -/
def PrefixCompat (cols : List ColFn) (K : List MdEntry) : Prop :=
  ∀ pre g post, cols = pre ++ g :: post → ∃ P S, K = P ++ S ∧
    (∀ k ∈ P, ∃ g' ∈ pre ++ [g], (g' k).isSome = true) ∧ (∀ k ∈ S, ∀ g' ∈ pre ++ [g], g' k = none)

theorem prefixCompat_tail (cols : List ColFn) (a : MdEntry) (K : List MdEntry) (h : PrefixCompat cols (a :: K)) :
    (∀ b ∈ K, Before cols a b) ∧ PrefixCompat cols K := by
  constructor
  · intro b hb pre g post hsplit hgb
    obtain ⟨P, S, hK, hP, hS⟩ := h pre g post hsplit
    cases P with
    | nil =>
      -- everything is in S, also b: contradiction with g b present
      have : b ∈ S := by rw [List.nil_append] at hK; rw [← hK]; simp [hb]
      have := hS b this g (by simp)
      rw [this] at hgb; simp at hgb
    | cons p P' =>
      have hpa : p = a := by
        have := congrArg List.head? hK; simpa using this.symm
      exact hP a (by rw [← hpa]; simp)
  · intro pre g post hsplit
    obtain ⟨P, S, hK, hP, hS⟩ := h pre g post hsplit
    cases P with
    | nil =>
      rw [List.nil_append] at hK
      exact ⟨[], K, rfl, by simp, fun k hk => hS k (by rw [← hK]; simp [hk])⟩
    | cons p P' =>
      have hKt : K = P' ++ S := by
        have := congrArg List.tail hK; simpa using this
      exact ⟨P', S, hKt, fun k hk => hP k (by simp [hk]), hS⟩

theorem pairwise_before_of_prefixCompat (cols : List ColFn) (K : List MdEntry) (h : PrefixCompat cols K) :
    K.Pairwise (Before cols) := by
  induction K with
  | nil => exact List.Pairwise.nil
  | cons a K ih =>
    obtain ⟨h1, h2⟩ := prefixCompat_tail cols a K h
    exact List.Pairwise.cons h1 (ih h2)

/-! ### facts about `firstAppearance` -/

theorem fa_append (xs ys : List MdEntry) : ∀ seen, firstAppearance seen (xs ++ ys) =
    firstAppearance seen xs ++ firstAppearance (xs.reverse ++ seen) ys := by
  induction xs with
  | nil => intro seen; simp [firstAppearance]
  | cons x xs ih =>
    intro seen
    simp only [List.cons_append, fa_cons, List.reverse_cons, List.append_assoc, List.singleton_append]
    rw [ih (x :: seen)]
    split <;> simp

theorem fa_subset (es : List MdEntry) : ∀ seen, ∀ e ∈ firstAppearance seen es, e ∈ es := by
  induction es with
  | nil => intro seen e he; simp [firstAppearance] at he
  | cons x xs ih =>
    intro seen e he
    rw [fa_cons] at he
    split at he
    · exact List.mem_cons_of_mem _ (ih _ e he)
    · simp only [List.mem_cons] at he ⊢
      rcases he with h | h
      · exact .inl h
      · exact .inr (ih _ e h)

theorem fa_unseen (es : List MdEntry) : ∀ seen, ∀ e ∈ firstAppearance seen es,
    seen.any (fun s => sameName s e) = false := by
  induction es with
  | nil => intro seen e he; simp [firstAppearance] at he
  | cons x xs ih =>
    intro seen e he
    rw [fa_cons] at he
    split at he
    · have := ih (x :: seen) e he
      simp only [List.any_cons, Bool.or_eq_false_iff] at this
      exact this.2
    · rename_i hx
      simp only [List.mem_cons] at he
      rcases he with h | h
      · subst h; simpa using hx
      · have := ih (x :: seen) e h
        simp only [List.any_cons, Bool.or_eq_false_iff] at this
        exact this.2

end Sbdf
