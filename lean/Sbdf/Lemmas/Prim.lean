/-
  Lemmas about Sbdf.Prim: little-endian numbers, int32, 7-bit groups.
-/
import Sbdf.Prim
import Sbdf.Lemmas.P
namespace Sbdf

/-! ### little-endian numbers -/

@[simp] theorem natLE_length (w n : Nat) : (natLE w n).length = w := by
  induction w generalizing n with
  | zero => rfl
  | succ w ih => simp [natLE, ih]

theorem leNat_natLE (w n : Nat) (h : n < 256 ^ w) : leNat (natLE w n) = n := by
  induction w generalizing n with
  | zero => simp at h; simp [natLE, leNat, h]
  | succ w ih =>
    simp only [natLE, leNat, UInt8.toNat_ofNat']
    have h2 : n / 256 < 256 ^ w := by
      rw [Nat.pow_succ] at h
      exact Nat.div_lt_of_lt_mul (by rw [Nat.mul_comm]; exact h)
    rw [ih _ h2]
    omega

theorem leNat_lt (b : Bytes) : leNat b < 256 ^ b.length := by
  induction b with
  | nil => simp [leNat]
  | cons x xs ih =>
    simp only [leNat, List.length_cons, Nat.pow_succ]
    have := x.toNat_lt
    omega

theorem natLE_leNat (b : Bytes) : natLE b.length (leNat b) = b := by
  induction b with
  | nil => rfl
  | cons x xs ih =>
    simp only [List.length_cons, natLE, leNat]
    have hx := x.toNat_lt
    have h1 : (x.toNat + 256 * leNat xs) % 256 = x.toNat := by omega
    have h2 : (x.toNat + 256 * leNat xs) / 256 = leNat xs := by omega
    rw [h1, h2, ih]
    simp

theorem ofInt32_lt (v : Int) : ofInt32 v < 4294967296 := by
  unfold ofInt32; omega

theorem toInt32_ofInt32 (v : Int) (h : isInt32 v) : toInt32 (ofInt32 v) = v := by
  unfold isInt32 at h; unfold toInt32 ofInt32; split <;> omega

theorem ofInt32_toInt32 (n : Nat) (h : n < 4294967296) : ofInt32 (toInt32 n) = n := by
  unfold toInt32 ofInt32; split <;> omega

theorem toInt32_isInt32 (n : Nat) (h : n < 4294967296) : isInt32 (toInt32 n) := by
  unfold toInt32 isInt32; split <;> omega

@[simp] theorem swapElem_swapElem (c : Cfg) (b : Bytes) : swapElem c (swapElem c b) = b := by
  unfold swapElem; split <;> simp

@[simp] theorem swapElem_length (c : Cfg) (b : Bytes) : (swapElem c b).length = b.length := by
  unfold swapElem; split <;> simp

@[simp] theorem int32Bytes_length (c : Cfg) (v : Int) : (int32Bytes c v).length = 4 := by
  simp [int32Bytes]

/-- read one byte, continue -/
theorem Reads.readByte {f : Bytes → P β} {x : UInt8} {cs : Bytes} {b : β}
    (h : Reads (f [x]) cs b) : Reads (P.bind (Sbdf.readN 1) f) (x :: cs) b :=
  Reads.bind (Reads.readN' [x] rfl) h

/-- `sbdf_read_int32` reads back what `sbdf_write_int32` wrote, whatever follows -/
theorem reads_int32 (c : Cfg) (v : Int) (h : isInt32 v) : Reads (readInt32 c) (int32Bytes c v) v := by
  have e : toInt32 (leNat (swapElem c (int32Bytes c v))) = v := by
    simp only [int32Bytes, swapElem_swapElem]
    rw [leNat_natLE 4 _ (by have := ofInt32_lt v; omega)]
    exact toInt32_ofInt32 v h
  have h1 : Reads (readN 4) (int32Bytes c v) (int32Bytes c v) := Reads.readN' _ (by simp)
  have h2 := Reads.bind h1 (f := fun b => P.pure (toInt32 (leNat (swapElem c b)))) (Reads.pure _)
  simp only [List.append_nil, e] at h2
  exact h2

theorem reads_int8 (v : Nat) (h : v < 256) : Reads readInt8 [UInt8.ofNat v] v := by
  have e : leNat [UInt8.ofNat v] = v := by
    simp only [leNat, UInt8.toNat_ofNat']; omega
  have h2 := Reads.readByte (f := fun b => P.pure (leNat b)) (x := UInt8.ofNat v) (Reads.pure _)
  simp only [e] at h2
  exact h2

/-! ### 7-bit groups -/

theorem or_shift_eq_add (r x shl : Nat) (h : r < 2 ^ shl) : r ||| (x <<< shl) = r + x * 2 ^ shl := by
  rw [Nat.or_comm, ← Nat.shiftLeft_add_eq_or_of_lt h, Nat.shiftLeft_eq]; omega

theorem leNat_single (k : Nat) : leNat [UInt8.ofNat k] = k % 256 := by
  simp [leNat, UInt8.toNat_ofNat']

theorem mul_pow_succ7 (a shl : Nat) : a * 2 ^ (shl + 7) = 128 * a * 2 ^ shl := by
  rw [Nat.pow_add, Nat.mul_comm (2 ^ shl), ← Nat.mul_assoc, Nat.mul_comm a]

theorem add_lt_pow32 (val result shl : Nat) (hshl : shl ≤ 32) (hv : val * 2 ^ shl < 4294967296)
    (hr : result < 2 ^ shl) : result + val * 2 ^ shl < 4294967296 := by
  have h32 : (4294967296 : Nat) = 2 ^ (32 - shl) * 2 ^ shl := by
    rw [← Nat.pow_add, Nat.sub_add_cancel hshl]
  have hvlt : val < 2 ^ (32 - shl) := by
    apply Nat.lt_of_mul_lt_mul_right (a := 2 ^ shl); rw [← h32]; exact hv
  have h2 : (val + 1) * 2 ^ shl ≤ 2 ^ (32 - shl) * 2 ^ shl := Nat.mul_le_mul_right _ hvlt
  rw [Nat.add_mul] at h2; omega

theorem read7_write7_aux (f : Nat) : ∀ (shl val result : Nat), shl + 7 * (f + 1) = 35 →
    val * 2 ^ shl < 4294967296 → result < 2 ^ shl →
    Reads (read7Aux (f + 1) shl result) (write7Aux (f + 1) val) (toInt32 (result + val * 2 ^ shl)) := by
  induction f with
  | zero =>
    intro shl val result hs hv hr
    have hshl : shl = 28 := by omega
    subst hshl
    have hv16 : val < 16 := by omega
    have hnot : ¬ val > 127 := by omega
    simp only [write7Aux, hnot, if_false, read7Aux]
    apply Reads.readByte
    have hu : leNat [UInt8.ofNat val] = val := by rw [leNat_single]; omega
    simp only [hu]
    have h1 : ¬ val ≥ 128 := by omega
    have h2 : val % 128 = val := by omega
    have hg : ¬ (True ∧ val ≥ 16) := by omega
    simp only [h2, hg, h1, if_false, show (28 : Nat) < 32 by omega, if_true]
    rw [or_shift_eq_add _ _ _ hr]
    have : (result + val * 2 ^ 28) % 4294967296 = result + val * 2 ^ 28 := by omega
    rw [this]; exact Reads.pure _
  | succ f ih =>
    intro shl val result hs hv hr
    have hshl : shl < 32 := by omega
    have hpos : 0 < 2 ^ shl := Nat.two_pow_pos shl
    by_cases hbig : val > 127
    · have hw : write7Aux (f + 1 + 1) val =
          UInt8.ofNat (val % 128 + 128) :: write7Aux (f + 1) (val / 128) := by
        simp only [write7Aux, hbig, if_true]
      rw [hw]
      rw [show read7Aux (f + 1 + 1) shl result = P.bind (readN 1) _ from rfl]
      apply Reads.readByte
      have hu : leNat [UInt8.ofNat (val % 128 + 128)] = val % 128 + 128 := by rw [leNat_single]; omega
      have hg : ¬ (shl = 28 ∧ (val % 128 + 128) % 128 ≥ 16) := by omega
      simp only [hu, hg, if_false, hshl, if_true]
      have h1 : val % 128 + 128 ≥ 128 := by omega
      have h2 : (val % 128 + 128) % 128 = val % 128 := by omega
      have h3 : ¬ (f + 1 = 0) := by omega
      simp only [h1, if_true, h2, h3, if_false]
      rw [or_shift_eq_add _ _ _ hr]
      have hdm : 128 * (val / 128) + val % 128 = val := Nat.div_add_mod val 128
      have hsplit : val * 2 ^ shl = 128 * (val / 128) * 2 ^ shl + val % 128 * 2 ^ shl := by
        rw [← Nat.add_mul, hdm]
      have hm : val % 128 * 2 ^ shl ≤ 127 * 2 ^ shl := Nat.mul_le_mul_right _ (by omega)
      have hlt : result + val % 128 * 2 ^ shl < 2 ^ (shl + 7) := by
        rw [Nat.pow_add]; omega
      have hall := add_lt_pow32 val result shl (by omega) hv hr
      have hmod : (result + val % 128 * 2 ^ shl) % 4294967296 = result + val % 128 * 2 ^ shl := by
        apply Nat.mod_eq_of_lt; omega
      rw [hmod]
      have hv' : val / 128 * 2 ^ (shl + 7) < 4294967296 := by
        rw [mul_pow_succ7]; omega
      have := ih (shl + 7) (val / 128) (result + val % 128 * 2 ^ shl) (by omega) hv' hlt
      have hfin : result + val % 128 * 2 ^ shl + val / 128 * 2 ^ (shl + 7) = result + val * 2 ^ shl := by
        rw [mul_pow_succ7]; omega
      rw [hfin] at this; exact this
    · have hw : write7Aux (f + 1 + 1) val = [UInt8.ofNat val] := by
        simp only [write7Aux, hbig, if_false]
      rw [hw]
      rw [show read7Aux (f + 1 + 1) shl result = P.bind (readN 1) _ from rfl]
      apply Reads.readByte
      have hu : leNat [UInt8.ofNat val] = val := by rw [leNat_single]; omega
      have hg : ¬ (shl = 28 ∧ val % 128 ≥ 16) := by omega
      simp only [hu, hg, if_false, hshl, if_true]
      have h1 : ¬ val ≥ 128 := by omega
      have h2 : val % 128 = val := by omega
      simp only [h1, if_false, h2]
      rw [or_shift_eq_add _ _ _ hr]
      have : (result + val * 2 ^ shl) % 4294967296 = result + val * 2 ^ shl := by
        apply Nat.mod_eq_of_lt; exact add_lt_pow32 val result shl (by omega) hv hr
      rw [this]; exact Reads.pure _

/-- every 32-bit value written in 7-bit groups is read back unchanged, whatever follows -/
theorem reads_7bit (v : Int) (h : isInt32 v) : Reads read7 (bytes7 v) v := by
  unfold read7 bytes7
  have := read7_write7_aux 4 0 (ofInt32 v) 0 (by omega) (by have := ofInt32_lt v; omega) (by omega)
  simp only [Nat.pow_zero, Nat.mul_one, Nat.zero_add] at this
  rw [toInt32_ofInt32 v h] at this
  exact this

/-- the 7-bit encoding of a length occupies exactly `len7` bytes, between one and five -/
theorem bytes7_length' (v : Int) (h0 : 0 ≤ v) (h1 : v < 2147483648) :
    (bytes7 v).length = len7 v ∧ 1 ≤ len7 v ∧ len7 v ≤ 5 := by
  have e : ofInt32 v = v.toNat := by unfold ofInt32; omega
  unfold bytes7 len7
  rw [e]
  generalize hn : v.toNat = n
  have hv : v = (n : Int) := by omega
  subst hv
  simp only [write7Aux]
  refine ⟨?_, ?_, ?_⟩
  · repeat' split
    all_goals simp
    all_goals omega
  · repeat' split
    all_goals omega
  · repeat' split
    all_goals omega


end Sbdf
