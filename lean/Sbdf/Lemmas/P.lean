/-
  Generic facts about the reader monad: `Reads` (a reader consumes exactly the given bytes in any
  context and returns the given value) and `Stable` (success on a truncated stream implies the
  same success on the full stream).  Both are closed under `bind`, `if`, and counted loops.
-/
import Sbdf.Basic
namespace Sbdf

@[simp] theorem P.bind_def (p : P α) (f : α → P β) : (p >>= f) = P.bind p f := rfl
@[simp] theorem P.pure_def' (a : α) : (pure a : P α) = P.pure a := rfl
theorem P.seq_def (p : P Unit) (q : P β) : (do p; q) = P.bind p (fun _ => q) := rfl

theorem P.bind_eq_ok {p : P α} {f : α → P β} {d : Array UInt8} {pos : Nat} {r : β × Nat} :
    P.bind p f d pos = .ok r ↔ ∃ a p1, p d pos = .ok (a, p1) ∧ f a d p1 = .ok r := by
  simp only [P.bind]
  cases h : p d pos with
  | error e => simp
  | ok x =>
    obtain ⟨a, p1⟩ := x
    constructor
    · intro h'; exact ⟨a, p1, rfl, h'⟩
    · intro ⟨a', p1', h1, h2⟩; cases h1; exact h2

theorem P.pure_eq_ok {a : α} {d : Array UInt8} {pos : Nat} {r : α × Nat} :
    P.pure a d pos = .ok r ↔ r = (a, pos) := by
  simp [P.pure, eq_comm]

@[simp] theorem P.fail_ne_ok {s : Status} {d : Array UInt8} {pos : Nat} {r : α × Nat} :
    (P.fail s : P α) d pos = .ok r ↔ False := by simp [P.fail]

@[simp] theorem P.ub_ne_ok {w : String} {d : Array UInt8} {pos : Nat} {r : α × Nat} :
    (P.ub w : P α) d pos = .ok r ↔ False := by simp [P.ub]

/-- In any context (`pre ++ bs ++ rest`, positioned after `pre`) `p` returns `a` and ends exactly
    after `bs`. -/
def Reads (p : P α) (bs : Bytes) (a : α) : Prop :=
  ∀ pre rest : Bytes, p (pre ++ bs ++ rest).toArray pre.length = .ok (a, pre.length + bs.length)

theorem Reads.pure (a : α) : Reads (P.pure a) [] a := by
  intro pre rest; simp [P.pure]

theorem Reads.bind {p : P α} {f : α → P β} {bs cs : Bytes} {a : α} {b : β}
    (hp : Reads p bs a) (hf : Reads (f a) cs b) : Reads (P.bind p f) (bs ++ cs) b := by
  intro pre rest
  have h1 := hp pre (cs ++ rest)
  have h2 := hf (pre ++ bs) rest
  simp only [List.append_assoc, List.length_append] at h1 h2 ⊢
  simp only [P.bind, h1, h2, Nat.add_assoc]

theorem Reads.bind' {p : P α} {f : α → P β} {bs cs xs : Bytes} {a : α} {b : β}
    (hp : Reads p bs a) (hf : Reads (f a) cs b) (hx : xs = bs ++ cs) : Reads (P.bind p f) xs b := by
  subst hx; exact hp.bind hf

theorem extract_mid (pre bs rest : Bytes) :
    ((pre ++ bs ++ rest).toArray.extract pre.length (pre.length + bs.length)).toList = bs := by
  simp

theorem Reads.readN (bs : Bytes) : Reads (readN bs.length) bs bs := by
  intro pre rest
  unfold Sbdf.readN
  by_cases h0 : bs.length = 0
  · have : bs = [] := List.length_eq_zero_iff.mp h0
    subst this; simp
  · simp only [h0, if_false]
    have hle : pre.length + bs.length ≤ (pre ++ bs ++ rest).toArray.size := by simp
    simp only [hle, if_true, extract_mid]

theorem Reads.readN' {n : Nat} (bs : Bytes) (h : bs.length = n) : Reads (Sbdf.readN n) bs bs := by
  subst h; exact Reads.readN bs

/-- counted loop: `xs.length` iterations, each reading the encoding of one element -/
theorem Reads.many {p : P α} {enc : α → Bytes} (xs : List α)
    (h : ∀ x ∈ xs, Reads p (enc x) x) : Reads (readMany xs.length p) (xs.flatMap enc) xs := by
  induction xs with
  | nil => exact Reads.pure []
  | cons x xs ih =>
    simp only [List.length_cons, readMany, List.flatMap_cons, P.bind_def, P.pure_def']
    refine Reads.bind (h x (by simp)) ?_
    have := ih (fun y hy => h y (by simp [hy]))
    have h2 : Reads (P.bind (readMany xs.length p) fun as => P.pure (x :: as)) (xs.flatMap enc ++ []) (x :: xs) :=
      Reads.bind this (Reads.pure _)
    simpa using h2

/-! ### Stable -/

/-- success on a truncated stream implies the same success on the full stream -/
structure Stable (p : P α) : Prop where
  out : ∀ (d : Bytes) (L pos : Nat) (a : α) (pos' : Nat),
    p (d.take L).toArray pos = .ok (a, pos') → p d.toArray pos = .ok (a, pos')

theorem Stable.pure (a : α) : Stable (P.pure a) := by
  constructor; intro d L pos a' pos' h; simpa [P.pure] using h

theorem Stable.fail (s : Status) : Stable (P.fail s : P α) := by
  constructor; intro d L pos a' pos' h; simp [P.fail] at h

theorem Stable.ub (w : String) : Stable (P.ub w : P α) := by
  constructor; intro d L pos a' pos' h; simp [P.ub] at h

theorem Stable.bind {p : P α} {f : α → P β} (hp : Stable p) (hf : ∀ a, Stable (f a)) :
    Stable (P.bind p f) := by
  constructor
  intro d L pos b pos' h
  simp only [P.bind] at h ⊢
  cases hpe : p (d.take L).toArray pos with
  | error e => simp [hpe] at h
  | ok r =>
    obtain ⟨a, p1⟩ := r
    simp only [hpe] at h
    rw [hp.out d L pos a p1 hpe]
    exact (hf a).out d L p1 b pos' h

theorem Stable.readN (n : Nat) : Stable (Sbdf.readN n) := by
  constructor
  intro d L pos a pos' h
  unfold Sbdf.readN at h ⊢
  by_cases h0 : n = 0
  · simpa [h0] using h
  · simp only [h0, if_false] at h ⊢
    by_cases hle : pos + n ≤ (d.take L).toArray.size
    · simp only [hle, if_true] at h
      have hsz : (d.take L).toArray.size = min L d.length := by simp
      have hle2 : pos + n ≤ d.toArray.size := by simp; omega
      simp only [hle2, if_true]
      have hL : pos + n ≤ L := by omega
      have : ((d.take L).toArray.extract pos (pos + n)).toList = (d.toArray.extract pos (pos + n)).toList := by
        simp only [Array.toList_extract, List.extract_eq_take_drop]
        simp only [Nat.add_sub_cancel_left]
        rw [List.drop_take, List.take_take]
        congr 1
        omega
      rw [← this]; exact h
    · have hsz : (d.take L).toArray.size = min L d.length := by simp
      rw [hsz] at hle
      simp [hle] at h

theorem Stable.seek (dl : Int) : Stable (Sbdf.seek dl) := by
  constructor; intro d L pos a pos' h; simpa [Sbdf.seek] using h

theorem Stable.skipBytes (c : Cfg) (dl : Int) : Stable (Sbdf.skipBytes c dl) := by
  unfold Sbdf.skipBytes Sbdf.discard; split
  · exact Stable.bind (Stable.readN _) (fun _ => Stable.pure _)
  · exact Stable.seek _

theorem Stable.alloc (c : Cfg) (n : Int) : Stable (Sbdf.alloc c n) := by
  unfold Sbdf.alloc; split
  · exact Stable.fail _
  · exact Stable.pure _

theorem Stable.guardUB (b : Bool) (w : String) : Stable (Sbdf.guardUB b w) := by
  unfold Sbdf.guardUB; split
  · exact Stable.pure _
  · exact Stable.ub _

theorem Stable.ite {c : Prop} [Decidable c] {p q : P α} (hp : Stable p) (hq : Stable q) :
    Stable (if c then p else q) := by
  split <;> assumption

theorem Stable.readMany {p : P α} (hp : Stable p) (n : Nat) : Stable (readMany n p) := by
  induction n with
  | zero => exact Stable.pure _
  | succ n ih =>
    simp only [Sbdf.readMany, P.bind_def, P.pure_def']
    exact Stable.bind hp (fun a => Stable.bind ih (fun as => Stable.pure _))

theorem Stable.skipMany {p : P Unit} (hp : Stable p) (n : Nat) : Stable (skipMany n p) := by
  induction n with
  | zero => exact Stable.pure _
  | succ n ih =>
    simp only [Sbdf.skipMany, P.bind_def]
    exact Stable.bind hp (fun _ => ih)

end Sbdf
