/-
  The folding of column metadata as `sbdf_tm_write` actually computes it — collect every entry of
  every column with its running index, `qsort` by (name, index), walk the sorted array comparing
  neighbours of equal name and keeping the first of each group, `qsort` the kept ones back by
  index — against the model's `foldCols` (walk in order, compare with the previous occurrence of the
  name, keep first appearances).  `qsort` is not modelled as an algorithm: the array after a sort
  is ANY arrangement of the same items that the comparator accepts as sorted (the comparators are
  strict total orders on the items, so there is exactly one).
-/
import Sbdf.Lemmas.Canon
namespace Sbdf.SortFold

/-- `struct metadata_sort` -/
structure Item where
  e : MdEntry
  ord : Nat
  deriving DecidableEq

/-- what `strcmp` sees of a name -/
def key (x : Item) : List UInt8 := cstr x.e.name

/-- `compare_metadata_sort_by_name(a, b) < 0`: `strcmp` on the names, then the index -/
def lt (a b : Item) : Prop := key a < key b ∨ (key a = key b ∧ a.ord < b.ord)

/-- `compare_metadata_sort_by_order(a, b) < 0` -/
def ltOrd (a b : Item) : Prop := a.ord < b.ord

/-- the collecting loop: entries in (column, insertion) order with `order = array_size` -/
def index : Nat → List MdEntry → List Item
  | _, [] => []
  | k, e :: es => ⟨e, k⟩ :: index (k + 1) es

/-- the two tests of the folding loop on neighbours of equal name -/
def mismatch (a b : MdEntry) : Bool := entryTid a ≠ entryTid b || !objEqOpt a.dflt b.dflt

/-- the folding loop over the sorted array (`prev` is `array[i - 1]`) -/
def scan : Option Item → List Item → List Item → Except Status (List Item)
  | _, [], kept => .ok kept.reverse
  | none, x :: xs, kept => scan (some x) xs (x :: kept)
  | some p, x :: xs, kept =>
    if key p ≠ key x then scan (some x) xs (x :: kept)
    else if mismatch p.e x.e then .error .incorrectMd
    else scan (some x) xs kept

/-! ### closed form of the loop -/

def sameAsPrev : Option Item → Item → Bool
  | none, _ => false
  | some p, x => key p = key x

def hasBad : Option Item → List Item → Bool
  | _, [] => false
  | prev, x :: xs => (match prev with
      | some p => (decide (key p = key x) && mismatch p.e x.e)
      | none => false) || hasBad (some x) xs

def firsts : Option Item → List Item → List Item
  | _, [] => []
  | prev, x :: xs => (if sameAsPrev prev x then [] else [x]) ++ firsts (some x) xs

theorem scan_closed (prev : Option Item) (s kept : List Item) :
    scan prev s kept = if hasBad prev s then .error .incorrectMd else .ok (kept.reverse ++ firsts prev s) := by
  induction s generalizing prev kept with
  | nil => cases prev <;> simp [scan, hasBad, firsts]
  | cons x xs ih =>
    cases prev with
    | none =>
      simp only [scan, hasBad, firsts, sameAsPrev, Bool.false_or, ih]
      simp
    | some p =>
      simp only [scan, hasBad, firsts, sameAsPrev]
      by_cases hk : key p = key x
      · simp only [hk, ne_eq, not_true_eq_false, if_false, decide_true, Bool.true_and, if_true, List.nil_append]
        by_cases hm : mismatch p.e x.e = true
        · simp [hm]
        · simp only [hm, Bool.false_eq_true, if_false, Bool.false_or, ih]
      · simp only [ne_eq, hk, not_false_eq_true, if_true, decide_false, Bool.false_and, Bool.false_or, ih,
          Bool.false_eq_true, if_false]
        simp

/-! ### closed form of the model's fold, over items -/

def hasBadF : List Item → List Item → Bool
  | _, [] => false
  | L, x :: R => (match L.find? (fun l => key l = key x) with
      | some p => mismatch p.e x.e
      | none => false) || hasBadF (x :: L) R

def faI : List Item → List Item → List Item
  | _, [] => []
  | L, x :: R => (match L.find? (fun l => key l = key x) with
      | some _ => []
      | none => [x]) ++ faI (x :: L) R

theorem find_map (L : List Item) (x : Item) :
    (L.map (·.e)).find? (fun l => Md.nameEq l.name x.e.name) = (L.find? (fun l => key l = key x)).map (·.e) := by
  induction L with
  | nil => rfl
  | cons l L ih =>
    simp only [List.map_cons, List.find?_cons]
    have : Md.nameEq l.e.name x.e.name = decide (key l = key x) := by
      simp only [Md.nameEq, key]
      by_cases h : cstr l.e.name = cstr x.e.name <;> simp [h]
    rw [this]
    by_cases h : key l = key x
    · simp [h]
    · simp only [h, decide_false]; exact ih

theorem fold_closed (R kept L : List Item) :
    foldColsAux (R.map (·.e)) (kept.map (·.e)) (L.map (·.e)) =
      if hasBadF L R then .error .incorrectMd else .ok ((kept.reverse ++ faI L R).map (·.e)) := by
  induction R generalizing kept L with
  | nil => simp [foldColsAux, hasBadF, faI]
  | cons x R ih =>
    simp only [List.map_cons, foldColsAux, find_map, hasBadF, faI]
    have hc : L.find? (fun l => key l = key x) = none ∨ ∃ p, L.find? (fun l => key l = key x) = some p := by
      cases L.find? (fun l => key l = key x) <;> simp
    rcases hc with hf | ⟨p, hf⟩
    · simp only [hf, Option.map_none, Bool.false_or]
      have := ih (x :: kept) (x :: L)
      simp only [List.map_cons] at this
      rw [this]
      simp
    · simp only [hf, Option.map_some, List.nil_append]
      by_cases hm : mismatch p.e x.e = true
      · have : entryTid p.e ≠ entryTid x.e ∨ objEqOpt p.e.dflt x.e.dflt = false := by
          simpa [mismatch] using hm
        rcases this with h1 | h2
        · simp [h1, hm]
        · by_cases h1 : entryTid p.e = entryTid x.e
          · simp [h1, h2, hm]
          · simp [h1, hm]
      · have h1 : entryTid p.e = entryTid x.e ∧ objEqOpt p.e.dflt x.e.dflt = true := by
          simpa [mismatch] using hm
        have := ih kept (x :: L)
        simp only [List.map_cons] at this
        simp only [h1.1, ne_eq, not_true_eq_false, if_false, h1.2, Bool.not_true, Bool.false_eq_true, this, hm,
          Bool.false_or]

/-! ### neighbours in the sorted array -/

/-- `a` stands right before `b` -/
def Adj (s : List Item) (a b : Item) : Prop := ∃ l r, s = l ++ a :: b :: r

theorem Adj.cons {s : List Item} {a b : Item} (x : Item) (h : Adj s a b) : Adj (x :: s) a b := by
  obtain ⟨l, r, rfl⟩ := h; exact ⟨x :: l, r, rfl⟩

theorem adj_cons_iff (x : Item) (s : List Item) (a b : Item) :
    Adj (x :: s) a b ↔ (x = a ∧ ∃ r, s = b :: r) ∨ Adj s a b := by
  constructor
  · rintro ⟨l, r, h⟩
    cases l with
    | nil => simp only [List.nil_append, List.cons.injEq] at h; exact .inl ⟨h.1, r, h.2⟩
    | cons y l => simp only [List.cons_append, List.cons.injEq] at h; exact .inr ⟨l, r, h.2⟩
  · rintro (⟨rfl, r, rfl⟩ | h)
    · exact ⟨[], r, rfl⟩
    · exact h.cons x

theorem hasBad_iff (prev : Option Item) (s : List Item) :
    hasBad prev s = true ↔
      (∃ p x r, prev = some p ∧ s = x :: r ∧ key p = key x ∧ mismatch p.e x.e = true) ∨
      ∃ a b, Adj s a b ∧ key a = key b ∧ mismatch a.e b.e = true := by
  induction s generalizing prev with
  | nil =>
    simp only [hasBad, Bool.false_eq_true, false_iff, not_or, not_exists]
    refine ⟨fun p x r h => by simp at h, fun a b h => ?_⟩
    obtain ⟨⟨l, r, hl⟩, _⟩ := h
    simp at hl
  | cons x xs ih =>
    simp only [hasBad, Bool.or_eq_true, ih]
    constructor
    · rintro (h | h | h)
      · cases prev with
        | none => simp at h
        | some p =>
          simp only [Bool.and_eq_true, decide_eq_true_eq] at h
          exact .inl ⟨p, x, xs, rfl, rfl, h.1, h.2⟩
      · obtain ⟨p, y, r, hp, hs, hk, hm⟩ := h
        cases hp
        exact .inr ⟨x, y, ⟨[], r, by simp [hs]⟩, hk, hm⟩
      · obtain ⟨a, b, hadj, hk, hm⟩ := h
        exact .inr ⟨a, b, hadj.cons x, hk, hm⟩
    · rintro (h | h)
      · obtain ⟨p, y, r, hp, hs, hk, hm⟩ := h
        cases hs
        subst hp
        left; simp [hk, hm]
      · obtain ⟨a, b, hadj, hk, hm⟩ := h
        rcases (adj_cons_iff x xs a b).mp hadj with ⟨rfl, r, hr⟩ | h'
        · right; left; exact ⟨x, b, r, rfl, hr, hk, hm⟩
        · right; right; exact ⟨a, b, h', hk, hm⟩

theorem mem_firsts_iff (prev : Option Item) (s : List Item) (b : Item) :
    b ∈ firsts prev s ↔ (∃ r, s = b :: r ∧ sameAsPrev prev b = false) ∨ ∃ a, Adj s a b ∧ key a ≠ key b := by
  induction s generalizing prev with
  | nil =>
    simp only [firsts, List.not_mem_nil, false_iff, not_or, not_exists]
    refine ⟨fun r h => by simp at h, fun a h => ?_⟩
    obtain ⟨⟨l, r, hl⟩, _⟩ := h
    simp at hl
  | cons x xs ih =>
    simp only [firsts, List.mem_append, ih]
    constructor
    · rintro (h | h | h)
      · by_cases hs : sameAsPrev prev x = true
        · simp [hs] at h
        · simp only [hs, Bool.false_eq_true, if_false, List.mem_singleton] at h
          subst h
          exact .inl ⟨xs, rfl, by simpa using hs⟩
      · obtain ⟨r, hr, hsp⟩ := h
        right
        refine ⟨x, ⟨[], r, by simp [hr]⟩, ?_⟩
        simpa [sameAsPrev] using hsp
      · obtain ⟨a, hadj, hk⟩ := h
        exact .inr ⟨a, hadj.cons x, hk⟩
    · rintro (h | h)
      · obtain ⟨r, hr, hsp⟩ := h
        cases hr
        left; simp [hsp]
      · obtain ⟨a, hadj, hk⟩ := h
        rcases (adj_cons_iff x xs a b).mp hadj with ⟨rfl, r, hr⟩ | h'
        · right; left; exact ⟨r, hr, by simpa [sameAsPrev] using hk⟩
        · right; right; exact ⟨a, h', hk⟩

/-! ### the comparator -/

theorem lt_same_key {a b : Item} (h : lt a b) (hk : key a = key b) : a.ord < b.ord := by
  rcases h with h | h
  · rw [hk] at h; exact absurd h (List.lt_irrefl _)
  · exact h.2

theorem lt_not_gt_key {a b : Item} (h : lt a b) : ¬ key b < key a := by
  rcases h with h | h
  · exact List.lt_asymm h
  · rw [h.1]; exact List.lt_irrefl _

/-- between two items of one name only items of that name can stand, with indexes in between -/
theorem sandwich {a c b : Item} (h1 : lt a c) (h2 : lt c b) (hk : key a = key b) :
    key c = key a ∧ a.ord < c.ord ∧ c.ord < b.ord := by
  have hkc : key c = key a := by
    rcases h1 with h1 | h1
    · rcases h2 with h2 | h2
      · rw [← hk] at h2; exact absurd h2 (List.lt_asymm h1)
      · rw [h2.1, ← hk] at h1; exact absurd h1 (List.lt_irrefl _)
    · exact h1.1.symm
  exact ⟨hkc, lt_same_key h1 hkc.symm, lt_same_key h2 (by rw [hkc, hk])⟩

/-! ### the sorted array against the items in their original order -/

/-- `b` is the next occurrence of `a`'s name after `a` (by index) -/
def Consec (items : List Item) (a b : Item) : Prop :=
  a ∈ items ∧ b ∈ items ∧ key a = key b ∧ a.ord < b.ord ∧
  ∀ c ∈ items, key c = key a → ¬ (a.ord < c.ord ∧ c.ord < b.ord)

/-- `b` is the first occurrence of its name -/
def First (items : List Item) (b : Item) : Prop :=
  b ∈ items ∧ ∀ a ∈ items, key a = key b → ¬ a.ord < b.ord

/-- the array after `qsort(..., compare_metadata_sort_by_name)`: the same items, in an order the
    comparator accepts; the items carry increasing indexes -/
structure Arr (items s : List Item) : Prop where
  perm : s.Perm items
  sorted : s.Pairwise lt
  inc : items.Pairwise ltOrd

theorem ord_inj {items : List Item} (h : items.Pairwise ltOrd) {a b : Item} (ha : a ∈ items) (hb : b ∈ items)
    (he : a.ord = b.ord) : a = b := by
  induction h with
  | nil => simp at ha
  | cons hx _ ih =>
    rename_i x xs
    simp only [List.mem_cons] at ha hb
    rcases ha with rfl | ha <;> rcases hb with rfl | hb
    · rfl
    · have := hx b hb; unfold ltOrd at this; omega
    · have := hx a ha; unfold ltOrd at this; omega
    · exact ih ha hb

theorem adj_consec {items s : List Item} (h : Arr items s) {a b : Item} (hadj : Adj s a b) (hk : key a = key b) :
    Consec items a b := by
  obtain ⟨l, r, rfl⟩ := hadj
  have hs := h.sorted
  rw [List.pairwise_append] at hs
  obtain ⟨_, hr, hlr⟩ := hs
  rw [List.pairwise_cons] at hr
  obtain ⟨ha, hr⟩ := hr
  rw [List.pairwise_cons] at hr
  obtain ⟨hb, _⟩ := hr
  have hab : lt a b := ha b (by simp)
  refine ⟨h.perm.subset (by simp), h.perm.subset (by simp), hk, lt_same_key hab hk, ?_⟩
  intro c hc hkc ⟨h1, h2⟩
  have hcs : c ∈ l ++ a :: b :: r := h.perm.symm.subset hc
  simp only [List.mem_append, List.mem_cons] at hcs
  rcases hcs with hcl | rfl | rfl | hcr
  · have := lt_same_key (hlr c hcl a (by simp)) hkc; omega
  · omega
  · omega
  · have := lt_same_key (hb c hcr) (by rw [← hk, hkc]); omega

theorem consec_adj {items s : List Item} (h : Arr items s) {a b : Item} (hc : Consec items a b) : Adj s a b := by
  obtain ⟨ha, hb, hk, hord, hno⟩ := hc
  have has : a ∈ s := h.perm.symm.subset ha
  obtain ⟨l, r', rfl⟩ := List.append_of_mem has
  have hs := h.sorted
  rw [List.pairwise_append] at hs
  obtain ⟨_, hr, hlr⟩ := hs
  rw [List.pairwise_cons] at hr
  obtain ⟨har, hr'⟩ := hr
  have hbs : b ∈ l ++ a :: r' := h.perm.symm.subset hb
  simp only [List.mem_append, List.mem_cons] at hbs
  rcases hbs with hbl | rfl | hbr
  · have := lt_same_key (hlr b hbl a (by simp)) hk.symm; omega
  · omega
  · obtain ⟨m, r, rfl⟩ := List.append_of_mem hbr
    cases m with
    | nil => exact ⟨l, r, rfl⟩
    | cons c m =>
      exfalso
      have h1 : lt a c := har c (by simp)
      rw [List.pairwise_append] at hr'
      have h2 : lt c b := hr'.2.2 c (by simp) b (by simp)
      obtain ⟨hkc, o1, o2⟩ := sandwich h1 h2 hk
      exact hno c (h.perm.subset (by simp)) hkc ⟨o1, o2⟩

theorem first_iff {items s : List Item} (h : Arr items s) {b : Item} (hb : b ∈ s) :
    First items b ↔ (∃ r, s = b :: r) ∨ ∃ a, Adj s a b ∧ key a ≠ key b := by
  constructor
  · intro ⟨_, hf⟩
    obtain ⟨l, r, rfl⟩ := List.append_of_mem hb
    rcases List.eq_nil_or_concat l with rfl | ⟨l', a, rfl⟩
    · exact .inl ⟨r, rfl⟩
    · right
      refine ⟨a, ⟨l', r, by simp⟩, fun hk => ?_⟩
      have hs := h.sorted
      rw [List.pairwise_append] at hs
      have hab : lt a b := hs.2.2 a (by simp) b (by simp)
      exact hf a (h.perm.subset (by simp)) hk (lt_same_key hab hk)
  · intro hh
    refine ⟨h.perm.subset hb, ?_⟩
    intro c hc hkc hlt
    have hcs : c ∈ s := h.perm.symm.subset hc
    rcases hh with ⟨r, rfl⟩ | ⟨a, ⟨l, r, rfl⟩, hka⟩
    · have hs := h.sorted
      rw [List.pairwise_cons] at hs
      simp only [List.mem_cons] at hcs
      rcases hcs with rfl | hcr
      · omega
      · have := lt_same_key (hs.1 c hcr) hkc.symm; omega
    · have hs := h.sorted
      rw [List.pairwise_append] at hs
      obtain ⟨_, hr, hlr⟩ := hs
      rw [List.pairwise_cons] at hr
      obtain ⟨har, hr⟩ := hr
      rw [List.pairwise_cons] at hr
      have hab : lt a b := har b (by simp)
      simp only [List.mem_append, List.mem_cons] at hcs
      rcases hcs with hcl | rfl | rfl | hcr
      · -- c before a, a before b, c and b of one name: a has that name too
        have hca : lt c a := hlr c hcl a (by simp)
        exact hka ((sandwich hca hab hkc).1.trans hkc)
      · exact hka hkc
      · omega
      · have := lt_same_key (hr.1 c hcr) hkc.symm; omega

/-! ### the model's walk against the same notions -/

theorem split_facts {P R : List Item} {x : Item} (h : (P ++ x :: R).Pairwise ltOrd) :
    (∀ q ∈ P, q.ord < x.ord) ∧ (∀ q ∈ R, x.ord < q.ord) ∧
    (∀ c ∈ P ++ x :: R, c.ord < x.ord → c ∈ P) := by
  rw [List.pairwise_append] at h
  obtain ⟨_, hr, hlr⟩ := h
  rw [List.pairwise_cons] at hr
  refine ⟨fun q hq => hlr q hq x (by simp), fun q hq => hr.1 q hq, ?_⟩
  intro c hc hlt
  simp only [List.mem_append, List.mem_cons] at hc
  rcases hc with hc | rfl | hc
  · exact hc
  · omega
  · have := hr.1 c hc; unfold ltOrd at this; omega

/-- the most recent earlier occurrence of a name: what `last.find?` returns -/
theorem find_rev {P : List Item} (hP : P.Pairwise ltOrd) {x p : Item}
    (h : P.reverse.find? (fun l => key l = key x) = some p) :
    p ∈ P ∧ key p = key x ∧ ∀ q ∈ P, key q = key x → q.ord ≤ p.ord := by
  rw [List.find?_eq_some_iff_append] at h
  obtain ⟨hk, as, bs, hrev, hno⟩ := h
  have hk' : key p = key x := by simpa using hk
  have hPe : P = bs.reverse ++ p :: as.reverse := by
    have := congrArg List.reverse hrev
    simpa using this
  refine ⟨by rw [hPe]; simp, hk', ?_⟩
  intro q hq hkq
  rw [hPe] at hq hP
  simp only [List.mem_append, List.mem_cons, List.mem_reverse] at hq
  rw [List.pairwise_append] at hP
  rcases hq with hq | rfl | hq
  · have := hP.2.2 q (by simpa using hq) p (by simp); unfold ltOrd at this; omega
  · omega
  · have := hno q hq; simp [hkq] at this

theorem hasBadF_iff (P R : List Item) (hinc : (P ++ R).Pairwise ltOrd) :
    hasBadF P.reverse R = true ↔ ∃ a b, b ∈ R ∧ Consec (P ++ R) a b ∧ mismatch a.e b.e = true := by
  induction R generalizing P with
  | nil => simp [hasBadF]
  | cons x R ih =>
    obtain ⟨hPx, hRx, hsplit⟩ := split_facts hinc
    have hP : P.Pairwise ltOrd := (List.pairwise_append.mp hinc).1
    have e1 : x :: P.reverse = (P ++ [x]).reverse := by simp
    have e2 : P ++ x :: R = (P ++ [x]) ++ R := by simp
    have ih' := ih (P ++ [x]) (by rw [← e2]; exact hinc)
    rw [← e2, ← e1] at ih'
    simp only [hasBadF, Bool.or_eq_true, ih']
    constructor
    · rintro (h | ⟨a, b, hb, hc, hm⟩)
      · cases hf : P.reverse.find? (fun l => key l = key x) with
        | none => simp [hf] at h
        | some p =>
          simp only [hf] at h
          obtain ⟨hpP, hkp, hmax⟩ := find_rev hP hf
          refine ⟨p, x, by simp, ⟨by simp [hpP], by simp, hkp, hPx p hpP, ?_⟩, h⟩
          intro c hc hkc ⟨h1, h2⟩
          have := hmax c (hsplit c hc h2) (hkc.trans hkp)
          omega
      · exact ⟨a, b, by simp [hb], hc, hm⟩
    · rintro ⟨a, b, hb, hc, hm⟩
      simp only [List.mem_cons] at hb
      rcases hb with rfl | hb
      · left
        obtain ⟨ha, _, hk, hord, hno⟩ := hc
        have haP : a ∈ P := hsplit a ha hord
        cases hf : P.reverse.find? (fun l => key l = key b) with
        | none =>
          rw [List.find?_eq_none] at hf
          exact absurd (by simpa using hk) (hf a (by simpa using haP))
        | some p =>
          obtain ⟨hpP, hkp, hmax⟩ := find_rev hP hf
          have h1 := hmax a haP hk
          have hpa : p = a := by
            apply ord_inj hinc (by simp [hpP]) ha
            by_cases hlt : a.ord < p.ord
            · exact absurd ⟨hlt, hPx p hpP⟩ (hno p (by simp [hpP]) (hkp.trans hk.symm))
            · omega
          subst hpa
          simpa using hm
      · exact .inr ⟨a, b, hb, hc, hm⟩

theorem mem_faI_iff (P R : List Item) (hinc : (P ++ R).Pairwise ltOrd) (b : Item) :
    b ∈ faI P.reverse R ↔ b ∈ R ∧ First (P ++ R) b := by
  induction R generalizing P with
  | nil => simp [faI]
  | cons x R ih =>
    obtain ⟨hPx, hRx, hsplit⟩ := split_facts hinc
    have e1 : x :: P.reverse = (P ++ [x]).reverse := by simp
    have e2 : P ++ x :: R = (P ++ [x]) ++ R := by simp
    have ih' := ih (P ++ [x]) (by rw [← e2]; exact hinc)
    rw [← e2, ← e1] at ih'
    simp only [faI, List.mem_append, ih', List.mem_cons]
    constructor
    · rintro (h | h)
      · cases hf : P.reverse.find? (fun l => key l = key x) with
        | some p => simp [hf] at h
        | none =>
          simp only [hf, List.mem_singleton] at h
          subst h
          rw [List.find?_eq_none] at hf
          refine ⟨.inl rfl, by simp, ?_⟩
          intro a ha hk hlt
          exact hf a (by simpa using hsplit a ha hlt) (by simpa using hk)
      · exact ⟨.inr h.1, h.2⟩
    · rintro ⟨rfl | hb, hF⟩
      · left
        cases hf : P.reverse.find? (fun l => key l = key b) with
        | none => simp
        | some p =>
          exfalso
          have hp := List.find?_some hf
          have hpm := List.mem_of_find?_eq_some hf
          have hpP : p ∈ P := by simpa using hpm
          exact hF.2 p (by simp [hpP]) (by simpa using hp) (hPx p hpP)
      · exact .inr ⟨hb, hF⟩

theorem faI_sublist (L R : List Item) : (faI L R).Sublist R := by
  induction R generalizing L with
  | nil => simp [faI]
  | cons x R ih =>
    simp only [faI]
    cases L.find? (fun l => key l = key x) with
    | none => simpa using (ih (x :: L)).cons_cons x
    | some p => simpa using (ih (x :: L)).cons x

/-! ### the refinement -/

theorem index_map (k : Nat) (all : List MdEntry) : (index k all).map (·.e) = all := by
  induction all generalizing k with
  | nil => rfl
  | cons e es ih => simp [index, ih]

theorem index_ord_ge (k : Nat) (all : List MdEntry) : ∀ x ∈ index k all, k ≤ x.ord := by
  induction all generalizing k with
  | nil => simp [index]
  | cons e es ih =>
    intro x hx
    simp only [index, List.mem_cons] at hx
    rcases hx with rfl | hx
    · exact Nat.le_refl _
    · have := ih (k + 1) x hx; omega

theorem index_inc (k : Nat) (all : List MdEntry) : (index k all).Pairwise ltOrd := by
  induction all generalizing k with
  | nil => simp [index]
  | cons e es ih =>
    simp only [index, List.pairwise_cons]
    refine ⟨fun x hx => ?_, ih (k + 1)⟩
    have := index_ord_ge (k + 1) es x hx
    unfold ltOrd; simp only; omega

theorem nodup_of_inc {l : List Item} (h : l.Pairwise ltOrd) : l.Nodup :=
  h.imp (fun {a b} hab e => by subst e; unfold ltOrd at hab; omega)

theorem firsts_sublist (prev : Option Item) (s : List Item) : (firsts prev s).Sublist s := by
  induction s generalizing prev with
  | nil => simp [firsts]
  | cons x xs ih =>
    simp only [firsts]
    split
    · simpa using (ih (some x)).cons x
    · simpa using (ih (some x)).cons_cons x

/-- what the C code computes — collect, sort by (name, index), fold neighbours, sort back by index —
    is what the model's `foldCols` computes, for ANY arrangement the two `qsort` calls may return
    that their comparators accept as sorted: the same error, or the same list of kept entries. -/
theorem tm_write_fold_refines (all : List MdEntry) (s : List Item) (h : Arr (index 0 all) s) :
    match scan none s [] with
    | .error st => foldCols all = .error st
    | .ok kept => ∀ t : List Item, t.Perm kept → t.Pairwise ltOrd → foldCols all = .ok (t.map (·.e)) := by
  have hinc := h.inc
  have hfold : foldCols all = if hasBadF [] (index 0 all) then .error .incorrectMd
      else .ok ((faI [] (index 0 all)).map (·.e)) := by
    have := fold_closed (index 0 all) [] []
    simpa [index_map, foldCols] using this
  have hbad : hasBad none s = hasBadF [] (index 0 all) := by
    rw [Bool.eq_iff_iff, hasBad_iff, show ([] : List Item) = ([] : List Item).reverse from rfl,
      hasBadF_iff [] (index 0 all) (by simpa using hinc)]
    simp only [List.nil_append]
    constructor
    · rintro (⟨p, x, r, hp, _⟩ | ⟨a, b, hadj, hk, hm⟩)
      · cases hp
      · have hc := adj_consec h hadj hk
        exact ⟨a, b, hc.2.1, hc, hm⟩
    · rintro ⟨a, b, _, hc, hm⟩
      exact .inr ⟨a, b, consec_adj h hc, hc.2.2.1, hm⟩
  rw [scan_closed, hbad]
  by_cases hb : hasBadF [] (index 0 all) = true
  · simp only [hb, if_true]; rw [hfold]; simp [hb]
  · simp only [hb, Bool.false_eq_true, if_false, List.reverse_nil, List.nil_append]
    intro t ht hts
    rw [hfold]
    simp only [hb, Bool.false_eq_true, if_false]
    congr 2
    have hsn : s.Nodup := h.perm.symm.nodup (nodup_of_inc hinc)
    have hfn : (firsts none s).Nodup := (firsts_sublist none s).nodup hsn
    have hfa_sub := faI_sublist [] (index 0 all)
    have hfan : (faI [] (index 0 all)).Nodup := hfa_sub.nodup (nodup_of_inc hinc)
    have hmem : ∀ b, b ∈ firsts none s ↔ b ∈ faI [] (index 0 all) := by
      intro b
      have hm2 := mem_faI_iff [] (index 0 all) (by simpa using hinc) b
      simp only [List.reverse_nil, List.nil_append] at hm2
      rw [hm2]
      constructor
      · intro hbf
        have hbs : b ∈ s := (firsts_sublist none s).subset hbf
        refine ⟨h.perm.subset hbs, (first_iff h hbs).mpr ?_⟩
        rcases (mem_firsts_iff none s b).mp hbf with ⟨r, hr, _⟩ | hadj
        · exact .inl ⟨r, hr⟩
        · exact .inr hadj
      · intro ⟨hbi, hF⟩
        have hbs : b ∈ s := h.perm.symm.subset hbi
        rw [mem_firsts_iff]
        rcases (first_iff h hbs).mp hF with ⟨r, hr⟩ | hadj
        · exact .inl ⟨r, hr, rfl⟩
        · exact .inr hadj
    have hperm : t.Perm (faI [] (index 0 all)) :=
      ht.trans ((List.perm_ext_iff_of_nodup hfn hfan).mpr hmem)
    exact (List.Perm.eq_of_pairwise (le := ltOrd)
      (fun a b _ _ h1 h2 => by unfold ltOrd at h1 h2; omega) hts (List.Pairwise.sublist hfa_sub hinc) hperm).symm

/-! ### such an arrangement exists (so the theorem is not vacuous), e.g. the one a merge sort returns -/

def leB (a b : Item) : Bool :=
  decide (key a < key b) || (decide (key a = key b) && decide (a.ord ≤ b.ord))

theorem leB_iff (a b : Item) : leB a b = true ↔ key a < key b ∨ (key a = key b ∧ a.ord ≤ b.ord) := by
  simp [leB]

theorem leB_trans (a b c : Item) (h1 : leB a b = true) (h2 : leB b c = true) : leB a c = true := by
  rw [leB_iff] at *
  rcases h1 with h1 | ⟨h1, o1⟩ <;> rcases h2 with h2 | ⟨h2, o2⟩
  · exact .inl (List.lt_trans h1 h2)
  · exact .inl (h2 ▸ h1)
  · exact .inl (h1 ▸ h2)
  · exact .inr ⟨h1.trans h2, by omega⟩

theorem leB_total (a b : Item) : (leB a b || leB b a) = true := by
  rw [Bool.or_eq_true, leB_iff, leB_iff]
  by_cases h1 : key a < key b
  · exact .inl (.inl h1)
  · by_cases h2 : key b < key a
    · exact .inr (.inl h2)
    · have : key a = key b := List.le_antisymm h2 h1
      by_cases ho : a.ord ≤ b.ord
      · exact .inl (.inr ⟨this, ho⟩)
      · exact .inr (.inr ⟨this.symm, by omega⟩)

theorem arr_exists (all : List MdEntry) : ∃ s, Arr (index 0 all) s := by
  refine ⟨(index 0 all).mergeSort leB, List.mergeSort_perm _ _, ?_, index_inc 0 all⟩
  have hp := List.pairwise_mergeSort leB_trans leB_total (index 0 all)
  have hn : ((index 0 all).mergeSort leB).Nodup := (List.mergeSort_perm _ _).symm.nodup (nodup_of_inc (index_inc 0 all))
  have hmem : ∀ x ∈ (index 0 all).mergeSort leB, x ∈ index 0 all := fun x hx => (List.mergeSort_perm _ _).subset hx
  -- `le` on distinct items of the array is `lt`
  have := hp.and hn
  refine this.imp_of_mem ?_
  intro a b ha hb ⟨hle, hne⟩
  rw [leB_iff] at hle
  rcases hle with h | ⟨hk, ho⟩
  · exact .inl h
  · refine .inr ⟨hk, ?_⟩
    have : a.ord ≠ b.ord := fun e => hne (ord_inj (index_inc 0 all) (hmem a ha) (hmem b hb) e)
    omega

end Sbdf.SortFold
