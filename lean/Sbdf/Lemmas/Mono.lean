/-
  `Mono p`: a successful call never leaves the stream before the offset it started at.  After the
  repair of F20 (negative skip distances and negative bit-array row counts are refused) this holds
  for every reader and skipper, and since a successful section read consumes its three marker
  bytes, the caller's loop over slices makes progress on every OK and therefore ends:
  `readSlices_terminates`.
-/
import Sbdf.Lemmas.P
import Sbdf.Slice
namespace Sbdf

structure Mono (p : P α) : Prop where
  out : ∀ (d : Array UInt8) (pos : Nat) (a : α) (pos' : Nat), p d pos = .ok (a, pos') → pos ≤ pos'

theorem Mono.pure (a : α) : Mono (P.pure a) := ⟨by
  intro d pos a' pos' h; simp only [P.pure, Except.ok.injEq, Prod.mk.injEq] at h; omega⟩
theorem Mono.fail (s : Status) : Mono (P.fail s : P α) := ⟨by intro d pos a pos' h; simp [P.fail] at h⟩
theorem Mono.ub (w : String) : Mono (P.ub w : P α) := ⟨by intro d pos a pos' h; simp [P.ub] at h⟩

theorem Mono.bind {p : P α} {f : α → P β} (hp : Mono p) (hf : ∀ a, Mono (f a)) : Mono (P.bind p f) := by
  constructor
  intro d pos b pos' h
  obtain ⟨a, p1, h1, h2⟩ := P.bind_eq_ok.mp h
  have := hp.out d pos a p1 h1
  have := (hf a).out d p1 b pos' h2
  omega

theorem Mono.readN (n : Nat) : Mono (Sbdf.readN n) := by
  constructor
  intro d pos a pos' h
  unfold Sbdf.readN at h
  split at h
  · simp only [Except.ok.injEq, Prod.mk.injEq] at h; omega
  · split at h
    · simp only [Except.ok.injEq, Prod.mk.injEq] at h; omega
    · simp at h

theorem Mono.seek {n : Int} (h : 0 ≤ n) : Mono (Sbdf.seek n) := by
  constructor
  intro d pos a pos' he
  unfold Sbdf.seek at he
  split at he
  · simp only [Except.ok.injEq, Prod.mk.injEq] at he; omega
  · simp at he

theorem Mono.skipBytes (c : Cfg) {n : Int} (h : 0 ≤ n) : Mono (Sbdf.skipBytes c n) := by
  unfold Sbdf.skipBytes Sbdf.discard; split
  · exact Mono.bind (Mono.readN _) (fun _ => Mono.pure _)
  · exact Mono.seek h

theorem Mono.seekGuard (c : Cfg) (n : Int) (s : Status) : Mono (if n < 0 then (P.fail s : P Unit) else Sbdf.skipBytes c n) := by
  split
  · exact Mono.fail _
  · exact Mono.skipBytes c (by omega)

theorem Mono.alloc (c : Cfg) (n : Int) : Mono (Sbdf.alloc c n) := by
  unfold Sbdf.alloc; split
  · exact Mono.fail _
  · exact Mono.pure _

theorem Mono.guardUB (b : Bool) (w : String) : Mono (Sbdf.guardUB b w) := by
  unfold Sbdf.guardUB; split
  · exact Mono.pure _
  · exact Mono.ub _

theorem Mono.ite {c : Prop} [Decidable c] {p q : P α} (hp : c → Mono p) (hq : ¬ c → Mono q) :
    Mono (if c then p else q) := by
  split
  · rename_i h; exact hp h
  · rename_i h; exact hq h

theorem Mono.readMany {p : P α} (hp : Mono p) (n : Nat) : Mono (readMany n p) := by
  induction n with
  | zero => exact Mono.pure _
  | succ n ih =>
    simp only [Sbdf.readMany, P.bind_def, P.pure_def']
    exact Mono.bind hp (fun a => Mono.bind ih (fun as => Mono.pure _))

theorem Mono.skipMany {p : P Unit} (hp : Mono p) (n : Nat) : Mono (skipMany n p) := by
  induction n with
  | zero => exact Mono.pure _
  | succ n ih =>
    simp only [Sbdf.skipMany, P.bind_def]
    exact Mono.bind hp (fun _ => ih)

macro "mono_tac" "[" ls:Lean.Parser.Tactic.SolveByElim.arg,* "]" : tactic =>
  `(tactic| (repeat' (first
      | exact Mono.pure _ | exact Mono.fail _ | exact Mono.ub _ | exact Mono.readN _
      | exact Mono.alloc _ _ | exact Mono.guardUB _ _ | exact Mono.seekGuard _ _
      | solve_by_elim (maxDepth := 3) only [$ls,*]
      | refine Mono.bind ?_ (fun _ => ?_)
      | refine Mono.readMany ?_ _
      | refine Mono.skipMany ?_ _
      | (dsimp only)
      | split)))

theorem mono_readInt32 (c : Cfg) : Mono (readInt32 c) := by
  unfold readInt32; simp only [P.bind_def]; mono_tac []
theorem mono_readInt8 : Mono readInt8 := by
  unfold readInt8; simp only [P.bind_def]; mono_tac []

theorem mono_read7Aux (f shl r : Nat) : Mono (read7Aux f shl r) := by
  induction f generalizing shl r with
  | zero => exact Mono.fail _
  | succ f ih =>
    unfold read7Aux
    refine Mono.bind (Mono.readN _) (fun b => ?_)
    dsimp only
    by_cases hg : shl = 28 ∧ leNat b % 128 ≥ 16
    · rw [if_pos hg]; exact Mono.fail _
    · rw [if_neg hg]
      by_cases hshl : shl < 32
      · rw [if_pos hshl]
        by_cases h128 : leNat b ≥ 128
        · rw [if_pos h128]
          by_cases hf : f = 0
          · rw [if_pos hf]; exact Mono.fail _
          · rw [if_neg hf]; exact ih _ _
        · rw [if_neg h128]; exact Mono.pure _
      · rw [if_neg hshl]; exact Mono.ub _

theorem mono_read7 : Mono read7 := mono_read7Aux 5 0 0

theorem mono_allocStr (c : Cfg) (l : Int) : Mono (allocStr c l) := by unfold allocStr; mono_tac []
theorem mono_allocBa (c : Cfg) (l : Int) : Mono (allocBa c l) := by unfold allocBa; mono_tac []
theorem mono_readString (c : Cfg) : Mono (readString c) := by
  unfold readString; simp only [P.bind_def]; mono_tac [mono_readInt32, mono_allocStr]
theorem mono_skipString (c : Cfg) : Mono (skipString c) := by
  unfold skipString; simp only [P.bind_def]
  exact Mono.bind (mono_readInt32 c) (fun l => Mono.seekGuard c l _)
theorem mono_secRead : Mono secRead := by
  unfold secRead; simp only [P.bind_def]; mono_tac [mono_readInt8]
theorem mono_secExpect (id : Nat) : Mono (secExpect id) := by
  unfold secExpect; simp only [P.bind_def]; mono_tac [mono_secRead]
theorem mono_readElem (c : Cfg) (s p : Bool) : Mono (readElem c s p) := by
  unfold readElem; simp only [P.bind_def]
  mono_tac [mono_read7, mono_readInt32, mono_allocStr, mono_allocBa]

theorem mono_readObjects (c : Cfg) (tid : Nat) (count : Int) (packed : Bool) : Mono (readObjects c tid count packed) := by
  unfold readObjects; simp only [P.bind_def]
  mono_tac [mono_readInt32, mono_readElem]
theorem mono_readObjArr (c : Cfg) (tid : Nat) : Mono (readObjArr c tid) := by
  unfold readObjArr; simp only [P.bind_def]; mono_tac [mono_readInt32, mono_readObjects]
theorem mono_readObj (c : Cfg) (tid : Nat) : Mono (readObj c tid) := mono_readObjects c tid 1 false

theorem mono_skipObjects (c : Cfg) (tid : Nat) (count : Int) (packed : Bool) : Mono (skipObjects c tid count packed) := by
  unfold skipObjects; simp only [P.bind_def]
  refine Mono.ite (fun _ => Mono.fail _) (fun hc => ?_)
  split
  · split
    · exact Mono.bind (mono_readInt32 c) (fun sk => Mono.seekGuard c sk _)
    · exact Mono.skipMany (Mono.bind (mono_readInt32 c) (fun sk => Mono.seekGuard c sk _)) _
  · split
    · exact Mono.fail _
    · rename_i sz _
      refine Mono.ite (fun _ => Mono.fail _) (fun _ => ?_)
      refine Mono.bind (Mono.guardUB _ _) (fun _ => Mono.skipBytes c ?_)
      exact Int.mul_nonneg (by omega) (by omega)
theorem mono_skipObjArr (c : Cfg) (tid : Nat) : Mono (skipObjArr c tid) := by
  unfold skipObjArr; simp only [P.bind_def]
  exact Mono.bind (mono_readInt32 c) (fun n => mono_skipObjects c tid n true)

theorem packedSize_nonneg (v : Int) (h : 0 ≤ v) : 0 ≤ packedSize v := by
  unfold packedSize
  rw [Int.tdiv_eq_ediv_of_nonneg h]
  split <;> omega

theorem mono_readVA (c : Cfg) : Mono (readVA c) := by
  unfold readVA; simp only [P.bind_def]
  mono_tac [mono_readInt8, mono_readInt32, mono_readObjArr, mono_allocBa]
theorem mono_skipVA (c : Cfg) : Mono (skipVA c) := by
  unfold skipVA; simp only [P.bind_def]
  refine Mono.bind mono_readInt8 (fun e => Mono.bind mono_readInt8 (fun vt => ?_))
  refine Mono.ite (fun _ => mono_skipObjArr c vt) (fun _ => Mono.ite (fun _ => ?_) (fun _ => Mono.ite (fun _ => ?_) (fun _ => Mono.fail _)))
  · exact Mono.bind (mono_readInt32 c) (fun _ => Mono.bind (mono_skipObjArr c 254) (fun _ => mono_skipObjArr c vt))
  · refine Mono.bind (mono_readInt32 c) (fun v => Mono.ite (fun _ => Mono.fail _) (fun hv => Mono.skipBytes c ?_))
    exact packedSize_nonneg v (by omega)

theorem mono_readCS (c : Cfg) : Mono (readCS c) := by
  unfold readCS readProp; simp only [P.bind_def]
  mono_tac [mono_secExpect, mono_readVA, mono_readInt32, mono_readString]
theorem mono_skipCS (c : Cfg) : Mono (skipCS c) := by
  unfold skipCS; simp only [P.bind_def]
  mono_tac [mono_secExpect, mono_skipVA, mono_readInt32, mono_skipString]

theorem mono_readCols (c : Cfg) (n : Nat) (sub : Option (List Bool)) (i : Nat) : Mono (readCols c n sub i) := by
  induction n generalizing i with
  | zero => exact Mono.pure _
  | succ n ih =>
    simp only [readCols, P.bind_def]
    refine Mono.bind ?_ (fun col => Mono.bind (ih (i + 1)) (fun _ => Mono.pure _))
    split
    · exact Mono.bind (mono_readCS c) (fun _ => Mono.pure _)
    · exact Mono.bind (mono_skipCS c) (fun _ => Mono.pure _)

/-- a successful section read consumes exactly the three marker bytes, which exist -/
theorem secRead_advances (d : Array UInt8) (pos v pos' : Nat) (h : secRead d pos = .ok (v, pos')) :
    pos' = pos + 3 ∧ pos + 3 ≤ d.size := by
  have rd : ∀ (p : Nat) (x p' : Nat), readInt8 d p = .ok (x, p') → p' = p + 1 ∧ p + 1 ≤ d.size := by
    intro p x p' hx
    simp only [readInt8, P.bind_def] at hx
    obtain ⟨b, q, hb, hq⟩ := P.bind_eq_ok.mp hx
    simp only [P.pure_eq_ok, Prod.mk.injEq] at hq
    unfold Sbdf.readN at hb
    simp only [show ¬ (1 = 0) by omega, if_false] at hb
    split at hb
    · simp only [Except.ok.injEq, Prod.mk.injEq] at hb; omega
    · simp at hb
  simp only [secRead, P.bind_def] at h
  obtain ⟨a, p1, h1, h⟩ := P.bind_eq_ok.mp h
  split at h
  · simp at h
  · obtain ⟨b, p2, h2, h⟩ := P.bind_eq_ok.mp h
    split at h
    · simp at h
    · have := rd _ _ _ h1
      have := rd _ _ _ h2
      have := rd _ _ _ h
      omega

/-- every successful `sbdf_ts_read` (any subset) starts with at least three bytes before the end
    of the input and ends at least three bytes further -/
theorem readTS_advances (c : Cfg) (n : Nat) (sub : Option (List Bool)) (d : Array UInt8) (pos : Nat)
    (r : Option TS) (pos' : Nat) (h : readTS c n sub d pos = .ok (r, pos')) :
    pos + 3 ≤ pos' ∧ pos + 3 ≤ d.size := by
  simp only [readTS, P.bind_def] at h
  obtain ⟨v, p1, h1, h⟩ := P.bind_eq_ok.mp h
  obtain ⟨e1, e2⟩ := secRead_advances d pos v p1 h1
  have rest : Mono (if v = 5 then P.pure none
      else if v ≠ 3 then P.fail Status.unexpectedSection
      else P.bind (readInt32 c) fun cc =>
        if cc < 0 then P.fail Status.invalidSize
        else if cc ≠ ↑n then P.fail Status.colCountMismatch
        else P.bind (alloc c (cc * 8)) fun _ => P.bind (readCols c n sub 0) fun cols => P.pure (some (⟨cols⟩ : TS))) := by
    mono_tac [mono_readInt32, mono_readCols]
  have := rest.out d p1 r pos' h
  omega

/-- C05, termination of the reading loop: every OK from `sbdf_ts_read` moves the stream at least
    three bytes forward inside the input, so a caller looping until a non-OK status makes at
    most `size / 3` successful calls: with `size + 8` calls allowed the loop always ends with a
    status (an error or end-of-table), never by exhausting the bound. -/
theorem readSlices_terminates (c : Cfg) (n : Nat) (sub : Option (List Bool)) (d : Array UInt8) :
    ∀ (fuel pos : Nat), d.size < pos + 3 * (fuel + 1) → ∀ p, (readSlices c n sub d (fuel + 1) pos).2 ≠ .fuel p := by
  intro fuel
  induction fuel with
  | zero =>
    intro pos h p
    simp only [readSlices]
    cases hr : readTS c n sub d pos with
    | error e => simp
    | ok r =>
      obtain ⟨o, pos'⟩ := r
      have := readTS_advances c n sub d pos o pos' hr
      omega
  | succ f ih =>
    intro pos h p
    rw [readSlices]
    cases hr : readTS c n sub d pos with
    | error e => simp
    | ok r =>
      obtain ⟨o, pos'⟩ := r
      cases o with
      | none => simp
      | some ts =>
        simp only
        have := readTS_advances c n sub d pos (some ts) pos' hr
        exact ih pos' (by omega) p

/-- the bound both drivers use (`size + 8` calls) is never exhausted -/
theorem readFile_terminates (c : Cfg) (sub : Option (List Bool)) (d : Array UInt8) (p : Nat) :
    (readFile c sub d).last ≠ some (.fuel p) := by
  unfold readFile readFileF
  split
  · simp
  · split
    · simp
    · rename_i tm pos' _
      intro he
      simp only [Option.some.injEq] at he
      exact readSlices_terminates c _ sub d (d.size + 7) pos' (by omega) p he

end Sbdf
