/-
  `Reads` for table metadata against the physical Spec (any name-list order, unused names,
  entries with and without defaults).
-/
import Sbdf.Lemmas.ReadsSlice
namespace Sbdf
open Spec

theorem Reads.manyMap {p : P α} {γ : Type} (xs : List γ) (enc : γ → Bytes) (res : γ → α)
    (h : ∀ x ∈ xs, Reads p (enc x) (res x)) : Reads (readMany xs.length p) (xs.flatMap enc) (xs.map res) := by
  induction xs with
  | nil => exact Reads.pure []
  | cons x xs ih =>
    simp only [List.length_cons, readMany, List.flatMap_cons, P.bind_def, List.map_cons]
    refine Reads.bind (h x (by simp)) ?_
    have := Reads.bind (ih (fun y hy => h y (by simp [hy]))) (f := fun as => P.pure (res x :: as)) (Reads.pure _)
    simpa using this

theorem Reads.remap (s : Status) {p : P α} {bs : Bytes} {a : α} (h : Reads p bs a) : Reads (remapErr s p) bs a := by
  intro pre rest; unfold remapErr; rw [h pre rest]

/-- a metadata value: one element, allocations granted -/
def MdObjOk (c : Cfg) (o : Obj) : Prop := o.Fits c ∧ o.count = 1 ∧ o.tid < 256

theorem reads_optObj (c : Cfg) (vt : Nat) (st : Bool) (o : Option Obj) (h : ∀ x, o = some x → MdObjOk c x ∧ x.tid = vt) :
    Reads (readOptObj c vt st) (optObj c o) o := by
  unfold readOptObj
  simp only [P.bind_def]
  cases o with
  | none =>
    have := Reads.bind (bs := [0]) (cs := []) (reads_int8_lit 0)
      (f := fun v => if v ≠ 0 then (if st = true ∧ v ≠ 1 then P.fail .arrayLen1 else
        P.bind (readObj c vt) (fun x => P.pure (some x))) else P.pure none) (b := none)
      (by simp; exact Reads.pure _)
    simpa [optObj] using this
  | some x =>
    obtain ⟨⟨hf, h1, _⟩, ht⟩ := h x rfl
    simp only [optObj]
    refine Reads.bind (bs := [1]) (reads_int8_lit 1) ?_
    simp only [show (1 : UInt8).toNat = 1 from rfl, ne_eq, show ¬ (1 = 0) by omega, not_false_eq_true, if_true,
      not_true_eq_false, and_false, if_false]
    subst ht
    have := Reads.bind (reads_obj c x hf h1) (f := fun y => P.pure (some y)) (Reads.pure _)
    simpa using this

def TableEntryOk (c : Cfg) (e : Bytes × Obj × Option Obj) : Prop :=
  fitsStr c e.1.length ∧ MdObjOk c e.2.1 ∧ ∀ d, e.2.2 = some d → MdObjOk c d ∧ d.tid = e.2.1.tid

theorem reads_tableEntry (c : Cfg) (e : Bytes × Obj × Option Obj) (h : TableEntryOk c e) :
    Reads (readTableEntry c) (tableEntry c e.1 e.2.1 e.2.2) ⟨e.1, some e.2.1, e.2.2⟩ := by
  obtain ⟨hn, hv, hd⟩ := h
  unfold readTableEntry tableEntry readMdValues
  simp only [P.bind_def]
  rw [List.append_assoc, List.append_assoc, List.append_assoc]
  refine Reads.bind (reads_string c e.1 hn) ?_
  refine Reads.bind (bs := [UInt8.ofNat e.2.1.tid]) (reads_int8_lit _) ?_
  rw [ofNat_toNat_lt _ hv.2.2]
  have h1 := reads_optObj c e.2.1.tid true (some e.2.1) (by intro x hx; cases hx; exact ⟨hv, rfl⟩)
  have h2 := reads_optObj c e.2.1.tid true e.2.2 hd
  have h12 := Reads.bind h1 (f := fun value => P.bind (readOptObj c e.2.1.tid true) (fun dflt => P.pure (value, dflt)))
    (Reads.bind h2 (Reads.pure _))
  have := Reads.bind h12 (f := fun x => P.pure (⟨e.1, x.1, x.2⟩ : MdEntry)) (Reads.pure _)
  simpa [optObj] using this

def NameRowOk (c : Cfg) (r : NameRow) : Prop :=
  fitsStr c r.name.length ∧ r.vt < 256 ∧ ∀ d, r.dflt = some d → MdObjOk c d ∧ d.tid = r.vt

theorem reads_nameRow (c : Cfg) (r : NameRow) (h : NameRowOk c r) : Reads (readNameRow c) (nameRow c r) r := by
  obtain ⟨hn, hv, hd⟩ := h
  unfold readNameRow nameRow
  simp only [P.bind_def]
  rw [List.append_assoc]
  refine Reads.bind (reads_string c r.name hn) ?_
  refine Reads.bind (bs := [UInt8.ofNat r.vt]) (reads_int8_lit _) ?_
  rw [ofNat_toNat_lt _ hv]
  have := Reads.bind (reads_optObj c r.vt false r.dflt hd) (f := fun d => P.pure (⟨r.name, r.vt, d⟩ : NameRow)) (Reads.pure _)
  simpa using this

/-- what the reader builds for one column: every present value is added under its name -/
def buildCol : List NameRow → List (Option Obj) → Md → Except Status Md
  | r :: rs, some v :: os, m => match Md.add r.name v r.dflt m with
    | .error e => .error e
    | .ok m' => buildCol rs os m'
  | _ :: rs, none :: os, m => buildCol rs os m
  | [], _, m => .ok m
  | _ :: _, [], m => .ok m

theorem reads_column (c : Cfg) (rows : List NameRow) (col : List (Option Obj)) (m m' : Md)
    (hlen : col.length = rows.length)
    (hok : ∀ q ∈ rows.zip col, ∀ x, q.2 = some x → MdObjOk c x ∧ x.tid = q.1.vt)
    (hb : buildCol rows col m = .ok m') :
    Reads (readColumn c rows m) (col.flatMap (optObj c)) m' := by
  induction rows generalizing col m with
  | nil =>
    cases col with
    | nil => simp [buildCol] at hb; subst hb; exact Reads.pure _
    | cons o os => simp at hlen
  | cons r rs ih =>
    cases col with
    | nil => simp at hlen
    | cons o os =>
      simp only [List.length_cons, Nat.add_right_cancel_iff] at hlen
      simp only [readColumn, List.flatMap_cons, P.bind_def]
      have ho := hok (r, o) (by simp)
      refine Reads.bind (reads_optObj c r.vt false o (fun x hx => ho x hx)) ?_
      have hok' : ∀ q ∈ rs.zip os, ∀ x, q.2 = some x → MdObjOk c x ∧ x.tid = q.1.vt := by
        intro q hq x hx; exact hok q (by simp [hq]) x hx
      cases o with
      | none =>
        simp only [buildCol] at hb
        exact ih os m hlen hok' hb
      | some v =>
        simp only [buildCol] at hb
        cases ha : Md.add r.name v r.dflt m with
        | error e => simp [ha] at hb
        | ok m1 =>
          simp only [ha] at hb ⊢
          exact ih os m1 hlen hok' hb

/-- pointwise relation between two lists of the same length -/
inductive All2 {α β : Type} (R : α → β → Prop) : List α → List β → Prop
  | nil : All2 R [] []
  | cons {a : α} {b : β} {as : List α} {bs : List β} : R a b → All2 R as bs → All2 R (a :: as) (b :: bs)

theorem All2.length_eq {α β : Type} {R : α → β → Prop} {as : List α} {bs : List β} (h : All2 R as bs) :
    as.length = bs.length := by
  induction h with
  | nil => rfl
  | cons _ _ ih => simp [ih]

/-- one column of a well-formed physical table metadata section, and the metadata the reader
    builds for it -/
def ColOk (c : Cfg) (names : List NameRow) (pc : List (Option Obj)) (m : Md) : Prop :=
  pc.length = names.length ∧
  (∀ q ∈ names.zip pc, ∀ x, q.2 = some x → MdObjOk c x ∧ x.tid = q.1.vt) ∧
  buildCol names pc Md.empty = .ok m

/-- a well-formed physical table metadata section -/
structure Spec.PhysTM.Ok (c : Cfg) (p : PhysTM) (cols : List Md) : Prop where
  table : ∀ e ∈ p.table, TableEntryOk c e
  names : ∀ r ∈ p.names, NameRowOk c r
  tcnt : (p.table.length : Int) ≤ INT_MAX
  ccnt : (p.cols.length : Int) * 8 ≤ c.cap ∧ (p.cols.length : Int) ≤ INT_MAX
  ncnt : (p.names.length : Int) * 8 ≤ c.cap ∧ (p.names.length : Int) ≤ INT_MAX
  col : All2 (ColOk c p.names) p.cols cols

theorem Spec.PhysTM.Ok.clen {c : Cfg} {p : PhysTM} {cols : List Md} (h : p.Ok c cols) : cols.length = p.cols.length :=
  h.col.length_eq.symm

theorem reads_columns (c : Cfg) (rows : List NameRow) (pc : List (List (Option Obj))) (cols : List Md)
    (h : All2 (ColOk c rows) pc cols) :
    Reads (readMany pc.length (readColumn c rows Md.empty)) (pc.flatMap (fun col => col.flatMap (optObj c))) cols := by
  induction h with
  | nil => exact Reads.pure _
  | @cons x m xs ms hx _ ih =>
    simp only [List.length_cons, readMany, List.flatMap_cons, P.bind_def]
    refine Reads.bind (reads_column c rows x Md.empty m hx.1 hx.2.1 hx.2.2) ?_
    have := Reads.bind ih (f := fun as => P.pure (m :: as)) (Reads.pure _)
    simpa using this

/-- `sbdf_tm_read` decodes every well-formed physical table-metadata section: the table entries in
    order, and per column the present values under their names, in name-list order, frozen -/
theorem reads_tm (c : Cfg) (p : PhysTM) (cols : List Md) (h : p.Ok c cols) :
    Reads (readTM c) (Spec.tm c p)
      ⟨⟨p.table.map (fun e => ⟨e.1, some e.2.1, e.2.2⟩), false⟩, cols.map Md.freeze⟩ := by
  unfold readTM Spec.tm
  simp only [P.bind_def]
  rw [List.append_assoc, List.append_assoc, List.append_assoc, List.append_assoc, List.append_assoc]
  refine Reads.bind (reads_secExpect 2 (by omega)) ?_
  have ht32 : isInt32 (p.table.length : Int) := by have := h.tcnt; unfold INT_MAX at this; unfold isInt32; omega
  refine Reads.bind (reads_int32 c _ ht32) ?_
  have h0 : ¬ ((p.table.length : Int) < 0) := by omega
  simp only [h0, if_false, Int.toNat_natCast]
  have hentries := Reads.manyMap (p := readTableEntry c) p.table (fun e => tableEntry c e.1 e.2.1 e.2.2)
    (fun e => (⟨e.1, some e.2.1, e.2.2⟩ : MdEntry)) (fun e he => reads_tableEntry c e (h.table e he))
  refine Reads.bind hentries ?_
  have hc32 : isInt32 (p.cols.length : Int) := by have := h.ccnt.2; unfold INT_MAX at this; unfold isInt32; omega
  refine Reads.bind (reads_int32 c _ hc32) ?_
  refine Reads.nil_bind (a := ()) (Reads.allocOk c _ (by omega) h.ccnt.1) ?_
  have hn32 : isInt32 (p.names.length : Int) := by have := h.ncnt.2; unfold INT_MAX at this; unfold isInt32; omega
  refine Reads.bind (Reads.remap .oom (reads_int32 c _ hn32)) ?_
  refine Reads.nil_bind (a := ()) (Reads.allocOk c _ (by omega) h.ncnt.1) ?_
  have hrows := Reads.many (p := readNameRow c) (enc := nameRow c) p.names (fun r hr => reads_nameRow c r (h.names r hr))
  refine Reads.bind hrows ?_
  have hcols := reads_columns c p.names p.cols cols h.col
  have := Reads.bind hcols
    (f := fun cs => P.pure (⟨⟨p.table.map (fun e => (⟨e.1, some e.2.1, e.2.2⟩ : MdEntry)), false⟩, cs.map Md.freeze⟩ : TM))
    (Reads.pure _)
  simpa using this

end Sbdf
