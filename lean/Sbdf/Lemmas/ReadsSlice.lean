/-
  `Reads` for column slices and table slices (read, skip, column subsets) and the slice loop.
-/
import Sbdf.Lemmas.ReadsVA
namespace Sbdf
open Spec

def CS.Fits (c : Cfg) (x : CS) : Prop :=
  x.values.Fits c ∧ x.propCnt = x.props.length ∧ (x.props.length : Int) * 8 ≤ c.cap ∧
  (x.props.length : Int) * 8 ≤ INT_MAX ∧ ∀ p ∈ x.props, fitsStr c p.1.length ∧ p.2.Fits c

theorem reads_prop (c : Cfg) (p : Bytes × VA) (h1 : fitsStr c p.1.length) (h2 : p.2.Fits c) :
    Reads (readProp c) (str c p.1 ++ Spec.va c p.2) p := by
  unfold readProp
  simp only [P.bind_def]
  refine Reads.bind (reads_string c p.1 h1) ?_
  have := Reads.bind (reads_va c p.2 h2) (f := fun v => P.pure (p.1, v)) (Reads.pure _)
  simpa using this

theorem propcnt_int32 {c : Cfg} {x : CS} (h : x.Fits c) : isInt32 x.propCnt := by
  obtain ⟨_, h2, _, h4, _⟩ := h
  rw [h2]; unfold INT_MAX at h4; unfold isInt32; omega

/-- `sbdf_cs_read` -/
theorem reads_cs (c : Cfg) (x : CS) (h : x.Fits c) : Reads (readCS c) (Spec.cs c x) x := by
  have hpi := propcnt_int32 h
  obtain ⟨hv, hcnt, hcap, hmax, hprops⟩ := h
  unfold readCS Spec.cs
  simp only [P.bind_def]
  rw [List.append_assoc, List.append_assoc]
  refine Reads.bind (reads_secExpect 4 (by omega)) ?_
  refine Reads.bind (reads_va c x.values hv) ?_
  refine Reads.bind (reads_int32 c x.propCnt hpi) ?_
  have hn0 : ¬ (x.propCnt < 0) := by rw [hcnt]; omega
  simp only [hn0, if_false]
  by_cases hpos : x.propCnt > 0
  · simp only [hpos, if_true]
    have hdiv : ¬ (x.propCnt > INT_MAX / 8) := by
      have : x.propCnt ≤ INT_MAX / 8 := Int.le_ediv_of_mul_le (by omega) (by rw [hcnt]; exact hmax)
      omega
    simp only [hdiv, if_false]
    have hg : decide (x.propCnt * 8 ≤ INT_MAX) = true := by rw [hcnt]; simpa using hmax
    rw [hg]
    refine Reads.nil_bind (a := ()) (Reads.guardTrue _) ?_
    refine Reads.nil_bind (a := ()) (Reads.allocOk c _ (by omega) (by rw [hcnt]; exact hcap)) ?_
    have hm := Reads.many (p := readProp c) (enc := fun p => str c p.1 ++ Spec.va c p.2) x.props
      (fun p hp => reads_prop c p (hprops p hp).1 (hprops p hp).2)
    have hn : x.propCnt.toNat = x.props.length := by rw [hcnt]; simp
    rw [hn]
    have := Reads.bind hm (f := fun ps => P.pure (⟨x.values, x.propCnt, ps⟩ : CS)) (Reads.pure _)
    simpa using this
  · simp only [hpos, if_false]
    have h0 : x.props = [] := by
      have : x.props.length = 0 := by omega
      exact List.length_eq_zero_iff.mp this
    have : x = ⟨x.values, x.propCnt, []⟩ := by cases x; simp_all
    rw [h0]; simp only [List.flatMap_nil]
    rw [this]; exact Reads.pure _

/-- `sbdf_cs_skip` ends where `sbdf_cs_read` ends -/
theorem reads_skipCS (c : Cfg) (x : CS) (h : x.Fits c) : Reads (skipCS c) (Spec.cs c x) () := by
  have hpi := propcnt_int32 h
  obtain ⟨hv, hcnt, hcap, hmax, hprops⟩ := h
  unfold skipCS Spec.cs
  simp only [P.bind_def]
  rw [List.append_assoc, List.append_assoc]
  refine Reads.bind (reads_secExpect 4 (by omega)) ?_
  refine Reads.bind (reads_skipVA c x.values hv) ?_
  refine Reads.bind (reads_int32 c x.propCnt hpi) ?_
  have hn0 : ¬ (x.propCnt < 0) := by omega
  simp only [hn0, if_false]
  have hn : x.propCnt.toNat = x.props.length := by rw [hcnt]; simp
  rw [hn]
  have hm := Reads.skipMany (p := P.bind (skipString c) (fun _ => skipVA c))
    (enc := fun (p : Bytes × VA) => str c p.1 ++ Spec.va c p.2) x.props
    (fun p hp => Reads.bind (reads_skipString c p.1 (isInt32_of_fitsStr (hprops p hp).1))
      (reads_skipVA c p.2 (hprops p hp).2))
  exact hm

/-! ### table slices and column subsets -/

/-- the columns a subset read returns: selected ones as read in full, the others absent -/
def maskFrom (sub : Option (List Bool)) : Nat → List CS → List (Option CS)
  | _, [] => []
  | i, x :: xs => (if wantCol sub i then some x else none) :: maskFrom sub (i + 1) xs

theorem reads_cols (c : Cfg) (sub : Option (List Bool)) (cols : List CS) (h : ∀ x ∈ cols, x.Fits c) (i : Nat) :
    Reads (readCols c cols.length sub i) (cols.flatMap (Spec.cs c)) (maskFrom sub i cols) := by
  induction cols generalizing i with
  | nil => exact Reads.pure _
  | cons x xs ih =>
    simp only [List.length_cons, readCols, List.flatMap_cons, maskFrom, P.bind_def]
    have hx := h x (by simp)
    have hcol : Reads (if wantCol sub i = true
          then P.bind (readCS c) (fun cs => P.pure (some cs)) else P.bind (skipCS c) (fun _ => P.pure none))
        (Spec.cs c x) (if wantCol sub i then some x else none) := by
      split
      · have := Reads.bind (reads_cs c x hx) (f := fun cs => P.pure (some cs)) (Reads.pure _)
        simpa using this
      · have := Reads.bind (reads_skipCS c x hx) (f := fun _ => P.pure (none : Option CS)) (Reads.pure _)
        simpa using this
    refine Reads.bind hcol ?_
    have := Reads.bind (ih (fun y hy => h y (by simp [hy])) (i + 1))
      (f := fun rest => P.pure ((if wantCol sub i then some x else none) :: rest)) (Reads.pure _)
    simpa using this

def TSFits (c : Cfg) (cols : List CS) : Prop :=
  (∀ x ∈ cols, x.Fits c) ∧ (cols.length : Int) * 8 ≤ c.cap ∧ (cols.length : Int) ≤ INT_MAX

/-- `sbdf_ts_read` with any column subset: the selected columns identical to a full read, the
    others absent, ending at the same position -/
theorem reads_ts (c : Cfg) (sub : Option (List Bool)) (cols : List CS) (h : TSFits c cols) :
    Reads (readTS c cols.length sub) (Spec.ts c cols) (some ⟨maskFrom sub 0 cols⟩) := by
  obtain ⟨hf, hcap, hmax⟩ := h
  unfold readTS Spec.ts
  simp only [P.bind_def]
  rw [List.append_assoc]
  refine Reads.bind (reads_secRead 3 (by omega)) ?_
  simp only [show ¬ (3 = 5) by omega, if_false, ne_eq, not_true_eq_false]
  have hi : isInt32 (cols.length : Int) := by unfold INT_MAX at hmax; unfold isInt32; omega
  refine Reads.bind (reads_int32 c _ hi) ?_
  have h0 : ¬ ((cols.length : Int) < 0) := by omega
  simp only [h0, if_false, not_true_eq_false]
  refine Reads.nil_bind (a := ()) (Reads.allocOk c _ (by omega) hcap) ?_
  have := Reads.bind (reads_cols c sub cols hf 0) (f := fun cs => P.pure (some (⟨cs⟩ : TS))) (Reads.pure _)
  simpa using this

/-- the end-of-table marker -/
theorem reads_tsEnd (c : Cfg) (n : Nat) (sub : Option (List Bool)) : Reads (readTS c n sub) Spec.tsEnd none := by
  unfold readTS Spec.tsEnd
  simp only [P.bind_def]
  have := Reads.bind (reads_secRead 5 (by omega))
    (f := fun v => if v = 5 then P.pure (none : Option TS) else
      if v ≠ 3 then P.fail .unexpectedSection else
      P.bind (readInt32 c) (fun cc => if cc < 0 then P.fail .invalidSize else if cc ≠ n then P.fail .colCountMismatch else
        P.bind (alloc c (cc * 8)) (fun _ => P.bind (readCols c n sub 0) (fun cols => P.pure (some ⟨cols⟩)))))
    (cs := []) (b := none) (by simp; exact Reads.pure _)
  simpa using this

/-- full read of a column = subset read with everything selected -/
theorem maskFrom_none (i : Nat) (cols : List CS) : maskFrom none i cols = cols.map some := by
  induction cols generalizing i with
  | nil => rfl
  | cons x xs ih => simp [maskFrom, wantCol, ih]

/-! ### the caller loop -/

/-- the slice loop over `slices` followed by the end marker: all slices (masked by the subset),
    then end-of-table exactly after the marker -/
theorem slices_loop (c : Cfg) (sub : Option (List Bool)) (n : Nat) (slices : List (List CS))
    (hn : ∀ s ∈ slices, s.length = n) (hf : ∀ s ∈ slices, TSFits c s) (pre rest : Bytes) (fuel : Nat)
    (hfuel : slices.length < fuel) :
    readSlices c n sub (pre ++ (slices.flatMap (Spec.ts c) ++ Spec.tsEnd) ++ rest).toArray fuel pre.length =
      (slices.map (fun s => ⟨maskFrom sub 0 s⟩),
       .tableEnd (pre.length + (slices.flatMap (Spec.ts c) ++ Spec.tsEnd).length)) := by
  induction slices generalizing pre fuel with
  | nil =>
    cases fuel with
    | zero => simp at hfuel
    | succ fuel =>
      simp only [List.flatMap_nil, List.nil_append, readSlices, List.map_nil]
      rw [reads_tsEnd c n sub pre rest]
  | cons s ss ih =>
    cases fuel with
    | zero => simp at hfuel
    | succ fuel =>
      simp only [readSlices, List.flatMap_cons, List.map_cons]
      have hs := reads_ts c sub s (hf s (by simp))
      rw [hn s (by simp)] at hs
      have e1 : pre ++ (Spec.ts c s ++ ss.flatMap (Spec.ts c) ++ Spec.tsEnd) ++ rest =
          pre ++ Spec.ts c s ++ (ss.flatMap (Spec.ts c) ++ Spec.tsEnd ++ rest) := by simp
      rw [e1, hs pre _]
      simp only
      have e2 : pre ++ Spec.ts c s ++ (ss.flatMap (Spec.ts c) ++ Spec.tsEnd ++ rest) =
          (pre ++ Spec.ts c s) ++ (ss.flatMap (Spec.ts c) ++ Spec.tsEnd) ++ rest := by simp
      have := ih (fun x hx => hn x (by simp [hx])) (fun x hx => hf x (by simp [hx])) (pre ++ Spec.ts c s) fuel
        (by simp at hfuel; omega)
      rw [e2]
      simp only [List.length_append] at this ⊢
      rw [this]
      simp only [Prod.mk.injEq, LoopEnd.tableEnd.injEq, true_and]
      omega

end Sbdf
