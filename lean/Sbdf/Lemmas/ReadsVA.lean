/-
  `Reads` for value arrays, column slices and table slices (read, skip, column subsets).
-/
import Sbdf.Lemmas.ReadsObj
namespace Sbdf
open Spec

/-- a physical value array whose allocations are granted and whose fields fit their widths -/
def VA.Fits (c : Cfg) : VA → Prop
  | .plain o => o.Fits c ∧ (isArr o.tid = true → isInt32 (byteSize o.elems)) ∧ o.tid < 256
  | .rle rows runs vals =>
    isInt32 rows ∧ (runsObj runs).Fits c ∧ vals.Fits c ∧ (isArr vals.tid = true → isInt32 (byteSize vals.elems)) ∧
    vals.tid < 256
  | .bit vt rows bits =>
    isInt32 rows ∧ vt < 256 ∧ 0 ≤ packedSize rows ∧ bits.length = (packedSize rows).toNat ∧
    packedSize rows + 4 ≤ c.cap ∧ packedSize rows ≤ INT_MAX ∧ 0 ≤ rows

theorem runsObj_flatten (runs : Bytes) : (runsObj runs).elems.flatten = runs := by
  unfold runsObj
  induction runs with
  | nil => rfl
  | cons r rs ih => simp only [List.map_cons, List.flatten_cons]; simp at ih ⊢; exact ih

theorem ofNat_toNat_lt (n : Nat) (h : n < 256) : (UInt8.ofNat n).toNat = n := by
  rw [UInt8.toNat_ofNat']; omega

/-- `sbdf_va_read` decodes every well-formed array of every encoding — maximal or not — and stops
    exactly at its end -/
theorem reads_va (c : Cfg) (va : VA) (h : va.Fits c) : Reads (readVA c) (Spec.va c va) va := by
  unfold readVA
  simp only [P.bind_def]
  cases va with
  | plain o =>
    obtain ⟨hf, hbs, ht⟩ := h
    simp only [Spec.va]
    refine Reads.bind (bs := [1]) (cs := UInt8.ofNat o.tid :: objArr c o) (reads_int8_lit 1) ?_
    refine Reads.bind (bs := [UInt8.ofNat o.tid]) (cs := objArr c o) (reads_int8_lit _) ?_
    simp only [show (1 : UInt8).toNat = 1 from rfl, if_true, ofNat_toNat_lt o.tid ht]
    have := Reads.bind (reads_objArr c o hf hbs) (f := fun o => P.pure (VA.plain o)) (Reads.pure _)
    simpa using this
  | rle rows runs vals =>
    obtain ⟨hr, hfr, hfv, hbs, ht⟩ := h
    simp only [Spec.va]
    refine Reads.bind (bs := [2]) (cs := UInt8.ofNat vals.tid :: (le c rows ++ objArr c (runsObj runs) ++ objArr c vals))
      (reads_int8_lit 2) ?_
    refine Reads.bind (bs := [UInt8.ofNat vals.tid]) (cs := le c rows ++ objArr c (runsObj runs) ++ objArr c vals)
      (reads_int8_lit _) ?_
    simp only [show (2 : UInt8).toNat = 2 from rfl, show ¬ (2 = 1) by omega, if_false, if_true,
      ofNat_toNat_lt vals.tid ht]
    rw [List.append_assoc]
    refine Reads.bind (reads_int32 c rows hr) ?_
    have h1 : Reads (readObjArr c 254) (objArr c (runsObj runs)) (runsObj runs) :=
      reads_objArr c (runsObj runs) hfr (by intro h; simp [runsObj, isArr] at h)
    refine Reads.bind h1 ?_
    have := Reads.bind (reads_objArr c vals hfv hbs)
      (f := fun v => P.pure (VA.rle rows (runsObj runs).elems.flatten v)) (Reads.pure _)
    simp only [List.append_nil] at this
    rw [runsObj_flatten] at this ⊢
    exact this
  | bit vt rows bits =>
    obtain ⟨hr, ht, hps0, hlen, hcap, hmax, hrows⟩ := h
    simp only [Spec.va]
    refine Reads.bind (bs := [3]) (cs := UInt8.ofNat vt :: (le c rows ++ bits)) (reads_int8_lit 3) ?_
    refine Reads.bind (bs := [UInt8.ofNat vt]) (cs := le c rows ++ bits) (reads_int8_lit _) ?_
    simp only [show (3 : UInt8).toNat = 3 from rfl, show ¬ (3 = 1) by omega, show ¬ (3 = 2) by omega,
      if_false, if_true, ofNat_toNat_lt vt ht]
    refine Reads.bind (reads_int32 c rows hr) ?_
    have hnn : ¬ (rows < 0) := by omega
    simp only [hnn, if_false]
    refine Reads.nil_bind (a := ()) (Reads.allocOk c _ hps0 (by omega)) ?_
    have hb := Reads.readN' bits hlen
    have := Reads.bind hb (f := fun b => P.bind (allocBa c (packedSize rows)) (fun _ => P.pure (VA.bit vt rows b)))
      (cs := []) (b := VA.bit vt rows bits)
      (Reads.nil_bind (a := ()) (by
        unfold allocBa; exact Reads.allocOk c _ (by omega) hcap) (Reads.pure _))
    simpa using this

/-- `sbdf_va_skip` lands exactly where `sbdf_va_read` does, for every encoding -/
theorem reads_skipVA (c : Cfg) (va : VA) (h : va.Fits c) : Reads (skipVA c) (Spec.va c va) () := by
  unfold skipVA
  simp only [P.bind_def]
  cases va with
  | plain o =>
    obtain ⟨hf, hbs, ht⟩ := h
    simp only [Spec.va]
    refine Reads.bind (bs := [1]) (cs := UInt8.ofNat o.tid :: objArr c o) (reads_int8_lit 1) ?_
    refine Reads.bind (bs := [UInt8.ofNat o.tid]) (cs := objArr c o) (reads_int8_lit _) ?_
    simp only [show (1 : UInt8).toNat = 1 from rfl, if_true, ofNat_toNat_lt o.tid ht]
    exact reads_skipObjArr c o hf hbs
  | rle rows runs vals =>
    obtain ⟨hr, hfr, hfv, hbs, ht⟩ := h
    simp only [Spec.va]
    refine Reads.bind (bs := [2]) (cs := UInt8.ofNat vals.tid :: (le c rows ++ objArr c (runsObj runs) ++ objArr c vals))
      (reads_int8_lit 2) ?_
    refine Reads.bind (bs := [UInt8.ofNat vals.tid]) (cs := le c rows ++ objArr c (runsObj runs) ++ objArr c vals)
      (reads_int8_lit _) ?_
    simp only [show (2 : UInt8).toNat = 2 from rfl, show ¬ (2 = 1) by omega, if_false, if_true,
      ofNat_toNat_lt vals.tid ht]
    rw [List.append_assoc]
    refine Reads.bind (reads_int32 c rows hr) ?_
    have h1 : Reads (skipObjArr c 254) (objArr c (runsObj runs)) () :=
      reads_skipObjArr c (runsObj runs) hfr (by intro h; simp [runsObj, isArr] at h)
    exact Reads.bind h1 (reads_skipObjArr c vals hfv hbs)
  | bit vt rows bits =>
    obtain ⟨hr, ht, hps0, hlen, hcap, hmax, hrows⟩ := h
    simp only [Spec.va]
    refine Reads.bind (bs := [3]) (cs := UInt8.ofNat vt :: (le c rows ++ bits)) (reads_int8_lit 3) ?_
    refine Reads.bind (bs := [UInt8.ofNat vt]) (cs := le c rows ++ bits) (reads_int8_lit _) ?_
    simp only [show (3 : UInt8).toNat = 3 from rfl, show ¬ (3 = 1) by omega, show ¬ (3 = 2) by omega,
      if_false, if_true, ofNat_toNat_lt vt ht]
    refine Reads.bind (reads_int32 c rows hr) ?_
    have hnn : ¬ (rows < 0) := by omega
    simp only [hnn, if_false]
    apply Reads.skipBytesExact
    rw [hlen]; omega

end Sbdf
