/-
  `Reads` for objects and value arrays against the Spec, for reading and for skipping.
-/
import Sbdf.Lemmas.Reads
namespace Sbdf
open Spec

/-! ### elements -/

def fitsElem (c : Cfg) (isStr : Bool) (l : Nat) : Prop := if isStr then fitsStr c l else fitsBa c l

theorem fitsElem_int32 {c : Cfg} {s : Bool} {l : Nat} (h : fitsElem c s l) : isInt32 (l : Int) := by
  unfold fitsElem at h
  split at h
  · exact isInt32_of_fitsStr h
  · have := h.1; unfold INT_MAX at this; unfold isInt32; omega

theorem reads_elem (c : Cfg) (isStr packed : Bool) (e : Bytes) (h : fitsElem c isStr e.length) :
    Reads (readElem c isStr packed) (elem c packed e) e := by
  have hn : ¬ ((e.length : Int) < 0) := by omega
  have htail : Reads (if (e.length : Int) < 0 then P.fail .invalidSize else
      P.bind (if isStr = true then allocStr c e.length else allocBa c e.length) (fun _ => readN (e.length : Int).toNat)) e e := by
    simp only [hn, if_false, Int.toNat_natCast]
    refine Reads.nil_bind (a := ()) ?_ (Reads.readN e)
    unfold fitsElem at h
    split
    · rename_i hs; simp only [hs, if_true] at h; exact reads_allocStr c _ h
    · rename_i hs; simp only [hs] at h; exact reads_allocBa c _ h
  unfold readElem elem
  simp only [P.bind_def]
  split
  · exact Reads.bind (reads_7bit _ (fitsElem_int32 h)) htail
  · exact Reads.bind (reads_int32 c _ (fitsElem_int32 h)) htail

/-! ### fixed-size elements -/

theorem chunksOf_flatMap (sz : Nat) (f : Bytes → Bytes) (hf : ∀ b, (f b).length = b.length)
    (es : List Bytes) (h : ∀ e ∈ es, e.length = sz) :
    chunksOf sz es.length (es.flatMap f) = es.map f := by
  induction es with
  | nil => rfl
  | cons x xs ih =>
    simp only [List.length_cons, chunksOf, List.flatMap_cons, List.map_cons]
    have hx : (f x).length = sz := by rw [hf, h x (by simp)]
    rw [List.take_left' hx, List.drop_left' hx, ih (fun e he => h e (by simp [he]))]

theorem flatMap_length (sz : Nat) (f : Bytes → Bytes) (hf : ∀ b, (f b).length = b.length)
    (es : List Bytes) (h : ∀ e ∈ es, e.length = sz) : (es.flatMap f).length = sz * es.length := by
  induction es with
  | nil => simp
  | cons x xs ih =>
    simp only [List.flatMap_cons, List.length_append, List.length_cons, hf, h x (by simp),
      ih (fun e he => h e (by simp [he]))]
    rw [Nat.mul_add]; omega

/-! ### objects -/

/-- every allocation the reader makes for this object is granted, and every count fits int32 -/
def Obj.Fits (c : Cfg) (o : Obj) : Prop :=
  if isArr o.tid then
    (o.count : Int) * 8 ≤ c.cap ∧ (o.count : Int) ≤ INT_MAX ∧ ∀ e ∈ o.elems, fitsElem c (o.tid == 10) e.length
  else
    ∃ sz, fixedSize o.tid = .ok sz ∧ (∀ e ∈ o.elems, e.length = sz) ∧ (sz : Int) * o.count ≤ c.cap ∧
      (sz : Int) * o.count ≤ INT_MAX

theorem fixedSize_pos'' {t n : Nat} (h : fixedSize t = .ok n) : 0 < n := by
  unfold fixedSize at h
  cases hu : unpackedSize t with
  | none => simp [hu] at h
  | some k => cases k with
    | zero => simp [hu] at h
    | succ k => simp [hu] at h; omega

theorem reads_objects (c : Cfg) (o : Obj) (packed : Bool) (h : o.Fits c)
    (hbs : packed = true → isArr o.tid = true → isInt32 (byteSize o.elems)) :
    Reads (readObjects c o.tid o.count packed) (objBody c o packed) o := by
  unfold readObjects objBody Obj.Fits at *
  have hc : ¬ ((o.count : Int) < 0) := by omega
  simp only [hc, if_false, P.bind_def]
  by_cases harr : isArr o.tid = true
  · simp only [harr, if_true] at h ⊢
    refine Reads.nil_bind (Reads.allocOk c _ (by omega) h.1) ?_
    have hhead : Reads (if packed = true then P.bind (readInt32 c) (fun _ => P.pure ()) else P.pure ())
        (if packed = true then le c (byteSize o.elems) else []) () := by
      split
      · rename_i hp
        have := Reads.bind (reads_int32 c _ (hbs hp harr)) (f := fun _ => P.pure ()) (Reads.pure ())
        simpa [le] using this
      · exact Reads.pure ()
    refine Reads.bind hhead ?_
    have hm := Reads.many (p := readElem c (o.tid == 10) packed) (enc := elem c packed) o.elems
      (fun e he => reads_elem c _ packed e (h.2.2 e he))
    simp only [Int.toNat_natCast, Obj.count]
    have := Reads.bind hm (f := fun es => P.pure (⟨o.tid, es⟩ : Obj)) (Reads.pure _)
    simpa using this
  · simp only [harr, Bool.false_eq_true, if_false] at h ⊢
    obtain ⟨sz, hsz, hlen, hcap, hmax⟩ := h
    simp only [hsz]
    have hpos := fixedSize_pos'' hsz
    have hdiv : ¬ ((o.count : Int) > INT_MAX / (sz : Int)) := by
      have : (o.count : Int) ≤ INT_MAX / (sz : Int) :=
        Int.le_ediv_of_mul_le (by omega) (by rw [Int.mul_comm]; exact hmax)
      omega
    simp only [hdiv, if_false]
    have hg : decide ((sz : Int) * (o.count : Int) ≤ INT_MAX) = true := by simpa using hmax
    rw [hg]
    refine Reads.nil_bind (Reads.guardTrue _) ?_
    refine Reads.nil_bind (Reads.allocOk c _ (Int.mul_nonneg (by omega) (by omega)) hcap) ?_
    have hraw : (o.elems.flatMap (swapElem c)).length = sz * (o.count : Int).toNat := by
      simp only [Int.toNat_natCast, Obj.count]
      exact flatMap_length sz (swapElem c) (swapElem_length c) o.elems hlen
    have hr := Reads.readN' (o.elems.flatMap (swapElem c)) hraw
    have := Reads.bind hr (f := fun raw => P.pure (⟨o.tid, (chunksOf sz (o.count : Int).toNat raw).map (swapElem c)⟩ : Obj))
      (Reads.pure _)
    simp only [List.append_nil, Int.toNat_natCast, Obj.count] at this ⊢
    rw [chunksOf_flatMap sz (swapElem c) (swapElem_length c) o.elems hlen] at this
    simp only [List.map_map] at this
    have hid : (swapElem c ∘ swapElem c) = id := by funext b; simp
    rw [hid, List.map_id] at this
    exact this

theorem count_isInt32 {c : Cfg} {o : Obj} (h : o.Fits c) : isInt32 (o.count : Int) := by
  unfold Obj.Fits at h
  unfold isInt32
  split at h
  · have := h.2.1; unfold INT_MAX at this; omega
  · obtain ⟨sz, hsz, _, _, hmax⟩ := h
    have := fixedSize_pos'' hsz
    unfold INT_MAX at hmax
    have : (o.count : Int) ≤ (sz : Int) * o.count := by
      have : (1 : Int) * o.count ≤ (sz : Int) * o.count := Int.mul_le_mul_of_nonneg_right (by omega) (by omega)
      omega
    omega

/-- `sbdf_obj_read_arr` reads back a packed array -/
theorem reads_objArr (c : Cfg) (o : Obj) (h : o.Fits c) (hbs : isArr o.tid = true → isInt32 (byteSize o.elems)) :
    Reads (readObjArr c o.tid) (objArr c o) o := by
  unfold readObjArr objArr
  simp only [P.bind_def]
  exact Reads.bind (reads_int32 c _ (count_isInt32 h)) (reads_objects c o true h (fun _ => hbs))

/-- `sbdf_obj_read` reads back a single unpacked object -/
theorem reads_obj (c : Cfg) (o : Obj) (h : o.Fits c) (h1 : o.count = 1) : Reads (readObj c o.tid) (obj c o) o := by
  unfold readObj obj
  have := reads_objects c o false h (by simp)
  rw [h1] at this
  exact this

/-! ### skipping -/

theorem elem_length_packed (c : Cfg) (e : Bytes) (h : (e.length : Int) < 2147483648) :
    (elem c true e).length = len7 e.length + e.length := by
  simp only [elem, if_true, List.length_append]
  rw [(bytes7_length' _ (by omega) h).1]

theorem byteSize_is_length (c : Cfg) (es : List Bytes) (h : ∀ e ∈ es, (e.length : Int) < 2147483648) :
    byteSize es = ((es.flatMap (elem c true)).length : Int) := by
  unfold byteSize
  suffices hs : ∀ acc : Int, es.foldl (fun acc e => acc + (len7 e.length : Int) + e.length) acc =
      acc + ((es.flatMap (elem c true)).length : Int) by simpa using hs 0
  induction es with
  | nil => intro acc; simp
  | cons x xs ih =>
    intro acc
    simp only [List.foldl_cons, List.flatMap_cons, List.length_append]
    rw [ih (fun e he => h e (by simp [he])), elem_length_packed c x (h x (by simp))]
    push_cast; omega

/-- skipping a packed array lands exactly where reading it does: the byte-size header the writer
    computes is the length of the encoded elements -/
theorem reads_skipObjArr (c : Cfg) (o : Obj) (h : o.Fits c) (hbs : isArr o.tid = true → isInt32 (byteSize o.elems)) :
    Reads (skipObjArr c o.tid) (objArr c o) () := by
  unfold skipObjArr objArr skipObjects objBody
  simp only [P.bind_def]
  refine Reads.bind (reads_int32 c _ (count_isInt32 h)) ?_
  have hc : ¬ ((o.count : Int) < 0) := by omega
  simp only [hc, if_false, if_true]
  unfold Obj.Fits at h
  by_cases harr : isArr o.tid = true
  · simp only [harr, if_true] at h ⊢
    refine Reads.bind (reads_int32 c _ (hbs harr)) ?_
    have hlen : byteSize o.elems = ((o.elems.flatMap (elem c true)).length : Int) := by
      apply byteSize_is_length
      intro e he
      have := fitsElem_int32 (h.2.2 e he)
      unfold isInt32 at this; omega
    have hnn : ¬ (byteSize o.elems < 0) := by rw [hlen]; omega
    simp only [hnn, if_false]
    exact Reads.skipBytesExact c _ _ hlen
  · simp only [harr, Bool.false_eq_true, if_false] at h ⊢
    obtain ⟨sz, hsz, hlen, hcap, hmax⟩ := h
    simp only [hsz]
    have hpos := fixedSize_pos'' hsz
    have hdiv : ¬ ((o.count : Int) > INT_MAX / (sz : Int)) := by
      have : (o.count : Int) ≤ INT_MAX / (sz : Int) :=
        Int.le_ediv_of_mul_le (by omega) (by rw [Int.mul_comm]; exact hmax)
      omega
    simp only [hdiv, if_false]
    have hg : decide ((sz : Int) * (o.count : Int) ≤ INT_MAX) = true := by simpa using hmax
    rw [hg]
    refine Reads.nil_bind (Reads.guardTrue _) ?_
    apply Reads.skipBytesExact
    rw [flatMap_length sz (swapElem c) (swapElem_length c) o.elems hlen]
    simp only [Obj.count]; push_cast; rw [Int.mul_comm]

end Sbdf
