/-
  Facts about the column-metadata folding of `sbdf_tm_write` needed to show that the canonical
  physical layout of an API-built table is well formed (so that C04 applies to what C03 emits).
-/
import Sbdf.TableMetadata
namespace Sbdf

theorem nameEq_iff (a b : Bytes) : Md.nameEq a b = true ↔ cstr a = cstr b := by simp [Md.nameEq]
theorem nameEq_false_iff (a b : Bytes) : Md.nameEq a b = false ↔ cstr a ≠ cstr b := by simp [Md.nameEq]

theorem nameEq_trans {a b c : Bytes} (h1 : Md.nameEq a b = true) (h2 : Md.nameEq b c = true) : Md.nameEq a c = true := by
  rw [nameEq_iff] at *; rw [h1, h2]

theorem nameEq_symm' {a b : Bytes} (h : Md.nameEq a b = true) : Md.nameEq b a = true := by
  rw [nameEq_iff] at *; exact h.symm

/-- invariant of the folding loop -/
structure FoldInv (kept last : List MdEntry) : Prop where
  rep : ∀ l ∈ last, ∃ k ∈ kept, Md.nameEq k.name l.name = true ∧ entryTid k = entryTid l
  sub : ∀ k ∈ kept, k ∈ last
  dist : kept.Pairwise (fun a b => Md.nameEq a.name b.name = false)

theorem foldAux_facts (es kept last r : List MdEntry) (hi : FoldInv kept last)
    (h : foldColsAux es kept last = .ok r) :
    (∀ e, (e ∈ last ∨ e ∈ es) → ∃ k ∈ r, Md.nameEq k.name e.name = true ∧ entryTid k = entryTid e) ∧
    (∀ k ∈ r, k ∈ last ∨ k ∈ es) ∧
    r.Pairwise (fun a b => Md.nameEq a.name b.name = false) := by
  induction es generalizing kept last with
  | nil =>
    simp only [foldColsAux, Except.ok.injEq] at h
    subst h
    refine ⟨?_, ?_, ?_⟩
    · intro e he
      rcases he with he | he
      · obtain ⟨k, hk, h1, h2⟩ := hi.rep e he
        exact ⟨k, by simp [hk], h1, h2⟩
      · simp at he
    · intro k hk; exact .inl (hi.sub k (by simpa using hk))
    · rw [List.pairwise_reverse]
      exact hi.dist.imp (fun {a b} hab => by
        rw [nameEq_false_iff] at *; exact fun e => hab e.symm)
  | cons x xs ih =>
    simp only [foldColsAux] at h
    cases hf : last.find? (fun l => Md.nameEq l.name x.name) with
    | none =>
      simp only [hf] at h
      have hnone : ∀ l ∈ last, Md.nameEq l.name x.name = false := by
        intro l hl; have := List.find?_eq_none.mp hf l hl; simpa using this
      have hi' : FoldInv (x :: kept) (x :: last) := by
        refine ⟨?_, ?_, ?_⟩
        · intro l hl
          simp only [List.mem_cons] at hl
          rcases hl with hl | hl
          · subst hl; exact ⟨l, by simp, by simp [Md.nameEq], rfl⟩
          · obtain ⟨k, hk, h1, h2⟩ := hi.rep l hl
            exact ⟨k, by simp [hk], h1, h2⟩
        · intro k hk
          simp only [List.mem_cons] at hk ⊢
          rcases hk with hk | hk
          · exact .inl hk
          · exact .inr (hi.sub k hk)
        · rw [List.pairwise_cons]
          refine ⟨?_, hi.dist⟩
          intro k hk
          have := hnone k (hi.sub k hk)
          rw [nameEq_false_iff] at *; exact fun e => this e.symm
      obtain ⟨f1, f2, f3⟩ := ih (x :: kept) (x :: last) hi' h
      refine ⟨?_, ?_, f3⟩
      · intro e he
        apply f1
        simp only [List.mem_cons] at he ⊢
        rcases he with he | he | he
        · exact .inl (.inr he)
        · exact .inl (.inl he)
        · exact .inr he
      · intro k hk
        have := f2 k hk
        simp only [List.mem_cons] at this ⊢
        rcases this with (h1 | h1) | h1
        · exact .inr (.inl h1)
        · exact .inl h1
        · exact .inr (.inr h1)
    | some p =>
      simp only [hf] at h
      split at h; · simp at h
      split at h; · simp at h
      rename_i htid _
      simp only [ne_eq, Decidable.not_not] at htid
      have hp : p ∈ last := List.mem_of_find?_eq_some hf
      have hpn : Md.nameEq p.name x.name = true := by have := List.find?_some hf; simpa using this
      have hi' : FoldInv kept (x :: last) := by
        refine ⟨?_, ?_, hi.dist⟩
        · intro l hl
          simp only [List.mem_cons] at hl
          rcases hl with hl | hl
          · subst hl
            obtain ⟨k, hk, h1, h2⟩ := hi.rep p hp
            exact ⟨k, hk, nameEq_trans h1 hpn, by rw [h2, htid]⟩
          · exact hi.rep l hl
        · intro k hk; simp [hi.sub k hk]
      obtain ⟨f1, f2, f3⟩ := ih kept (x :: last) hi' h
      refine ⟨?_, ?_, f3⟩
      · intro e he
        apply f1
        simp only [List.mem_cons] at he ⊢
        rcases he with he | he | he
        · exact .inl (.inr he)
        · exact .inl (.inl he)
        · exact .inr he
      · intro k hk
        have := f2 k hk
        simp only [List.mem_cons] at this ⊢
        rcases this with (h1 | h1) | h1
        · exact .inr (.inl h1)
        · exact .inl h1
        · exact .inr (.inr h1)

/-- what a successful fold guarantees: every column entry is represented in the name list by an
    entry of the same C-string name and the same type; the name list consists of column entries
    and its names are pairwise different -/
theorem fold_facts (all kept : List MdEntry) (h : foldCols all = .ok kept) :
    (∀ e ∈ all, ∃ k ∈ kept, Md.nameEq k.name e.name = true ∧ entryTid k = entryTid e) ∧
    (∀ k ∈ kept, k ∈ all) ∧
    kept.Pairwise (fun a b => Md.nameEq a.name b.name = false) := by
  have := foldAux_facts all [] [] kept ⟨by simp, by simp, by simp⟩ h
  refine ⟨fun e he => this.1 e (.inr he), fun k hk => ?_, this.2.2⟩
  have := this.2.1 k hk; simpa using this

/-- first appearance: an entry is kept iff no earlier entry (of any column) has its C-string name -/
def firstAppearance : List MdEntry → List MdEntry → List MdEntry
  | _, [] => []
  | seen, e :: es =>
    if seen.any (fun s => Md.nameEq s.name e.name) then firstAppearance (e :: seen) es
    else e :: firstAppearance (e :: seen) es

theorem fold_is_firstAppearance' (es kept last r : List MdEntry) (h : foldColsAux es kept last = .ok r) :
    r = kept.reverse ++ firstAppearance last es := by
  induction es generalizing kept last with
  | nil => simp [foldColsAux] at h; simp [firstAppearance, h]
  | cons e es ih =>
    simp only [foldColsAux] at h
    cases hf : last.find? (fun l => Md.nameEq l.name e.name) with
    | none =>
      simp only [hf] at h
      have := ih (e :: kept) (e :: last) h
      have hany : last.any (fun s => Md.nameEq s.name e.name) = false := by
        rw [List.any_eq_false]; intro x hx
        have := List.find?_eq_none.mp hf x hx; simpa using this
      simp [firstAppearance, hany, this]
    | some p =>
      simp only [hf] at h
      split at h; · simp at h
      split at h; · simp at h
      have := ih kept (e :: last) h
      have hany : last.any (fun s => Md.nameEq s.name e.name) = true := by
        rw [List.any_eq_true]
        exact ⟨p, List.mem_of_find?_eq_some hf, by have := List.find?_some hf; simpa using this⟩
      simp [firstAppearance, hany, this]


end Sbdf
