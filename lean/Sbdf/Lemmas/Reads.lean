/-
  `Reads` for every reader of the model against the declarative Spec: in any context the reader
  returns the encoded value and stops exactly after its encoding (whatever follows).
-/
import Sbdf.Lemmas.Prim
import Sbdf.Spec
namespace Sbdf
open Spec

/-! ### more generic pieces -/

theorem Reads.seekExact (bs : Bytes) (n : Int) (h : n = bs.length) : Reads (seek n) bs () := by
  intro pre rest
  subst h
  unfold seek
  have : (0 : Int) ≤ ↑pre.length + ↑bs.length := by omega
  simp only [this, if_true]
  have e : ((pre.length : Int) + (bs.length : Int)).toNat = pre.length + bs.length := by omega
  rw [e]

/-- `sbdf_skip_bytes` over exactly the bytes to skip, on streams that can seek and streams that cannot -/
theorem Reads.skipBytesExact (c : Cfg) (bs : Bytes) (n : Int) (h : n = bs.length) : Reads (skipBytes c n) bs () := by
  unfold skipBytes; split
  · subst h
    unfold discard
    have := Reads.bind (Reads.readN bs) (f := fun _ => P.pure ()) (Reads.pure _)
    simpa using this
  · exact Reads.seekExact bs n h

theorem Reads.allocOk (c : Cfg) (n : Int) (h0 : 0 ≤ n) (h1 : n ≤ c.cap) : Reads (alloc c n) [] () := by
  unfold alloc
  have : ¬ (n < 0 ∨ n > c.cap) := by omega
  simp only [this, if_false]; exact Reads.pure ()

theorem Reads.guardTrue (w : String) : Reads (guardUB true w) [] () := by
  unfold guardUB; exact Reads.pure ()

theorem Reads.nil_bind {p : P α} {f : α → P β} {cs : Bytes} {a : α} {b : β}
    (hp : Reads p [] a) (hf : Reads (f a) cs b) : Reads (P.bind p f) cs b := by
  have := Reads.bind hp hf; simpa using this

theorem Reads.skipMany {p : P Unit} {enc : α → Bytes} (xs : List α)
    (h : ∀ x ∈ xs, Reads p (enc x) ()) : Reads (skipMany xs.length p) (xs.flatMap enc) () := by
  induction xs with
  | nil => exact Reads.pure ()
  | cons x xs ih =>
    simp only [List.length_cons, Sbdf.skipMany, List.flatMap_cons, P.bind_def]
    exact Reads.bind (h x (by simp)) (ih (fun y hy => h y (by simp [hy])))

theorem Reads.congr {p : P α} {bs bs' : Bytes} {a a' : α} (h : Reads p bs a) (hb : bs = bs') (ha : a = a') :
    Reads p bs' a' := by subst hb; subst ha; exact h

/-! ### strings -/

/-- allocation of a string of length `l` is granted -/
def fitsStr (c : Cfg) (l : Nat) : Prop := (l : Int) ≤ INT_MAX - 5 ∧ (l : Int) + 5 ≤ c.cap
def fitsBa (c : Cfg) (l : Nat) : Prop := (l : Int) ≤ INT_MAX ∧ (l : Int) + 4 ≤ c.cap

theorem reads_allocStr (c : Cfg) (l : Nat) (h : fitsStr c l) : Reads (allocStr c l) [] () := by
  unfold allocStr
  have : ¬ ((l : Int) > INT_MAX - 5) := by have := h.1; omega
  simp only [this, if_false]
  exact Reads.allocOk c _ (by omega) h.2

theorem reads_allocBa (c : Cfg) (l : Nat) (h : fitsBa c l) : Reads (allocBa c l) [] () := by
  unfold allocBa; exact Reads.allocOk c _ (by omega) h.2

theorem isInt32_of_fitsStr {c : Cfg} {l : Nat} (h : fitsStr c l) : isInt32 (l : Int) := by
  have := h.1; unfold INT_MAX at this; unfold isInt32; omega

theorem reads_string (c : Cfg) (s : Bytes) (h : fitsStr c s.length) : Reads (readString c) (str c s) s := by
  unfold readString str le
  simp only [P.bind_def]
  refine Reads.bind (reads_int32 c _ (isInt32_of_fitsStr h)) ?_
  have hn : ¬ ((s.length : Int) < 0) := by omega
  simp only [hn, if_false, Int.toNat_natCast]
  exact Reads.nil_bind (reads_allocStr c _ h) (Reads.readN s)

theorem reads_skipString (c : Cfg) (s : Bytes) (h : isInt32 (s.length : Int)) : Reads (skipString c) (str c s) () := by
  unfold skipString str le
  simp only [P.bind_def]
  refine Reads.bind (reads_int32 c _ h) ?_
  have hn : ¬ ((s.length : Int) < 0) := by omega
  simp only [hn, if_false]
  exact Reads.skipBytesExact c s _ rfl

/-! ### sections -/

theorem reads_int8_lit (b : UInt8) : Reads readInt8 [b] b.toNat := by
  have := reads_int8 b.toNat b.toNat_lt
  simpa using this

theorem reads_secRead (id : Nat) (h : id < 256) : Reads secRead (sec id) id := by
  unfold secRead sec
  simp only [P.bind_def]
  refine Reads.bind (bs := [0xdf]) (cs := [0x5b, UInt8.ofNat id]) (reads_int8_lit 0xdf) ?_
  simp only [show (0xdf : UInt8).toNat = 0xdf from rfl, ne_eq, not_true_eq_false, if_false]
  refine Reads.bind (bs := [0x5b]) (cs := [UInt8.ofNat id]) (reads_int8_lit 0x5b) ?_
  simp only [show (0x5b : UInt8).toNat = 0x5b from rfl, ne_eq, not_true_eq_false, if_false]
  exact reads_int8 id h

theorem reads_secExpect (id : Nat) (h : id < 256) : Reads (secExpect id) (sec id) () := by
  unfold secExpect
  simp only [P.bind_def]
  have := Reads.bind (reads_secRead id h) (f := fun v => if v ≠ id then P.fail .unexpectedSection else P.pure ())
    (cs := []) (b := ()) (by simp; exact Reads.pure ())
  simpa using this

theorem reads_fhRead : Reads fhRead header (1, 0) := by
  unfold fhRead header
  simp only [P.bind_def]
  refine Reads.bind (reads_secExpect 1 (by omega)) ?_
  refine Reads.bind (bs := [1]) (cs := [0]) (reads_int8_lit 1) ?_
  have := Reads.bind (bs := [0]) (cs := []) (reads_int8_lit 0) (f := fun mi => P.pure ((1 : UInt8).toNat, mi)) (Reads.pure _)
  simpa using this

end Sbdf
