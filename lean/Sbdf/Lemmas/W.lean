/-
  Writer side: `WOut` algebra, soundness of failure statuses, generic `emit` lemmas.
-/
import Sbdf.Slice
namespace Sbdf

namespace WOut

theorem append_def (a b : WOut) : a ++ b = seq a b := rfl

@[simp] theorem nil_chunks : nil.chunks = [] := rfl
@[simp] theorem nil_st : nil.st = .ok := rfl
@[simp] theorem nil_bytes : nil.bytes = [] := rfl
@[simp] theorem one_chunks (b : Bytes) (s : Status) : (one b s).chunks = [⟨b, s⟩] := rfl
@[simp] theorem one_st (b : Bytes) (s : Status) : (one b s).st = .ok := rfl
@[simp] theorem one_bytes (b : Bytes) (s : Status) : (one b s).bytes = b := by simp [bytes, one]
@[simp] theorem err_chunks (s : Status) : (err s).chunks = [] := rfl
@[simp] theorem err_st (s : Status) : (err s).st = s := rfl

/-- every `fwrite` call site returns a non-OK status when the call is short -/
def Sound (w : WOut) : Prop := ∀ c ∈ w.chunks, c.onFail ≠ .ok

theorem sound_nil : Sound nil := by intro c h; simp at h
theorem sound_err (s : Status) : Sound (err s) := by intro c h; simp at h
theorem sound_one (b : Bytes) (s : Status) (h : s ≠ .ok) : Sound (one b s) := by
  intro c hc; simp at hc; subst hc; exact h

theorem sound_append {a b : WOut} (ha : Sound a) (hb : Sound b) : Sound (a ++ b) := by
  rw [append_def]; unfold seq
  split
  · intro c hc; simp at hc; rcases hc with h | h
    · exact ha c h
    · exact hb c h
  · exact ha

theorem sound_seqAll {ws : List WOut} (h : ∀ w ∈ ws, Sound w) : Sound (seqAll ws) := by
  induction ws with
  | nil => exact sound_nil
  | cons w ws ih =>
    simp only [seqAll]
    exact sound_append (h w (by simp)) (ih (fun x hx => h x (by simp [hx])))

theorem append_ok {a b : WOut} (h : a.st = .ok) : (a ++ b).chunks = a.chunks ++ b.chunks ∧ (a ++ b).st = b.st := by
  rw [append_def]; unfold seq; simp [h]

theorem append_err {a b : WOut} (h : a.st ≠ .ok) : a ++ b = a := by
  rw [append_def]; unfold seq; simp [h]

theorem bytes_append_ok {a b : WOut} (h : a.st = .ok) : (a ++ b).bytes = a.bytes ++ b.bytes := by
  unfold bytes; rw [(append_ok h).1]; simp

end WOut

/-! ### emit -/

theorem emitChunks_none (cs : List Chunk) : emitChunks none cs = (.ok, cs.flatMap (·.bytes)) := by
  induction cs with
  | nil => rfl
  | cons c cs ih => simp [emitChunks, ih]

/-- accepted bytes are a prefix of the full output, never more than the budget -/
theorem emitChunks_prefix (b : Nat) (cs : List Chunk) :
    ∃ t, cs.flatMap (·.bytes) = (emitChunks (some b) cs).2 ++ t ∧ (emitChunks (some b) cs).2.length ≤ b := by
  induction cs generalizing b with
  | nil => exact ⟨[], by simp [emitChunks], by simp [emitChunks]⟩
  | cons c cs ih =>
    simp only [emitChunks]
    split
    · rename_i hle
      obtain ⟨t, h1, h2⟩ := ih (b - c.bytes.length)
      refine ⟨t, ?_, ?_⟩
      · simp only [List.flatMap_cons, h1, List.append_assoc]
      · simp only [List.length_append]; omega
    · refine ⟨c.bytes.drop b ++ cs.flatMap (·.bytes), ?_, ?_⟩
      · simp only [List.flatMap_cons, ← List.append_assoc, List.take_append_drop]
      · simp [List.length_take]; omega

/-- if the stream reports OK, every byte was accepted -/
theorem emitChunks_ok_complete (b : Nat) (cs : List Chunk) (hs : ∀ c ∈ cs, c.onFail ≠ .ok)
    (h : (emitChunks (some b) cs).1 = .ok) :
    (emitChunks (some b) cs).2 = cs.flatMap (·.bytes) ∧ (cs.flatMap (·.bytes)).length ≤ b := by
  induction cs generalizing b with
  | nil => simp [emitChunks]
  | cons c cs ih =>
    simp only [emitChunks] at h ⊢
    split
    · rename_i hle
      simp only [hle, if_true] at h
      obtain ⟨h1, h2⟩ := ih (b - c.bytes.length) (fun x hx => hs x (by simp [hx])) h
      refine ⟨by simp [h1], ?_⟩
      simp only [List.flatMap_cons, List.length_append]; omega
    · rename_i hle
      simp only [hle, if_false] at h
      exact absurd h (hs c (by simp))

/-- a stream that cannot take the whole output makes the writer fail -/
theorem emitChunks_short_fails (b : Nat) (cs : List Chunk) (hs : ∀ c ∈ cs, c.onFail ≠ .ok)
    (hb : b < (cs.flatMap (·.bytes)).length) : (emitChunks (some b) cs).1 ≠ .ok := by
  intro h
  have := (emitChunks_ok_complete b cs hs h).2
  omega

end Sbdf
