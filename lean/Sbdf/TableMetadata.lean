/-
  Sbdf.TableMetadata — model of src/tablemetadata.c.
-/
import Sbdf.Metadata
namespace Sbdf

structure TM where
  table : Md
  cols : List Md
  deriving Repr, DecidableEq, Inhabited

/-- `sbdf_tm_create` -/
def tmCreate (tableMd : Md) : Except Status TM :=
  match Md.copy tableMd Md.empty with
  | .error e => .error e
  | .ok m => .ok ⟨m.freeze, []⟩

/-- `sbdf_tm_add` -/
def tmAdd (colMd : Md) (t : TM) : Except Status TM :=
  match Md.copy colMd Md.empty with
  | .error e => .error e
  | .ok m => .ok { t with cols := t.cols ++ [m.freeze] }

/-! ### reader (tablemetadata.c:140-448) -/

def remapErr (s : Status) (p : P α) : P α := fun d pos =>
  match p d pos with
  | .error (.st _) => .error (.st s)
  | r => r

/-- a presence flag followed, when set, by one unpacked object of type `vt`.  `strict`: the flag
    must be exactly 0 or 1 (table-level entries, tablemetadata.c:158-163, 177-182); the
    column-level flags accept any non-zero value -/
def readOptObj (c : Cfg) (vt : Nat) (strict : Bool) : P (Option Obj) := do
  let v ← readInt8
  if v ≠ 0 then
    if strict = true ∧ v ≠ 1 then P.fail .arrayLen1 else do let o ← readObj c vt; P.pure (some o)
  else P.pure none

/-- `sbdf_read_metadata_values` -/
def readMdValues (c : Cfg) (vt : Nat) : P (Option Obj × Option Obj) := do
  let value ← readOptObj c vt true
  let dflt ← readOptObj c vt true
  P.pure (value, dflt)

def readTableEntry (c : Cfg) : P MdEntry := do
  let name ← readString c
  let vt ← readInt8
  let (value, dflt) ← readMdValues c vt
  P.pure ⟨name, value, dflt⟩

/-- one row of the file-wide column-metadata name list -/
structure NameRow where
  name : Bytes
  vt : Nat
  dflt : Option Obj
  deriving Repr, DecidableEq, Inhabited

def readNameRow (c : Cfg) : P NameRow := do
  let name ← readString c
  let vt ← readInt8
  let dflt ← readOptObj c vt false
  P.pure ⟨name, vt, dflt⟩

/-- one column: a presence flag (+ value) per name row, each present one `sbdf_md_add`ed -/
def readColumn (c : Cfg) : List NameRow → Md → P Md
  | [], m => P.pure m
  | r :: rs, m => do
    let o ← readOptObj c r.vt false
    match o with
    | some value =>
      match Md.add r.name value r.dflt m with
      | .error e => P.fail e
      | .ok m' => readColumn c rs m'
    | none => readColumn c rs m

/-- `sbdf_tm_read` -/
def readTM (c : Cfg) : P TM := do
  secExpect 2
  let count ← readInt32 c
  if count < 0 then P.fail .invalidSize else
  let entries ← readMany count.toNat (readTableEntry c)
  let colCnt ← readInt32 c
  -- repair F22: negative counts are INVALID_SIZE (they used to reach calloc and come back as OOM)
  if colCnt < 0 then P.fail .invalidSize else
  alloc c (colCnt * 8)
  let mdCnt ← remapErr .oom (readInt32 c)
  if mdCnt < 0 then P.fail .invalidSize else
  alloc c (mdCnt * 8)
  let rows ← readMany mdCnt.toNat (readNameRow c)
  let cols ← readMany colCnt.toNat (readColumn c rows Md.empty)
  P.pure ⟨⟨entries, false⟩, cols.map Md.freeze⟩

/-! ### writer (tablemetadata.c:473-695) -/

def writeOptObj (c : Cfg) : Option Obj → WOut
  | some o => writeInt8 1 ++ writeObj c o
  | none => writeInt8 0

/-- a table-level entry; an entry without a value cannot be written (its type is unknown):
    INCORRECT_METADATA after the repair (the C code dereferenced the null value) -/
def writeTableEntry (c : Cfg) (e : MdEntry) : WOut :=
  match e.value with
  | none => WOut.err .incorrectMd
  | some v =>
    writeString c e.name ++ writeInt8 v.tid ++ writeInt8 1 ++ writeObj c v ++ writeOptObj c e.dflt

def entryTid (e : MdEntry) : Nat := match e.value with | some v => v.tid | none => 0

/-- Column-metadata folding, primary model (DESIGN A.2): walk all column entries in (column,
    insertion) order; keep the first occurrence of each C-string name; every later occurrence
    is compared with the previous occurrence of that name (the adjacent pair of the C code's
    array sorted by (name, order)). -/
def foldColsAux : List MdEntry → List MdEntry → List MdEntry → Except Status (List MdEntry)
  | [], kept, _ => .ok kept.reverse
  | e :: es, kept, last =>
    match last.find? (fun l => Md.nameEq l.name e.name) with
    | none => foldColsAux es (e :: kept) (e :: last)
    | some p =>
      if entryTid p ≠ entryTid e then .error .incorrectMd
      else if !objEqOpt p.dflt e.dflt then .error .incorrectMd
      else foldColsAux es kept (e :: last)

def foldCols (all : List MdEntry) : Except Status (List MdEntry) := foldColsAux all [] []

def writeNameRow (c : Cfg) (e : MdEntry) : WOut :=
  writeString c e.name ++ writeInt8 (entryTid e) ++ writeOptObj c e.dflt

def writeColumnFlags (c : Cfg) (kept : List MdEntry) (col : Md) : WOut :=
  WOut.seqAll (kept.map (fun k =>
    match col.find k.name with
    | some e => (match e.value with
        | some v => writeInt8 1 ++ writeObj c v
        | none => WOut.err .argNull)
    | none => writeInt8 0))

/-- `sbdf_tm_write` -/
def writeTM (c : Cfg) (t : TM) : WOut :=
  secWrite 2 ++ writeInt32 c t.table.cnt ++
  WOut.seqAll (t.table.entries.map (writeTableEntry c)) ++
  writeInt32 c t.cols.length ++
  (match foldCols (t.cols.flatMap (·.entries)) with
   | .error e => WOut.err e
   | .ok kept =>
     writeInt32 c kept.length ++ WOut.seqAll (kept.map (writeNameRow c)) ++
     WOut.seqAll (t.cols.map (writeColumnFlags c kept)))

end Sbdf
