/-
  Sbdf.Metadata — model of src/metadata.c and src/columnmetadata.c.
-/
import Sbdf.Object
namespace Sbdf

/-- one list node.  `name` is the full length-prefixed array (may contain NULs when it came
    from a stream); lookups see `cstr name`.  `value = none` only for reader-built table
    metadata entries whose has-value flag was 0. -/
structure MdEntry where
  name : Bytes
  value : Option Obj
  dflt : Option Obj
  deriving Repr, DecidableEq, Inhabited

structure Md where
  entries : List MdEntry
  modifiable : Bool
  deriving Repr, DecidableEq, Inhabited

namespace Md

def empty : Md := ⟨[], true⟩

def nameEq (a b : Bytes) : Bool := cstr a == cstr b

def find (m : Md) (name : Bytes) : Option MdEntry := m.entries.find? (fun e => nameEq e.name name)

/-- `sbdf_md_exists` -/
def exists_ (m : Md) (name : Bytes) : Bool := (m.find name).isSome

/-- `sbdf_md_cnt` -/
def cnt (m : Md) : Nat := m.entries.length

def dfltTypeMismatch (v : Obj) : Option Obj → Bool
  | some d => v.tid != d.tid
  | none => false

def dfltBadCount : Option Obj → Bool
  | some d => d.count != 1
  | none => false

/-- `sbdf_md_add` (checks in the C order) -/
def add (name : Bytes) (value : Obj) (dflt : Option Obj) (m : Md) : Except Status Md :=
  if m.modifiable = false then .error .mdReadonly
  else if dfltTypeMismatch value dflt = true then .error .valuetypesEq
  else if (value.count != 1 || dfltBadCount dflt) = true then .error .arrayLen1
  else if m.exists_ name = true then .error .mdExists
  else .ok { m with entries := m.entries ++ [⟨cstr name, some value, dflt⟩] }

/-- `sbdf_md_add_str` -/
def addStr (name value : Bytes) (dflt : Option Bytes) (m : Md) : Except Status Md :=
  add name ⟨10, [cstr value]⟩ (dflt.map (fun d => ⟨10, [cstr d]⟩)) m

/-- `sbdf_md_add_int` -/
def addInt (c : Cfg) (name : Bytes) (value dflt : Int) (m : Md) : Except Status Md :=
  -- host-order bytes of the ints: the object stores host order; the model stores the
  -- little-endian host image irrespective of `c.swap` (the harness runs on x86)
  let _ := c
  add name ⟨2, [natLE 4 (ofInt32 value)]⟩ (some ⟨2, [natLE 4 (ofInt32 dflt)]⟩) m

def eraseFirst (p : MdEntry → Bool) : List MdEntry → List MdEntry
  | [] => []
  | e :: es => if p e then es else e :: eraseFirst p es

/-- `sbdf_md_remove` -/
def remove (name : Bytes) (m : Md) : Except Status Md :=
  if m.modifiable = false then .error .mdReadonly
  else .ok { m with entries := eraseFirst (fun e => nameEq e.name name) m.entries }

/-- `sbdf_md_get` (after the repair: the result of the copy is returned, so an entry without
    a value yields ARGUMENT_NULL instead of OK with nothing) -/
def get (name : Bytes) (m : Md) : Except Status Obj :=
  match m.find name with
  | none => .error .mdNotFound
  | some e => match e.value with
    | none => .error .argNull
    | some v => .ok v

/-- `sbdf_md_get_dflt` -/
def getDflt (name : Bytes) (m : Md) : Except Status (Option Obj) :=
  match m.find name with
  | none => .error .mdNotFound
  | some e => .ok e.dflt

/-- some name occurs twice (only collections linked by `sbdf_tm_read` can be like that) -/
def dupNames : List MdEntry → Bool
  | [] => false
  | e :: es => es.any (fun x => nameEq e.name x.name) || dupNames es

/-- `sbdf_md_copy src dst`: all entries appended, or none -/
def copy (src dst : Md) : Except Status Md :=
  if dst.modifiable = false then .error .mdReadonly
  else if src.entries.any (fun s => dst.entries.any (fun d => nameEq s.name d.name)) = true then
    .error .mdExists
  -- repair F24: a source that repeats a name clashes with itself
  else if dupNames src.entries = true then .error .mdExists
  else if src.entries.any (fun s => s.value.isNone) = true then .error .argNull
  else .ok { dst with entries := dst.entries ++ src.entries }

/-- `sbdf_md_set_immutable` -/
def freeze (m : Md) : Md := { m with modifiable := false }

end Md

/-! ### columnmetadata.c -/

def CM_NAME : Bytes := "Name".toUTF8.toList
def CM_DATATYPE : Bytes := "DataType".toUTF8.toList

/-- `sbdf_cm_set_values`: Name, then DataType (a partial result stays when the second add
    fails, as in C) -/
def cmSetValues (colName : Bytes) (tid : Nat) (m : Md) : Md × Status :=
  match Md.addStr CM_NAME colName none m with
  | .error e => (m, e)
  | .ok m1 =>
    match Md.add CM_DATATYPE ⟨12, [[UInt8.ofNat tid]]⟩ none m1 with
    | .error e => (m1, e)
    | .ok m2 => (m2, .ok)

/-- `sbdf_cm_get_type` -/
def cmGetType (m : Md) : Except Status Nat :=
  match Md.get CM_DATATYPE m with
  | .error e => .error e
  | .ok o =>
    match o.elems with
    | [e] => if o.tid ≠ 12 ∨ (e.length ≠ 1 ∧ e.length ≠ 3) then .error .incorrectMd
             else .ok (e.headD 0).toNat
    | _ => .error .incorrectMd

/-- `sbdf_cm_get_name` -/
def cmGetName (m : Md) : Except Status Bytes :=
  match Md.get CM_NAME m with
  | .error e => .error e
  | .ok o =>
    if o.tid ≠ 10 then .error .incorrectMd
    else .ok (o.elems.headD [])

end Sbdf
