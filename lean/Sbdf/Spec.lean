/-
  Sbdf.Spec — the SBDF 1.0 wire format, declaratively: what the bytes of each construct ARE
  (no chunks, no statuses, no buffers).  Readable in minutes.  The model writer is proved to emit
  exactly these bytes (C03) and the model reader to decode them (C04, C07).

  Numbers: `le c v` = 4 bytes of the two's-complement value, little-endian (big-endian when the
  library is configured for a big-endian host, `c.swap`).  Everything else is byte-oriented.
-/
import Sbdf.Slice
namespace Sbdf.Spec

/-- 32-bit integer field -/
def le (c : Cfg) (v : Int) : Bytes := int32Bytes c v

/-- length-prefixed string: int32 length, then the bytes -/
def str (c : Cfg) (s : Bytes) : Bytes := le c s.length ++ s

/-- section marker -/
def sec (id : Nat) : Bytes := [0xdf, 0x5b, UInt8.ofNat id]

/-- file header: section 1, version 1.0 -/
def header : Bytes := sec 1 ++ [1, 0]

/-- one string/binary element: its length (7-bit groups in a packed array, int32 otherwise), then
    its bytes -/
def elem (c : Cfg) (packed : Bool) (e : Bytes) : Bytes :=
  (if packed then bytes7 e.length else le c e.length) ++ e

/-- the elements of an object.  String/binary: in a packed array a total-byte-size header
    (Σ length-of-length + length), then the elements; fixed-size types: the raw elements,
    each in stream byte order -/
def objBody (c : Cfg) (o : Obj) (packed : Bool) : Bytes :=
  if isArr o.tid then
    (if packed then le c (byteSize o.elems) else []) ++ o.elems.flatMap (elem c packed)
  else o.elems.flatMap (swapElem c)

/-- packed array: element count, then the body -/
def objArr (c : Cfg) (o : Obj) : Bytes := le c o.count ++ objBody c o true
/-- single unpacked object (metadata values) -/
def obj (c : Cfg) (o : Obj) : Bytes := objBody c o false

/-- value array: encoding id, value type id, then per encoding -/
def va (c : Cfg) : VA → Bytes
  | .plain o => [1, UInt8.ofNat o.tid] ++ objArr c o
  | .rle rows runs vals =>
    [2, UInt8.ofNat vals.tid] ++ le c rows ++ objArr c (runsObj runs) ++ objArr c vals
  | .bit vt rows bits => [3, UInt8.ofNat vt] ++ le c rows ++ bits

/-- column slice: section 4, values, property count, (name, array)* -/
def cs (c : Cfg) (x : CS) : Bytes :=
  sec 4 ++ va c x.values ++ le c x.propCnt ++ x.props.flatMap (fun p => str c p.1 ++ va c p.2)

/-- table slice: section 3, column count, column slices -/
def ts (c : Cfg) (cols : List CS) : Bytes := sec 3 ++ le c cols.length ++ cols.flatMap (cs c)

def tsEnd : Bytes := sec 5

def optObj (c : Cfg) : Option Obj → Bytes
  | some o => [1] ++ obj c o
  | none => [0]

/-- table-level metadata entry: name, type, has-value + value, has-default + default -/
def tableEntry (c : Cfg) (name : Bytes) (v : Obj) (d : Option Obj) : Bytes :=
  str c name ++ [UInt8.ofNat v.tid] ++ [1] ++ obj c v ++ optObj c d

/-- one row of the file-wide column-metadata name list: name, type, has-default + default -/
def nameRow (c : Cfg) (r : NameRow) : Bytes := str c r.name ++ [UInt8.ofNat r.vt] ++ optObj c r.dflt

/-- physical table metadata: table entries; column count; name list; per column one presence
    flag (+ value) per name, in name-list order -/
structure PhysTM where
  table : List (Bytes × Obj × Option Obj)
  names : List NameRow
  cols : List (List (Option Obj))      -- per column, aligned with `names`

def tm (c : Cfg) (p : PhysTM) : Bytes :=
  sec 2 ++ le c p.table.length ++ p.table.flatMap (fun e => tableEntry c e.1 e.2.1 e.2.2) ++
  le c p.cols.length ++ le c p.names.length ++ p.names.flatMap (nameRow c) ++
  p.cols.flatMap (fun col => col.flatMap (optObj c))

end Sbdf.Spec
