/-
  Sbdf.Prim — model of src/internals.c (fixed-width ints, 7-bit groups, strings),
  src/bswap.c, src/fileheader.c.
-/
import Sbdf.Basic
namespace Sbdf

/-! ## bswap.c -/

/-- `sbdf_swap(p, sz, 1)`: `sz/2` exchanges from both ends = reversal of the element. -/
def swapElem (c : Cfg) (b : Bytes) : Bytes := if c.swap then b.reverse else b

/-! ## little-endian numbers -/

def leNat : Bytes → Nat
  | [] => 0
  | b :: bs => b.toNat + 256 * leNat bs

def natLE : Nat → Nat → Bytes
  | 0, _ => []
  | w+1, n => UInt8.ofNat (n % 256) :: natLE w (n / 256)

/-- `(int)` conversion of an unsigned 32-bit value (two's complement). -/
def toInt32 (n : Nat) : Int := if n < 2147483648 then (n : Int) else (n : Int) - 4294967296

/-- `(unsigned int)` conversion of an `int`. -/
def ofInt32 (v : Int) : Nat := (v % 4294967296).toNat

def isInt32 (v : Int) : Prop := -2147483648 ≤ v ∧ v ≤ 2147483647
instance (v : Int) : Decidable (isInt32 v) := by unfold isInt32; exact inferInstance

/-- the four bytes `sbdf_write_int32` hands to `fwrite` -/
def int32Bytes (c : Cfg) (v : Int) : Bytes := swapElem c (natLE 4 (ofInt32 v))

def readInt32 (c : Cfg) : P Int := do
  let b ← readN 4
  P.pure (toInt32 (leNat (swapElem c b)))

def readInt8 : P Nat := do
  let b ← readN 1
  P.pure (leNat b)

def writeInt32 (c : Cfg) (v : Int) : WOut := .one (int32Bytes c v)
def writeInt8 (v : Nat) : WOut := .one [UInt8.ofNat v]

/-! ## 7-bit packed ints (internals.c:373-455) -/

/-- `sbdf_get_7bitpacked_len` -/
def len7 (v : Int) : Nat :=
  if v < 128 then 1 else if v < 16384 then 2 else if v < 2097152 then 3
  else if v < 268435456 then 4 else 5

/-- the loop of `sbdf_write_7bitpacked_int32` on `val` (unsigned), with fuel 5 (a 32-bit value
    has at most 5 groups; `write7` shows the fuel is never exhausted). -/
def write7Aux : Nat → Nat → Bytes
  | 0, _ => []
  | f+1, val =>
    if val > 127 then UInt8.ofNat (val % 128 + 128) :: write7Aux f (val / 128)
    else [UInt8.ofNat val]

def bytes7 (v : Int) : Bytes := write7Aux 5 (ofInt32 v)

/-- one `fwrite` per group -/
def write7 (v : Int) : WOut := ⟨(bytes7 v).map (fun b => ⟨[b], .io⟩), .ok⟩

/-- `sbdf_read_7bitpacked_int32`: `result |= (uch & 0x7f) << shl` on a 32-bit unsigned.
    After the repair a sixth group is refused (INVALID_SIZE) before any shift ≥ 32; the ghost
    check states the precondition of the shift. -/
def read7Aux : Nat → Nat → Nat → P Int
  | 0, _, _ => P.fail .invalidSize
  | f+1, shl, result => P.bind (readN 1) fun b =>
    let u := leNat b
    -- repair F23: the fifth group holds the last four bits of a 32-bit value
    if shl = 28 ∧ u % 128 ≥ 16 then P.fail .invalidSize else
    if shl < 32 then
      let result' := (result ||| ((u % 128) <<< shl)) % 4294967296
      if u ≥ 128 then
        if f = 0 then P.fail .invalidSize else read7Aux f (shl + 7) result'
      else P.pure (toInt32 result')
    else P.ub "shift count >= 32 in sbdf_read_7bitpacked_int32"

def read7 : P Int := read7Aux 5 0 0

/-! ## strings as length-prefixed arrays (sbdfstring.c, internals.c:148-230) -/

/-- C-string view of a name: bytes up to the first NUL (what `strlen`/`strcmp` see). -/
def cstr (b : Bytes) : Bytes := b.takeWhile (· ≠ 0)

/-- `sbdf_write_string`: int32 length (header length of the array, not strlen) + bytes -/
def writeString (c : Cfg) (s : Bytes) : WOut :=
  writeInt32 c s.length ++ .one s

/-- `sbdf_str_create_len(0, l)` allocation: `malloc(1 + l + sizeof(int))`; refused for
    lengths whose size computation would overflow `int` (repair) -/
def allocStr (c : Cfg) (l : Int) : P Unit :=
  if l > INT_MAX - 5 then P.fail .oom else alloc c (l + 5)

/-- `sbdf_ba_create(0, l)` allocation: `malloc(l + sizeof(int))` -/
def allocBa (c : Cfg) (l : Int) : P Unit := alloc c (l + 4)

def readString (c : Cfg) : P Bytes := do
  let l ← readInt32 c
  if l < 0 then P.fail .invalidSize else
  allocStr c l
  readN l.toNat

def skipString (c : Cfg) : P Unit := do
  let l ← readInt32 c
  if l < 0 then P.fail .invalidSize else
  skipBytes c l

/-! ## fileheader.c -/

def secWrite (id : Nat) : WOut := writeInt8 0xdf ++ writeInt8 0x5b ++ writeInt8 id

def secRead : P Nat := do
  let v ← readInt8
  if v ≠ 0xdf then P.fail .magicMissing else
  let v ← readInt8
  if v ≠ 0x5b then P.fail .magicMissing else
  readInt8

def secExpect (id : Nat) : P Unit := do
  let v ← secRead
  if v ≠ id then P.fail .unexpectedSection else P.pure ()

def fhWrite : WOut := secWrite 1 ++ writeInt8 1 ++ writeInt8 0

def fhRead : P (Nat × Nat) := do
  secExpect 1
  let ma ← readInt8
  let mi ← readInt8
  P.pure (ma, mi)

end Sbdf
