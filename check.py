#!/usr/bin/env python3
"""./check.py <Cnn> [--tier quick|thorough] [--replay file]

Per run: (1) translator: regenerate lean/Sbdf/Gen from /repo's working tree; (2) lake build of
the property's theorems and of the model driver; (3) axiom / forbidden-token audit; (4) build the
harness from /repo/src; (5) correspondence: generated scenarios through harness and model, diff,
property oracle; (6) evidence/Cnn.json; VIOLATION / KNOWN-FINDING lines on stdout."""
import argparse
import os
import sys

sys.path.insert(0, os.path.dirname(os.path.abspath(__file__)))
from vlib import core, props  # noqa: E402


def main():
    ap = argparse.ArgumentParser()
    ap.add_argument("pid")
    ap.add_argument("--tier", default=os.environ.get("VERIF_TIER", "quick"))
    ap.add_argument("--replay", default=None)
    a = ap.parse_args()
    seed = int(os.environ.get("VERIF_SEED", "0") or 0)
    if a.pid not in props.CHECKS:
        print("unknown property " + a.pid)
        return 2
    if a.replay:
        return props.replay(a.pid, a.replay)
    res = props.run(a.pid, a.tier, seed)
    return res.finish()


if __name__ == "__main__":
    sys.exit(main())
